#!/bin/sh
# MANIFEST.setup_cmd: offline. Builds the harness once (warms go's build cache) and parses every specification.
set -e
cd "$(dirname "$0")"
export GOFLAGS=-mod=mod GOPROXY=off GOSUMDB=off GOTOOLCHAIN=local GOWORK=off
mkdir -p .bin .work evidence/replays
(cd harness && go build -tags verif -o ../.bin/vdrv ./cmd/vdrv)
tmp=$(mktemp -d .work/sany.XXXXXX)
cp spec/*.tla "$tmp"/
for f in "$tmp"/*.tla; do
  (cd "$tmp" && JAVA_TOOL_OPTIONS="-Djava.io.tmpdir=$PWD" tla-sany "$(basename "$f")" >sany.out 2>&1) || { cat "$tmp/sany.out"; echo "SANY failed on $f"; rm -rf "$tmp"; exit 1; }
done
rm -rf "$tmp"
echo setup ok
