// kmsdrv is the stand-alone driver binary for property C17 (spec/KmsRegions.tla): it runs the cases printed by TLC on
// the real AWS KMS plugins (SDK v1 and v2) against fake regional KMS clients and records what the plugins did.
package main

import (
	"flag"
	"fmt"
	"os"

	"verif.local/harness/drivers/kmsdrv"
)

func die(err error) {
	if err != nil {
		fmt.Fprintln(os.Stderr, "kmsdrv:", err)
		os.Exit(2)
	}
}

func main() {
	fs := flag.NewFlagSet("kmsdrv", flag.ExitOnError)
	in := fs.String("in", "-", "input cases (TLC output or json lines)")
	out := fs.String("out", "-", "result summary (json)")
	trace := fs.String("trace", "trace.ndjson", "ndjson trace to write")
	seed := fs.Int64("seed", 1, "random seed")
	repeat := fs.Int("repeat", 1, "executions per case (each builds fresh plugin instances)")
	stale := fs.Bool("stale", false, "C10 variant: the preferred unwrap region returns a wrong data key when another region is available")
	die(fs.Parse(os.Args[1:]))
	kmsdrv.StaleFirst = *stale
	die(kmsdrv.Replay(*in, *trace, *out, *seed, *repeat))
}
