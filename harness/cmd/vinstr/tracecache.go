package main

import (
	"bytes"
	"fmt"
	"go/ast"
	"go/format"
	"go/parser"
	"go/token"
	"os"
	"path/filepath"
)

// Trace instrumentation of the generic cache for the repository's OWN tests (DESIGN.md 11.7): the public operations of
// pkg/cache/cache.go are renamed to verifOrig<Name> and wrappers with the original names (in a file the overlay adds to the
// package) log one ndjson event per call - arguments, results, eviction callbacks delivered since the previous event - in the
// format CacheTrace.tla validates. Nothing under the repository is modified.
var traceCacheMethods = map[string]map[string]bool{
	"builder": {"Build": true},
	"cache":   {"Set": true, "Get": true, "Delete": true, "Len": true, "Close": true},
}

func recvBase(fd *ast.FuncDecl) string {
	if fd.Recv == nil || len(fd.Recv.List) == 0 {
		return ""
	}
	t := fd.Recv.List[0].Type
	if s, ok := t.(*ast.StarExpr); ok {
		t = s.X
	}
	switch x := t.(type) {
	case *ast.IndexListExpr:
		return lastName(x.X)
	case *ast.IndexExpr:
		return lastName(x.X)
	}
	return lastName(t)
}

func traceCacheOverlay(repo, out string, replace map[string]string) error {
	dir := filepath.Join(repo, "go/appencryption/pkg/cache")
	src := filepath.Join(dir, "cache.go")
	fset := token.NewFileSet()
	f, err := parser.ParseFile(fset, src, nil, parser.ParseComments)
	if err != nil {
		return err
	}
	renamed := 0
	for _, d := range f.Decls {
		fd, ok := d.(*ast.FuncDecl)
		if !ok {
			continue
		}
		if traceCacheMethods[recvBase(fd)][fd.Name.Name] {
			fd.Name.Name = "verifOrig" + fd.Name.Name
			renamed++
		}
	}
	if renamed != 6 {
		return fmt.Errorf("pkg/cache/cache.go: expected the 6 methods Build/Set/Get/Delete/Len/Close, found %d", renamed)
	}
	var buf bytes.Buffer
	if err := format.Node(&buf, fset, f); err != nil {
		return err
	}
	dst := filepath.Join(out, "cache__cache.go")
	if err := os.WriteFile(dst, buf.Bytes(), 0o644); err != nil {
		return err
	}
	replace[src] = dst
	dst2 := filepath.Join(out, "cache__zz_verif_trace.go")
	if err := os.WriteFile(dst2, []byte(traceCacheSrc), 0o644); err != nil {
		return err
	}
	replace[filepath.Join(dir, "zz_verif_trace.go")] = dst2
	return nil
}

const traceCacheSrc = `package cache

import (
	"encoding/json"
	"fmt"
	"os"
	"reflect"
	"sync"
	"time"
)

// Added by the verification overlay (never present in the repository): wrappers that log every public cache operation.

type verifCB struct {
	K string
	V int
}

func (c verifCB) MarshalJSON() ([]byte, error) { return json.Marshal([]interface{}{c.K, c.V}) }

type verifEvent struct {
	Op     string    ` + "`json:\"op\"`" + `
	K      string    ` + "`json:\"k\"`" + `
	V      int       ` + "`json:\"v\"`" + `
	Ok     bool      ` + "`json:\"ok\"`" + `
	Rv     int       ` + "`json:\"rv\"`" + `
	Cbs    []verifCB ` + "`json:\"cbs\"`" + `
	Cap    int       ` + "`json:\"cap\"`" + `
	Policy string    ` + "`json:\"policy\"`" + `
	Expiry int       ` + "`json:\"expiry\"`" + `
	Sync   bool      ` + "`json:\"sync\"`" + `
	Run    int       ` + "`json:\"run\"`" + `
	Test   string    ` + "`json:\"test,omitempty\"`" + `
}

// one recorder per process; every cache built is one run
var verifRec = struct {
	sync.Mutex
	f    *os.File
	runs int
	by   map[interface{}]*verifRun
}{by: map[interface{}]*verifRun{}}

type verifRun struct {
	mu      sync.Mutex // serialises the traced operations of one cache: log order = linearisation order
	pmu     sync.Mutex
	pend    []verifCB
	vals    map[string]int
	run     int
	expiry  time.Duration
	last    time.Time
	aborted bool
}

func verifOut() *os.File {
	if verifRec.f == nil {
		if p := os.Getenv("VERIF_CACHE_TRACE"); p != "" {
			f, err := os.OpenFile(fmt.Sprintf("%s.%d", p, os.Getpid()), os.O_CREATE|os.O_WRONLY|os.O_APPEND, 0o644)
			if err == nil {
				verifRec.f = f
			}
		}
	}
	return verifRec.f
}

func verifEmit(e verifEvent) {
	verifRec.Lock()
	defer verifRec.Unlock()
	if e.Cbs == nil {
		e.Cbs = []verifCB{}
	}
	if f := verifOut(); f != nil {
		b, _ := json.Marshal(e)
		f.Write(append(b, '\n'))
	}
}

func verifStr(x interface{}) string {
	v := reflect.ValueOf(x)
	switch v.Kind() {
	case reflect.Ptr, reflect.Func, reflect.Chan, reflect.Map, reflect.UnsafePointer:
		return fmt.Sprintf("%p", x)
	}
	return fmt.Sprint(x)
}

func (r *verifRun) val(x interface{}) int {
	r.pmu.Lock()
	defer r.pmu.Unlock()
	s := verifStr(x)
	if id, ok := r.vals[s]; ok {
		return id
	}
	id := len(r.vals) + 1
	r.vals[s] = id
	return id
}

func (r *verifRun) take() []verifCB {
	r.pmu.Lock()
	defer r.pmu.Unlock()
	p := r.pend
	r.pend = nil
	return p
}

func verifPolicyName(p interface{}) string {
	t := reflect.TypeOf(p).String()
	switch {
	case len(t) >= 14 && t[:14] == "*cache.tinyLFU":
		return "tinylfu"
	case len(t) >= 11 && t[:11] == "*cache.slru":
		return "slru"
	case len(t) >= 10 && t[:10] == "*cache.lru":
		return "lru"
	case len(t) >= 10 && t[:10] == "*cache.lfu":
		return "lfu"
	}
	return t
}

func (b *builder[K, V]) Build() Interface[K, V] {
	if os.Getenv("VERIF_CACHE_TRACE") == "" {
		return b.verifOrigBuild()
	}
	r := &verifRun{vals: map[string]int{}, expiry: b.expiry}
	user := b.evictFunc
	b.evictFunc = func(k K, v V) {
		id := r.val(v)
		r.pmu.Lock()
		r.pend = append(r.pend, verifCB{verifStr(k), id})
		r.pmu.Unlock()
		user(k, v)
	}
	i := b.verifOrigBuild()
	b.evictFunc = user
	c, ok := i.(*cache[K, V])
	if !ok {
		return i
	}
	verifRec.Lock()
	verifRec.runs++
	r.run = verifRec.runs
	verifRec.by[c] = r
	verifRec.Unlock()
	r.last = c.clock.Now()
	// an expiring cache on the wall clock cannot be replayed exactly in whole time units: its run is cut out
	if _, real := c.clock.(*realClock); real && b.expiry > 0 {
		r.aborted = true
	}
	exp := int(b.expiry / time.Millisecond)
	if b.expiry > 0 && (b.expiry%time.Millisecond != 0 || b.expiry > 500*time.Hour) {
		r.aborted = true
	}
	verifEmit(verifEvent{Op: "Reset", Cap: b.capacity, Policy: verifPolicyName(c.policy), Expiry: exp, Sync: b.isSync, Run: r.run})
	if r.aborted {
		verifEmit(verifEvent{Op: "Abort", Run: r.run})
	}
	return i
}

func verifRunOf(c interface{}) *verifRun {
	verifRec.Lock()
	defer verifRec.Unlock()
	return verifRec.by[c]
}

// tick logs the movement of the cache's clock (whole milliseconds) since the previous event
func (c *cache[K, V]) verifTick(r *verifRun) {
	if r.expiry == 0 || r.aborted {
		return
	}
	now := c.clock.Now()
	d := now.Sub(r.last)
	if d == 0 {
		return
	}
	if d < 0 || d%time.Millisecond != 0 || d > 500*time.Hour {
		r.aborted = true
		verifEmit(verifEvent{Op: "Abort", Run: r.run})
		return
	}
	r.last = now
	verifEmit(verifEvent{Op: "Tick", V: int(d / time.Millisecond), Run: r.run})
}

func (c *cache[K, V]) Set(key K, value V) {
	r := verifRunOf(c)
	if r == nil {
		c.verifOrigSet(key, value)
		return
	}
	r.mu.Lock()
	defer r.mu.Unlock()
	c.verifTick(r)
	c.verifOrigSet(key, value)
	verifEmit(verifEvent{Op: "Set", K: verifStr(key), V: r.val(value), Cbs: r.take(), Run: r.run})
}

func (c *cache[K, V]) Get(key K) (V, bool) {
	r := verifRunOf(c)
	if r == nil {
		return c.verifOrigGet(key)
	}
	r.mu.Lock()
	defer r.mu.Unlock()
	c.verifTick(r)
	v, ok := c.verifOrigGet(key)
	rv := 0
	if ok {
		rv = r.val(v)
	}
	verifEmit(verifEvent{Op: "Get", K: verifStr(key), Ok: ok, Rv: rv, Cbs: r.take(), Run: r.run})
	return v, ok
}

func (c *cache[K, V]) Delete(key K) bool {
	r := verifRunOf(c)
	if r == nil {
		return c.verifOrigDelete(key)
	}
	r.mu.Lock()
	defer r.mu.Unlock()
	c.verifTick(r)
	ok := c.verifOrigDelete(key)
	verifEmit(verifEvent{Op: "Delete", K: verifStr(key), Ok: ok, Cbs: r.take(), Run: r.run})
	return ok
}

func (c *cache[K, V]) Len() int {
	r := verifRunOf(c)
	if r == nil {
		return c.verifOrigLen()
	}
	r.mu.Lock()
	defer r.mu.Unlock()
	n := c.verifOrigLen()
	verifEmit(verifEvent{Op: "Len", Rv: n, Cbs: r.take(), Run: r.run})
	return n
}

func (c *cache[K, V]) Close() error {
	r := verifRunOf(c)
	if r == nil {
		return c.verifOrigClose()
	}
	r.mu.Lock()
	defer r.mu.Unlock()
	err := c.verifOrigClose()
	verifEmit(verifEvent{Op: "Close", Ok: err == nil, Cbs: r.take(), Run: r.run})
	return err
}
`
