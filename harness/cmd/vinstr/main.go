// vinstr writes a `go build -overlay` file that substitutes instrumented copies of repository sources.
// Nothing under the repository is modified. Rewrites (syntactic, go/ast):
//
//	clock:  time.Now() -> vrt.Now()     in every non-test file of the listed package directories
//
// usage: vinstr -repo /repo -out <dir> [-sched]   (prints the path of overlay.json)
package main

import (
	"bytes"
	"encoding/json"
	"flag"
	"fmt"
	"go/ast"
	"go/format"
	"go/parser"
	"go/token"
	"os"
	"path/filepath"
	"strconv"
	"strings"
)

var clockDirs = []string{
	"go/appencryption",
	"go/appencryption/internal",
	"go/appencryption/pkg/cache",
	"go/appencryption/pkg/persistence",
	"go/securememory/protectedmemory",
	"go/securememory/memguard",
}

func main() {
	repo := flag.String("repo", "/repo", "repository root")
	out := flag.String("out", "", "output directory")
	sched := flag.Bool("sched", false, "also instrument synchronisation for the cooperative scheduler")
	traceCache := flag.Bool("tracecache", false, "ONLY: wrap the public operations of pkg/cache with trace logging (for the repository's own tests)")
	flag.Parse()
	if *out == "" {
		fmt.Fprintln(os.Stderr, "vinstr: -out required")
		os.Exit(2)
	}
	if err := os.MkdirAll(*out, 0o755); err != nil {
		fail(err)
	}
	replace := map[string]string{}
	n := 0
	if *traceCache {
		if err := traceCacheOverlay(*repo, *out, replace); err != nil {
			fail(err)
		}
		writeOverlay(*out, replace, 2)
		return
	}
	for _, d := range clockDirs {
		dir := filepath.Join(*repo, d)
		ents, err := os.ReadDir(dir)
		if err != nil {
			continue
		}
		for _, e := range ents {
			name := e.Name()
			if e.IsDir() || !strings.HasSuffix(name, ".go") || strings.HasSuffix(name, "_test.go") {
				continue
			}
			src := filepath.Join(dir, name)
			b, changed, err := rewrite(src, *sched && schedTarget(d, name))
			if err != nil {
				fail(fmt.Errorf("%s: %w", src, err))
			}
			if !changed {
				continue
			}
			dst := filepath.Join(*out, strings.ReplaceAll(d, "/", "_")+"__"+name)
			if err := os.WriteFile(dst, b, 0o644); err != nil {
				fail(err)
			}
			replace[src] = dst
			n++
		}
	}
	// test-only constructors (files ADDED to the packages by the overlay; nothing is written under the repository)
	for _, pkg := range []string{"protectedmemory", "memguard"} {
		dir := filepath.Join(*repo, "go/securememory", pkg)
		if _, err := os.Stat(dir); err != nil {
			continue
		}
		dst := filepath.Join(*out, "securememory_"+pkg+"__zz_verif_export.go")
		src := "//go:build verif\n\npackage " + pkg + "\n\nimport \"github.com/godaddy/asherah/go/securememory/internal/memcall\"\n\n" +
			"// VerifNewSecretFactory returns a SecretFactory whose memory primitives are mc (verification builds only).\n" +
			"func VerifNewSecretFactory(mc memcall.Interface) *SecretFactory { return &SecretFactory{mc: mc} }\n"
		if err := os.WriteFile(dst, []byte(src), 0o644); err != nil {
			fail(err)
		}
		replace[filepath.Join(dir, "zz_verif_export.go")] = dst
	}
	writeOverlay(*out, replace, n)
}

func writeOverlay(out string, replace map[string]string, n int) {
	ov, _ := json.MarshalIndent(map[string]interface{}{"Replace": replace}, "", " ")
	p := filepath.Join(out, "overlay.json")
	if err := os.WriteFile(p, ov, 0o644); err != nil {
		fail(err)
	}
	fmt.Println(p)
	fmt.Fprintf(os.Stderr, "vinstr: %d files rewritten\n", n)
}

func fail(err error) {
	fmt.Fprintln(os.Stderr, "vinstr:", err)
	os.Exit(2)
}

func importName(f *ast.File, path string) string {
	for _, im := range f.Imports {
		p, _ := strconv.Unquote(im.Path.Value)
		if p == path {
			if im.Name != nil {
				return im.Name.Name
			}
			return filepath.Base(path)
		}
	}
	return ""
}

func rewrite(src string, sched bool) ([]byte, bool, error) {
	fset := token.NewFileSet()
	f, err := parser.ParseFile(fset, src, nil, parser.ParseComments)
	if err != nil {
		return nil, false, err
	}
	changed := false
	timeName := importName(f, "time")
	if timeName != "" && timeName != "_" && timeName != "." {
		ast.Inspect(f, func(n ast.Node) bool {
			call, ok := n.(*ast.CallExpr)
			if !ok {
				return true
			}
			sel, ok := call.Fun.(*ast.SelectorExpr)
			if !ok || sel.Sel.Name != "Now" || len(call.Args) != 0 {
				return true
			}
			id, ok := sel.X.(*ast.Ident)
			if !ok || id.Name != timeName || id.Obj != nil {
				return true
			}
			id.Name = "vrt"
			changed = true
			return true
		})
	}
	if sched {
		if instrumentSched(fset, f) {
			changed = true
		}
	}
	if !changed {
		return nil, false, nil
	}
	addImport(f, "verif.local/harness/vrt")
	var buf bytes.Buffer
	if err := format.Node(&buf, fset, f); err != nil {
		return nil, false, err
	}
	if timeName != "" {
		// keep the "time" import used even if every use was time.Now()
		fmt.Fprintf(&buf, "\nvar _ = %s.Unix\n", timeName)
	}
	fmt.Fprintf(&buf, "\nvar _ = vrt.Now\n")
	return buf.Bytes(), true, nil
}

func addImport(f *ast.File, path string) {
	for _, im := range f.Imports {
		if p, _ := strconv.Unquote(im.Path.Value); p == path {
			return
		}
	}
	spec := &ast.ImportSpec{Path: &ast.BasicLit{Kind: token.STRING, Value: strconv.Quote(path)}}
	for _, d := range f.Decls {
		if g, ok := d.(*ast.GenDecl); ok && g.Tok == token.IMPORT {
			g.Specs = append(g.Specs, spec)
			if !g.Lparen.IsValid() {
				g.Lparen = g.Pos()
				g.Rparen = g.End()
			}
			f.Imports = append(f.Imports, spec)
			return
		}
	}
	g := &ast.GenDecl{Tok: token.IMPORT, Specs: []ast.Spec{spec}}
	f.Decls = append([]ast.Decl{g}, f.Decls...)
	f.Imports = append(f.Imports, spec)
}
