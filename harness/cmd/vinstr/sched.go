package main

import (
	"go/ast"
	"go/token"
)

// schedTarget says whether a file takes part in scheduler instrumentation (filled in with the scheduler engine).
func schedTarget(dir, name string) bool { return false }

func instrumentSched(fset *token.FileSet, f *ast.File) bool { return false }
