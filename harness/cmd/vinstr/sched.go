package main

import (
	"fmt"
	"go/ast"
	"go/token"
	"strconv"
	"strings"
)

// Scheduler instrumentation (syntactic; see DESIGN.md 3.3). Applied to the files that contain the SDK's in-process
// synchronisation: key cache, generic cache, session cache, crypto key, and both secure-memory implementations.
var schedFiles = map[string]bool{
	"go/appencryption/key_cache.go":              true,
	"go/appencryption/session_cache.go":          true,
	"go/appencryption/session.go":                true,
	"go/appencryption/envelope.go":               true,
	"go/appencryption/internal/key.go":           true,
	"go/appencryption/pkg/cache/cache.go":        true,
	"go/appencryption/pkg/persistence/memory.go": true,
	"go/securememory/protectedmemory/secret.go":  true,
	"go/securememory/memguard/secret.go":         true,
}

func schedTarget(dir, name string) bool { return schedFiles[dir+"/"+name] }

type instr struct {
	fset    *token.FileSet
	fn      string
	n       int
	changed bool
}

func (in *instr) label(op string) *ast.BasicLit {
	in.n++
	return &ast.BasicLit{Kind: token.STRING, Value: strconv.Quote(fmt.Sprintf("%s#%s%d", in.fn, op, in.n))}
}

func vrtCall(name string, args ...ast.Expr) *ast.CallExpr {
	return &ast.CallExpr{Fun: &ast.SelectorExpr{X: ast.NewIdent("vrt"), Sel: ast.NewIdent(name)}, Args: args}
}

func lastName(e ast.Expr) string {
	switch x := e.(type) {
	case *ast.Ident:
		return x.Name
	case *ast.SelectorExpr:
		return x.Sel.Name
	case *ast.StarExpr:
		return lastName(x.X)
	case *ast.ParenExpr:
		return lastName(x.X)
	case *ast.UnaryExpr:
		return lastName(x.X)
	}
	return ""
}

// selCall returns (receiver, method) for a call of the form X.m(...)
func selCall(e ast.Expr) (ast.Expr, string, *ast.CallExpr) {
	c, ok := e.(*ast.CallExpr)
	if !ok {
		return nil, "", nil
	}
	s, ok := c.Fun.(*ast.SelectorExpr)
	if !ok {
		return nil, "", nil
	}
	return s.X, s.Sel.Name, c
}

func isCondName(n string) bool { return n == "cond" || n == "c" }
func isWGName(n string) bool   { return strings.Contains(n, "WG") || strings.Contains(n, "wg") }
func isChanName(n string) bool { return n == "events" }

// hasAtomic reports whether the statement (not descending into nested blocks / function literals) uses an atomic.
func hasAtomic(n ast.Node) bool {
	found := false
	ast.Inspect(n, func(x ast.Node) bool {
		switch x.(type) {
		case *ast.BlockStmt, *ast.FuncLit:
			return false
		}
		recv, m, c := selCall0(x)
		if c == nil {
			return true
		}
		switch m {
		case "Add", "Load", "Store", "CompareAndSwap", "Swap":
			if lastName(recv) == "refs" {
				found = true
			}
		}
		if id, ok := recv.(*ast.Ident); ok && id.Name == "atomic" {
			found = true
		}
		return true
	})
	return found
}

func selCall0(n ast.Node) (ast.Expr, string, *ast.CallExpr) {
	e, ok := n.(ast.Expr)
	if !ok {
		return nil, "", nil
	}
	return selCall(e)
}

// rewriteStmt returns the statements that replace s.
func (in *instr) rewriteStmt(s ast.Stmt) []ast.Stmt {
	switch st := s.(type) {
	case *ast.ExprStmt:
		recv, m, call := selCall(st.X)
		if call != nil && len(call.Args) == 0 {
			switch m {
			case "Lock", "RLock":
				try := "TryLock"
				if m == "RLock" {
					try = "TryRLock"
				}
				in.changed = true
				return []ast.Stmt{&ast.ExprStmt{X: vrtCall("Acquire",
					&ast.SelectorExpr{X: recv, Sel: ast.NewIdent(try)}, &ast.SelectorExpr{X: recv, Sel: ast.NewIdent(m)}, in.label(m))}}
			case "Unlock", "RUnlock":
				in.changed = true
				return []ast.Stmt{st, &ast.ExprStmt{X: vrtCall("Released", in.label(m))}}
			case "Wait":
				if isCondName(lastName(recv)) {
					in.changed = true
					return []ast.Stmt{&ast.ExprStmt{X: vrtCall("CondWait", recv, in.label("CondWait"))}}
				}
				if isWGName(lastName(recv)) {
					in.changed = true
					return []ast.Stmt{&ast.ExprStmt{X: vrtCall("WGWait", &ast.UnaryExpr{Op: token.AND, X: recv}, in.label("WGWait"))}}
				}
			case "Broadcast", "Signal":
				if isCondName(lastName(recv)) {
					in.changed = true
					return []ast.Stmt{&ast.ExprStmt{X: vrtCall("CondBroadcast", recv)}}
				}
			case "Done":
				if isWGName(lastName(recv)) {
					in.changed = true
					return []ast.Stmt{&ast.ExprStmt{X: vrtCall("WGDone", &ast.UnaryExpr{Op: token.AND, X: recv})}}
				}
			}
		}
		if call != nil && len(call.Args) == 1 && m == "Add" && isWGName(lastName(recv)) {
			in.changed = true
			return []ast.Stmt{&ast.ExprStmt{X: vrtCall("WGAdd", &ast.UnaryExpr{Op: token.AND, X: recv}, call.Args[0])}}
		}
		// close(ch)
		if c, ok := st.X.(*ast.CallExpr); ok {
			if id, ok := c.Fun.(*ast.Ident); ok && id.Name == "close" && len(c.Args) == 1 && isChanName(lastName(c.Args[0])) {
				in.changed = true
				return []ast.Stmt{&ast.ExprStmt{X: vrtCall("ChanClose", c.Args[0])}}
			}
		}
	case *ast.DeferStmt:
		recv, m, call := selCall(st.Call)
		if call != nil && len(call.Args) == 0 {
			switch m {
			case "Unlock", "RUnlock":
				in.changed = true
				// deferred calls run last-in-first-out: the yield registered first runs after the unlock
				return []ast.Stmt{&ast.DeferStmt{Call: vrtCall("Released", in.label(m))}, st}
			case "Broadcast", "Signal":
				if isCondName(lastName(recv)) {
					in.changed = true
					return []ast.Stmt{&ast.DeferStmt{Call: vrtCall("CondBroadcast", recv)}}
				}
			case "Done":
				if isWGName(lastName(recv)) {
					in.changed = true
					return []ast.Stmt{&ast.DeferStmt{Call: vrtCall("WGDone", &ast.UnaryExpr{Op: token.AND, X: recv})}}
				}
			}
		}
	case *ast.GoStmt:
		in.changed = true
		body := &ast.BlockStmt{List: []ast.Stmt{&ast.ExprStmt{X: st.Call}}}
		return []ast.Stmt{&ast.ExprStmt{X: vrtCall("Go", in.label("go"), &ast.FuncLit{Type: &ast.FuncType{Params: &ast.FieldList{}}, Body: body})}}
	case *ast.SendStmt:
		if isChanName(lastName(st.Chan)) {
			in.changed = true
			return []ast.Stmt{&ast.ExprStmt{X: vrtCall("ChanSend", st.Chan, st.Value, in.label("send"))}}
		}
	case *ast.RangeStmt:
		if isChanName(lastName(st.X)) && st.Key != nil && st.Value == nil && st.Tok == token.DEFINE {
			in.changed = true
			okID := ast.NewIdent("vrtOK")
			recv := &ast.AssignStmt{Lhs: []ast.Expr{st.Key, okID}, Tok: token.DEFINE, Rhs: []ast.Expr{vrtCall("ChanRecv", st.X, in.label("recv"))}}
			brk := &ast.IfStmt{Cond: &ast.UnaryExpr{Op: token.NOT, X: okID}, Body: &ast.BlockStmt{List: []ast.Stmt{&ast.BranchStmt{Tok: token.BREAK}}}}
			body := &ast.BlockStmt{List: append([]ast.Stmt{recv, brk}, st.Body.List...)}
			return []ast.Stmt{&ast.ForStmt{Body: body}}
		}
	}
	return []ast.Stmt{s}
}

func (in *instr) block(list []ast.Stmt) []ast.Stmt {
	var out []ast.Stmt
	for _, s := range list {
		if hasAtomic(s) {
			in.changed = true
			out = append(out, &ast.ExprStmt{X: vrtCall("Yield", in.label("atomic"))})
		}
		out = append(out, in.rewriteStmt(s)...)
	}
	return out
}

func instrumentSched(fset *token.FileSet, f *ast.File) bool {
	any := false
	for _, d := range f.Decls {
		fd, ok := d.(*ast.FuncDecl)
		if !ok || fd.Body == nil {
			continue
		}
		name := fd.Name.Name
		if fd.Recv != nil && len(fd.Recv.List) > 0 {
			name = lastName(fd.Recv.List[0].Type) + "." + name
			if ix, ok := fd.Recv.List[0].Type.(*ast.StarExpr); ok {
				if il, ok := ix.X.(*ast.IndexListExpr); ok {
					name = lastName(il.X) + "." + fd.Name.Name
				} else if ie, ok := ix.X.(*ast.IndexExpr); ok {
					name = lastName(ie.X) + "." + fd.Name.Name
				}
			}
		}
		in := &instr{fset: fset, fn: name}
		// rewrite every statement list in the function (blocks, case clauses), innermost first
		ast.Inspect(fd.Body, func(n ast.Node) bool {
			switch b := n.(type) {
			case *ast.BlockStmt:
				defer func() { b.List = in.block(b.List) }()
			case *ast.CaseClause:
				defer func() { b.Body = in.block(b.Body) }()
			case *ast.CommClause:
				defer func() { b.Body = in.block(b.Body) }()
			}
			return true
		})
		// the deferred rewrites above run when Inspect's callback returns, i.e. before children are visited;
		// children were therefore replaced already - walk again to reach newly created nested blocks once
		if in.changed {
			any = true
		}
	}
	return any
}
