// msdrv is the stand-alone driver binary of property C13 (metastore implementations): it replays TLC-generated
// Store / Load / LoadLatest cases on the real metastores and records what they did.
package main

import (
	"flag"
	"fmt"
	"os"

	"verif.local/harness/drivers/msdrv"
)

func die(err error) {
	if err != nil {
		fmt.Fprintln(os.Stderr, "msdrv:", err)
		os.Exit(2)
	}
}

func main() {
	fs := flag.NewFlagSet("msdrv", flag.ExitOnError)
	in := fs.String("in", "-", "input cases (TLC output or json lines)")
	out := fs.String("out", "-", "result summary (json)")
	trace := fs.String("trace", "trace.ndjson", "ndjson trace to write")
	seed := fs.Int64("seed", 1, "random seed (offset of the stride sample when -max is given)")
	only := fs.String("only", "", "restrict to backend configurations whose name contains this string (e.g. ddbv1, sql/oracle)")
	max := fs.Int("max", 0, "execute at most this many cases (0 = all)")
	die(fs.Parse(os.Args[1:]))
	die(msdrv.Replay(*in, *trace, *out, msdrv.Options{Seed: *seed, Only: *only, Max: *max}))
}
