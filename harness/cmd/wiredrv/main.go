// wiredrv is the stand-alone driver binary of property C18 (spec/WireFormat.tla): it executes the structural cases printed
// by TLC on the real SDK against the documentation-derived reference codec, in both directions, and records what was
// found on each channel.
package main

import (
	"flag"
	"fmt"
	"os"

	"verif.local/harness/drivers/wiredrv"
)

func die(err error) {
	if err != nil {
		fmt.Fprintln(os.Stderr, "wiredrv:", err)
		os.Exit(2)
	}
}

func main() {
	fs := flag.NewFlagSet("wiredrv", flag.ExitOnError)
	in := fs.String("in", "-", "input cases (TLC output or json lines)")
	out := fs.String("out", "-", "result summary (json)")
	trace := fs.String("trace", "trace.ndjson", "ndjson trace to write")
	seed := fs.Int64("seed", 1, "random seed (payload bytes, reference keys and nonces)")
	clock := fs.Bool("clock", false, "the binary was built with the harness clock overlay (vinstr): also record how far the stamps written by the SDK are from the driven clock")
	die(fs.Parse(os.Args[1:]))
	die(wiredrv.Replay(*in, *trace, *out, *seed, *clock))
}
