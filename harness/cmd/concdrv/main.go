// concdrv: schedule exploration of the instrumented SDK under the cooperative scheduler (build with the -sched overlay).
package main

import (
	"encoding/json"
	"flag"
	"fmt"
	"os"

	"verif.local/harness/drivers/concdrv"
)

func die(err error) {
	if err != nil {
		fmt.Fprintln(os.Stderr, "concdrv:", err)
		os.Exit(2)
	}
}

func main() {
	out := flag.String("out", "-", "result summary (json)")
	trace := flag.String("trace", "trace.ndjson", "ndjson trace to write")
	seed := flag.Int64("seed", 1, "random seed")
	cfgJSON := flag.String("cfg", "", "exploration configuration (json)")
	replay := flag.String("replay", "", "json {scenario, choices} to re-execute")
	memstore := flag.Int("memstore", 0, "explore this many schedules of racing Store calls on the in-memory metastore (C13)")
	coldrace := flag.Int("coldrace", 0, "explore this many schedules of cold session factories racing on one real in-memory metastore (C14, C02)")
	cacheconc := flag.Int("cacheconc", 0, "explore this many schedules of goroutines operating on one real cache (C15 under concurrency)")
	workers := flag.Int("workers", 3, "racing processes for -coldrace")
	flag.Parse()
	if *cacheconc > 0 {
		die(concdrv.CacheConc(*cacheconc, 2, *seed, *trace, *out))
		return
	}
	if *coldrace > 0 {
		die(concdrv.ColdRace(*workers, *coldrace, 2, *seed, *trace, *out))
		return
	}
	if *memstore > 0 {
		die(concdrv.MemStoreRace(3, *memstore, 2, *seed, *trace, *out))
		return
	}
	if *replay != "" {
		var r struct {
			Scenario concdrv.Scenario `json:"scenario"`
			Choices  []int            `json:"choices"`
		}
		b, err := os.ReadFile(*replay)
		die(err)
		die(json.Unmarshal(b, &r))
		die(concdrv.Replay(r.Scenario, r.Choices, *seed, *trace, *out))
		return
	}
	var cfg concdrv.ExploreCfg
	die(json.Unmarshal([]byte(*cfgJSON), &cfg))
	die(concdrv.Explore(cfg, *seed, *trace, *out))
}
