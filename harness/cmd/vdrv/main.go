// vdrv is the single harness binary: one sub-command per driver.
package main

import (
	"encoding/json"
	"flag"
	"fmt"
	"os"
	"strings"

	"verif.local/harness/drivers/cachedrv"
	"verif.local/harness/drivers/envdrv"
	"verif.local/harness/drivers/partdrv"
	"verif.local/harness/drivers/srvdrv"
	"verif.local/harness/drivers/tamperdrv"
)

func die(err error) {
	if err != nil {
		fmt.Fprintln(os.Stderr, "vdrv:", err)
		os.Exit(2)
	}
}

func main() {
	if len(os.Args) < 2 {
		fmt.Fprintln(os.Stderr, "usage: vdrv <driver> [flags]")
		os.Exit(2)
	}
	cmd, args := os.Args[1], os.Args[2:]
	fs := flag.NewFlagSet(cmd, flag.ExitOnError)
	in := fs.String("in", "-", "input cases (TLC output or json lines)")
	out := fs.String("out", "-", "result summary (json)")
	trace := fs.String("trace", "trace.ndjson", "ndjson trace to write")
	seed := fs.Int64("seed", 1, "random seed")
	cfgJSON := fs.String("cfg", "", "driver-specific configuration (json)")
	variants := fs.String("variants", "", "comma separated key-cache policies to rotate through")
	conc := fs.Int("concurrent", 4, "concurrent streams / goroutines")
	long := fs.Int("long", 0, "number of long random rounds")
	caps := fs.String("capacities", "", "comma separated key-cache capacities to rotate through (non-simple policies)")
	cancel := fs.Int("cancel", 0, "per-mille probability that the caller's context is cancelled while a KMS call of the operation returns")
	ifail := fs.Int("ifail", 0, "per-mille probability of an injected allocation/AEAD failure per operation")
	strict := fs.Bool("strict", true, "compare with the model prediction and count drift")
	die(fs.Parse(args))
	switch cmd {
	case "cache-replay":
		die(cachedrv.Replay(*in, *out, []bool{true, false}))
	case "cache-trace":
		var cfgs []cachedrv.TraceCfg
		die(json.Unmarshal([]byte(*cfgJSON), &cfgs))
		die(cachedrv.Trace(cfgs, *seed, *trace, *out))
	case "env-replay":
		var vs []string
		if *variants != "" {
			vs = strings.Split(*variants, ",")
		}
		var cs []int
		for _, c := range strings.Split(*caps, ",") {
			if c != "" {
				var n int
				fmt.Sscan(c, &n)
				cs = append(cs, n)
			}
		}
		die(envdrv.Replay(*in, *trace, *out, envdrv.Options{Seed: *seed, Strict: *strict, IFail: *ifail, Cancel: *cancel}, vs, cs))
	case "env-long":
		var lc envdrv.LongCfg
		die(json.Unmarshal([]byte(*cfgJSON), &lc))
		die(envdrv.Long(lc, *seed, *trace, *out))
	case "env-stress":
		die(envdrv.Stress(16, *long, 4, *seed, *trace, *out))
	case "part-replay":
		die(partdrv.Replay(*in, *trace, *out, "s", "p"))
	case "tamper-replay":
		tamperdrv.CurrentCase = *trace + ".current"
		die(tamperdrv.Replay(*in, *trace, *out, *seed, *long))
	case "server-replay":
		die(srvdrv.Replay(*in, *trace, *out, *seed, *conc, *long))
	default:
		fmt.Fprintln(os.Stderr, "unknown driver", cmd)
		os.Exit(2)
	}
}
