// memdrv: secure-memory driver (build with -tags verif and the overlay that adds VerifNewSecretFactory).
package main

import (
	"encoding/json"
	"flag"
	"fmt"
	"os"
	"strconv"
	"strings"

	"verif.local/harness/drivers/memdrv"
)

func main() {
	in := flag.String("in", "-", "cases")
	out := flag.String("out", "-", "result summary")
	trace := flag.String("trace", "trace.ndjson", "trace")
	seed := flag.Int64("seed", 1, "seed")
	conc := flag.String("conc", "", "json ConcCfg: explore reader/closer schedules instead of replaying cases")
	sizes := flag.String("sizes", "1,32,4096,9000", "secret sizes")
	rng := flag.Int("rng", 0, "generate keys / nonces while crypto/rand.Reader returns this many bytes per Read (C03)")
	flag.Parse()
	if *rng > 0 {
		if err := memdrv.Rng(*rng, 24, *trace, *out); err != nil {
			fmt.Fprintln(os.Stderr, "memdrv:", err)
			os.Exit(2)
		}
		return
	}
	var sz []int
	for _, s := range strings.Split(*sizes, ",") {
		n, _ := strconv.Atoi(s)
		if n > 0 {
			sz = append(sz, n)
		}
	}
	if *conc != "" {
		var c memdrv.ConcCfg
		if err := json.Unmarshal([]byte(*conc), &c); err != nil {
			fmt.Fprintln(os.Stderr, "memdrv:", err)
			os.Exit(2)
		}
		if err := memdrv.Conc(c, *seed, *trace, *out); err != nil {
			fmt.Fprintln(os.Stderr, "memdrv:", err)
			os.Exit(2)
		}
		return
	}
	if err := memdrv.Replay(*in, *trace, *out, sz); err != nil {
		fmt.Fprintln(os.Stderr, "memdrv:", err)
		os.Exit(2)
	}
}
