package fakes

import (
	"verif.local/harness/vrt"

	"crypto/rand"
	"errors"
	"fmt"
	"io"
	"sync"

	"github.com/godaddy/asherah/go/securememory"
)

// SecretFactory is a tracking implementation of securememory.SecretFactory that follows the documented contract
// (New copies the bytes and wipes the source; Close wipes; access after Close is an error) and records everything.
type SecretFactory struct {
	W    *World
	Proc string
	Op   func() string

	mu       sync.Mutex
	secrets  []*Secret
	FailNext int                         // n-th next creation fails (1 = the very next)
	LogUse   bool                        // log every successful access (scheduler-driven runs)
	OnCreate func(kind string, b []byte) // observer of every new secret's bytes (taint tracking)

	DoubleClose   int
	UseAfterClose int
}

var _ securememory.SecretFactory = (*SecretFactory)(nil)

type Secret struct {
	f      *SecretFactory
	ID     int
	Kind   string // "new" | "random"
	Op     string
	FP     string
	mu     sync.Mutex
	cond   *sync.Cond
	bytes  []byte
	closed bool
	users  int
	closes int
}

func (f *SecretFactory) op() string {
	if f.Op != nil {
		return f.Op()
	}
	return f.Proc
}

func (f *SecretFactory) fail() bool {
	f.mu.Lock()
	defer f.mu.Unlock()
	if f.FailNext > 0 {
		f.FailNext--
		if f.FailNext == 0 {
			f.W.Emit(Event{"e": "ifault", "p": f.Proc, "what": "secret-factory"})
			return true
		}
	}
	return false
}

func (f *SecretFactory) add(kind string, b []byte) *Secret {
	if f.OnCreate != nil {
		f.OnCreate(kind, b)
	}
	s := &Secret{f: f, Kind: kind, Op: f.op(), bytes: b, FP: FP(b)}
	s.cond = sync.NewCond(&s.mu)
	f.mu.Lock()
	s.ID = len(f.secrets) + 1
	f.secrets = append(f.secrets, s)
	f.mu.Unlock()
	f.W.Emit(Event{"e": "alloc", "p": f.Proc, "sid": s.ID, "kind": kind, "kid": f.W.Kid(s.FP), "op": s.Op})
	return s
}

func (f *SecretFactory) New(b []byte) (securememory.Secret, error) {
	if f.fail() {
		// the buffer stays with the caller, as with a real factory whose allocation failed
		f.W.retain("secret-factory-new-source(failed)", f.op(), b)
		return nil, fmt.Errorf("secret factory: %w", ErrInjected)
	}
	c := append([]byte(nil), b...)
	for i := range b {
		b[i] = 0
	}
	return f.add("new", c), nil
}

func (f *SecretFactory) CreateRandom(size int) (securememory.Secret, error) {
	if f.fail() {
		return nil, fmt.Errorf("secret factory: %w", ErrInjected)
	}
	c := make([]byte, size)
	if _, err := rand.Read(c); err != nil {
		return nil, err
	}
	return f.add("random", c), nil
}

var errClosed = errors.New("secret has already been destroyed")

func (s *Secret) access() error {
	s.mu.Lock()
	defer s.mu.Unlock()
	if s.closed {
		s.f.mu.Lock()
		s.f.UseAfterClose++
		s.f.mu.Unlock()
		s.f.W.Emit(Event{"e": "use-after-close", "p": s.f.Proc, "sid": s.ID, "op": s.f.op(), "g": vrt.GID()})
		return errClosed
	}
	s.users++
	if s.f.LogUse {
		s.f.W.Emit(Event{"e": "use", "p": s.f.Proc, "sid": s.ID, "g": vrt.GID()})
	}
	return nil
}

func (s *Secret) release() {
	s.mu.Lock()
	s.users--
	s.cond.Broadcast()
	s.mu.Unlock()
}

func (s *Secret) WithBytes(action func([]byte) error) error {
	if err := s.access(); err != nil {
		return err
	}
	defer s.release()
	return action(s.bytes)
}

func (s *Secret) WithBytesFunc(action func([]byte) ([]byte, error)) ([]byte, error) {
	if err := s.access(); err != nil {
		return nil, err
	}
	defer s.release()
	return action(s.bytes)
}

func (s *Secret) IsClosed() bool { s.mu.Lock(); defer s.mu.Unlock(); return s.closed }

func (s *Secret) Close() error {
	s.mu.Lock()
	s.closes++
	if s.closed {
		s.mu.Unlock()
		s.f.mu.Lock()
		s.f.DoubleClose++
		s.f.mu.Unlock()
		s.f.W.Emit(Event{"e": "double-close", "p": s.f.Proc, "sid": s.ID, "op": s.f.op()})
		return nil
	}
	for s.users > 0 {
		s.cond.Wait()
	}
	// log first, then flip the flag: whoever observes the secret as released finds the event already in the log
	s.f.W.Emit(Event{"e": "free", "p": s.f.Proc, "sid": s.ID, "op": s.f.op()})
	s.closed = true
	for i := range s.bytes {
		s.bytes[i] = 0
	}
	s.mu.Unlock()
	return nil
}

type reader struct {
	s *Secret
	i int
}

func (r *reader) Read(p []byte) (n int, err error) {
	err = r.s.WithBytes(func(b []byte) error {
		if r.i >= len(b) {
			return io.EOF
		}
		n = copy(p, b[r.i:])
		r.i += n
		if r.i >= len(b) {
			return io.EOF
		}
		return nil
	})
	return
}

func (s *Secret) NewReader() io.Reader { return &reader{s: s} }

// Live returns the secrets not yet closed.
func (f *SecretFactory) Live() []*Secret {
	f.mu.Lock()
	defer f.mu.Unlock()
	var out []*Secret
	for _, s := range f.secrets {
		if !s.IsClosed() {
			out = append(out, s)
		}
	}
	return out
}

// ByFP returns the secrets holding bytes with the given fingerprint.
func (f *SecretFactory) ByFP(fp string) []*Secret {
	f.mu.Lock()
	defer f.mu.Unlock()
	var out []*Secret
	for _, s := range f.secrets {
		if s.FP == fp {
			out = append(out, s)
		}
	}
	return out
}

// Count returns the number of secrets ever created.
func (f *SecretFactory) Count() int { f.mu.Lock(); defer f.mu.Unlock(); return len(f.secrets) }
