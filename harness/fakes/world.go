// Package fakes holds the boundary fakes every envelope-level driver plugs into the SDK's own extension points:
// a shared authoritative metastore table with per-process handles (gate + fault plan + log), a KMS, a spying AEAD
// and a tracking SecretFactory. All of them write to one event log in execution order.
package fakes

import (
	"context"
	"crypto/sha256"
	"encoding/hex"
	"errors"
	"fmt"
	"sync"

	"github.com/godaddy/asherah/go/appencryption"
	"github.com/godaddy/asherah/go/appencryption/pkg/crypto/aead"

	"verif.local/harness/vrt"
)

// Event is one line of the recorded trace.
type Event map[string]interface{}

// World is what all processes of one run share.
type World struct {
	mu     sync.Mutex
	Events []Event
	table  map[tkey]*Row
	order  []tkey

	kids   map[string]int    // fingerprint of plaintext key bytes -> small id (first-seen order)
	ctKey  map[string]string // fingerprint of a wrapped key's ciphertext -> fingerprint of the plaintext key inside
	ctWrap map[string]string // fingerprint of a wrapped key's ciphertext -> fingerprint of the wrapping key
	master []byte

	Real   appencryption.AEAD
	Mutate int // number of in-place modifications of existing rows attempted through the Metastore API (must stay 0)

	Dirty []DirtyBuf // buffers that held key plaintext and must be zero when an operation returns
}

type DirtyBuf struct {
	What string
	Op   string
	Buf  []byte
}

type tkey struct {
	ID      string
	Created int64
}

// Row is one metastore record (authoritative copy).
type Row struct {
	ID      string
	Created int64
	Key     []byte
	Parent  *appencryption.KeyMeta
	Revoked bool
}

func NewWorld() *World {
	return &World{
		table:  map[tkey]*Row{},
		kids:   map[string]int{},
		ctKey:  map[string]string{},
		ctWrap: map[string]string{},
		master: []byte("0123456789abcdef0123456789abcdef"),
		Real:   aead.NewAES256GCM(),
	}
}

func FP(b []byte) string {
	h := sha256.Sum256(b)
	return hex.EncodeToString(h[:8])
}

// Emit appends an event (adds model time).
func (w *World) Emit(e Event) {
	w.mu.Lock()
	w.emit(e)
	w.mu.Unlock()
}

func (w *World) emit(e Event) {
	if _, ok := e["now"]; !ok {
		e["now"] = vrt.ModelTime()
	}
	w.Events = append(w.Events, e)
}

// Kid maps a key fingerprint to a small id.
func (w *World) kid(fp string) int {
	if fp == "" {
		return 0
	}
	if k, ok := w.kids[fp]; ok {
		return k
	}
	k := len(w.kids) + 1
	w.kids[fp] = k
	return k
}

func (w *World) Kid(fp string) int { w.mu.Lock(); defer w.mu.Unlock(); return w.kid(fp) }

// KidOfCiphertext returns the id of the key wrapped inside ct (0 if ct was never produced by a wrap seen here).
func (w *World) KidOfCiphertext(ct []byte) int {
	w.mu.Lock()
	defer w.mu.Unlock()
	return w.kid(w.ctKey[FP(ct)])
}

// WrapperOfCiphertext returns the id of the key that wrapped ct.
func (w *World) WrapperOfCiphertext(ct []byte) int {
	w.mu.Lock()
	defer w.mu.Unlock()
	return w.kid(w.ctWrap[FP(ct)])
}

// Rows returns a snapshot of the table.
func (w *World) Rows() []Row {
	w.mu.Lock()
	defer w.mu.Unlock()
	out := make([]Row, 0, len(w.order))
	for _, k := range w.order {
		out = append(out, *w.table[k])
	}
	return out
}

func (w *World) Get(id string, created int64) (Row, bool) {
	w.mu.Lock()
	defer w.mu.Unlock()
	r, ok := w.table[tkey{id, created}]
	if !ok {
		return Row{}, false
	}
	return *r, true
}

// Latest returns the row with the greatest created for id.
func (w *World) Latest(id string) (Row, bool) {
	w.mu.Lock()
	defer w.mu.Unlock()
	r := w.latest(id)
	if r == nil {
		return Row{}, false
	}
	return *r, true
}

func (w *World) latest(id string) *Row {
	var best *Row
	for k, r := range w.table {
		if k.ID == id && (best == nil || r.Created > best.Created) {
			best = r
		}
	}
	return best
}

// Revoke is the operator action: flag a record revoked.
func (w *World) Revoke(id string, created int64) bool {
	w.mu.Lock()
	defer w.mu.Unlock()
	r, ok := w.table[tkey{id, created}]
	if !ok {
		return false
	}
	r.Revoked = true
	return true
}

func rowToEKR(r *Row) *appencryption.EnvelopeKeyRecord {
	e := &appencryption.EnvelopeKeyRecord{
		ID:           r.ID,
		Created:      r.Created,
		EncryptedKey: append([]byte(nil), r.Key...),
		Revoked:      r.Revoked,
	}
	if r.Parent != nil {
		p := *r.Parent
		e.ParentKeyMeta = &p
	}
	return e
}

// ---------------------------------------------------------------------------------------------- gate

// Call describes one external call parked at the gate.
type Call struct {
	Proc    string
	Kind    string // Load | LoadLatest | Store | KmsEnc | KmsDec
	ID      string
	Created int64
	release chan string
	done    chan struct{}
}

// Gate lets a driver decide when (and with which fault) each external call of a process proceeds.
type Gate struct {
	Pending chan *Call
}

func NewGate() *Gate { return &Gate{Pending: make(chan *Call)} }

// Release lets the parked call proceed with the given fault ("none", "err", "notWritten", "writtenFalse") and
// returns once the call has taken effect on the shared table / been logged, so that the order of releases IS the
// order of effects.
func (c *Call) Release(fault string) {
	c.release <- fault
	<-c.done
}

func (g *Gate) park(c *Call) (string, func()) {
	if g == nil {
		vrt.Yield("ext." + c.Kind) // an external call is a scheduling point of the cooperative scheduler
		return "none", func() {}
	}
	c.release = make(chan string)
	c.done = make(chan struct{})
	g.Pending <- c
	return <-c.release, func() { close(c.done) }
}

var ErrInjected = errors.New("injected fault")

// ---------------------------------------------------------------------------------------------- metastore

// Metastore is one process's handle on the shared table.
type Metastore struct {
	W      *World
	Proc   string
	Gate   *Gate
	Suffix string // non-empty: acts as a region-suffix metastore
	Quiet  bool   // do not log (used for the fresh-process verification reads)
}

var _ appencryption.Metastore = (*Metastore)(nil)

type suffixed struct{ *Metastore }

func (s suffixed) GetRegionSuffix() string { return s.Suffix }

// AsSDK returns the handle in the form NewSessionFactory expects (exposing GetRegionSuffix only when configured).
func (m *Metastore) AsSDK() appencryption.Metastore {
	if m.Suffix != "" {
		return suffixed{m}
	}
	return m
}

func (m *Metastore) Load(_ context.Context, id string, created int64) (*appencryption.EnvelopeKeyRecord, error) {
	f, fin := m.Gate.park(&Call{Proc: m.Proc, Kind: "Load", ID: id, Created: created})
	defer fin()
	m.W.mu.Lock()
	defer m.W.mu.Unlock()
	ev := Event{"e": "ms", "p": m.Proc, "call": "Load", "id": id, "created": created, "fault": f, "found": int64(-1), "revoked": false, "kid": 0, "parent": int64(0)}
	defer func() {
		if !m.Quiet {
			m.W.emit(ev)
		}
	}()
	if f != "none" {
		return nil, fmt.Errorf("load %s: %w", id, ErrInjected)
	}
	r, ok := m.W.table[tkey{id, created}]
	if !ok {
		return nil, nil
	}
	m.fill(ev, r)
	return rowToEKR(r), nil
}

func (m *Metastore) fill(ev Event, r *Row) {
	ev["found"] = r.Created
	ev["revoked"] = r.Revoked
	ev["kid"] = m.W.kid(m.W.ctKey[FP(r.Key)])
	if r.Parent != nil {
		ev["parent"] = r.Parent.Created
	}
}

func (m *Metastore) LoadLatest(_ context.Context, id string) (*appencryption.EnvelopeKeyRecord, error) {
	f, fin := m.Gate.park(&Call{Proc: m.Proc, Kind: "LoadLatest", ID: id})
	defer fin()
	m.W.mu.Lock()
	defer m.W.mu.Unlock()
	ev := Event{"e": "ms", "p": m.Proc, "call": "LoadLatest", "id": id, "created": int64(0), "fault": f, "found": int64(-1), "revoked": false, "kid": 0, "parent": int64(0)}
	defer func() {
		if !m.Quiet {
			m.W.emit(ev)
		}
	}()
	if f != "none" {
		return nil, fmt.Errorf("loadlatest %s: %w", id, ErrInjected)
	}
	r := m.W.latest(id)
	if r == nil {
		return nil, nil
	}
	m.fill(ev, r)
	return rowToEKR(r), nil
}

func (m *Metastore) Store(_ context.Context, id string, created int64, e *appencryption.EnvelopeKeyRecord) (bool, error) {
	f, fin := m.Gate.park(&Call{Proc: m.Proc, Kind: "Store", ID: id, Created: created})
	defer fin()
	m.W.mu.Lock()
	defer m.W.mu.Unlock()
	ev := Event{"e": "ms", "p": m.Proc, "call": "Store", "id": id, "created": created, "fault": f, "found": int64(-1), "revoked": false,
		"kid": m.W.kid(m.W.ctKey[FP(e.EncryptedKey)]), "pkid": m.W.kid(m.W.ctWrap[FP(e.EncryptedKey)]), "parent": int64(0), "wrote": false, "ok": false}
	if e.ParentKeyMeta != nil {
		ev["parent"] = e.ParentKeyMeta.Created
	}
	defer func() {
		if !m.Quiet {
			m.W.emit(ev)
		}
	}()
	k := tkey{id, created}
	_, exists := m.W.table[k]
	if exists {
		ev["found"] = created
	}
	if f == "notWritten" || f == "err" {
		return false, fmt.Errorf("store %s: %w", id, ErrInjected)
	}
	if !exists {
		row := &Row{ID: id, Created: created, Key: append([]byte(nil), e.EncryptedKey...), Revoked: e.Revoked}
		if e.ParentKeyMeta != nil {
			p := *e.ParentKeyMeta
			row.Parent = &p
		}
		m.W.table[k] = row
		m.W.order = append(m.W.order, k)
		ev["wrote"] = true
	}
	if f == "writtenFalse" {
		return false, fmt.Errorf("store %s (ack lost): %w", id, ErrInjected)
	}
	ev["ok"] = !exists
	return !exists, nil
}

// ---------------------------------------------------------------------------------------------- KMS

// KMS wraps system keys under a fixed master key with the real AEAD.
type KMS struct {
	W     *World
	Proc  string
	Gate  *Gate
	Quiet bool
	Op    func() string
	// OnReturn, if set, runs when a successful call is about to return (the driver uses it to cancel the caller's context at
	// exactly that point; the fake itself, like most KMS clients once the reply is in, does not look at the context)
	OnReturn func()
}

var _ appencryption.KeyManagementService = (*KMS)(nil)

func (k *KMS) EncryptKey(_ context.Context, key []byte) ([]byte, error) {
	fp := FP(key)
	f, fin := k.Gate.park(&Call{Proc: k.Proc, Kind: "KmsEnc"})
	defer fin()
	ev := Event{"e": "kms", "p": k.Proc, "call": "Enc", "fault": f, "kid": k.W.Kid(fp)}
	defer func() {
		if !k.Quiet {
			k.W.Emit(ev)
		}
	}()
	if f != "none" {
		return nil, fmt.Errorf("kms encrypt: %w", ErrInjected)
	}
	ct, err := k.W.Real.Encrypt(key, k.W.master)
	if err != nil {
		return nil, err
	}
	k.W.mu.Lock()
	k.W.ctKey[FP(ct)] = fp
	k.W.ctWrap[FP(ct)] = "kms"
	k.W.mu.Unlock()
	if k.OnReturn != nil {
		k.OnReturn()
	}
	return ct, nil
}

func (k *KMS) DecryptKey(_ context.Context, ct []byte) ([]byte, error) {
	f, fin := k.Gate.park(&Call{Proc: k.Proc, Kind: "KmsDec"})
	defer fin()
	ev := Event{"e": "kms", "p": k.Proc, "call": "Dec", "fault": f, "kid": k.W.KidOfCiphertext(ct)}
	defer func() {
		if !k.Quiet {
			k.W.Emit(ev)
		}
	}()
	if f != "none" {
		return nil, fmt.Errorf("kms decrypt: %w", ErrInjected)
	}
	pt, err := k.W.Real.Decrypt(ct, k.W.master)
	if err == nil && !k.Quiet {
		k.W.retain("kms-decrypt-output", k.op(), pt)
	}
	if err == nil && k.OnReturn != nil {
		k.OnReturn()
	}
	return pt, err
}

func (k *KMS) op() string {
	if k.Op != nil {
		return k.Op()
	}
	return k.Proc
}

func (w *World) retain(what, op string, b []byte) {
	w.mu.Lock()
	w.Dirty = append(w.Dirty, DirtyBuf{What: what, Op: op, Buf: b})
	w.mu.Unlock()
}

// TakeDirty returns (and forgets) the retained plaintext-key buffers of op that still hold a non-zero byte.
func (w *World) TakeDirty(op string) []string {
	w.mu.Lock()
	defer w.mu.Unlock()
	var bad []string
	keep := w.Dirty[:0]
	for _, d := range w.Dirty {
		if d.Op != op {
			keep = append(keep, d)
			continue
		}
		for _, c := range d.Buf {
			if c != 0 {
				bad = append(bad, d.What)
				break
			}
		}
	}
	w.Dirty = keep
	return bad
}

// ---------------------------------------------------------------------------------------------- AEAD spy

// AEAD spies on the real AES-256-GCM implementation.
type AEAD struct {
	W     *World
	Proc  string
	Quiet bool
	Op    func() string
	// FailNext > 0: the n-th next call fails (1 = the very next)
	FailNext int
}

var _ appencryption.AEAD = (*AEAD)(nil)

func (a *AEAD) op() string {
	if a.Op != nil {
		return a.Op()
	}
	return a.Proc
}

func (a *AEAD) failNow() bool {
	if a.FailNext > 0 {
		a.FailNext--
		if a.FailNext == 0 {
			a.W.Emit(Event{"e": "ifault", "p": a.Proc, "what": "aead"})
			return true
		}
	}
	return false
}

func (a *AEAD) Encrypt(data, key []byte) ([]byte, error) {
	dfp, kfp := FP(data), FP(key)
	if a.failNow() {
		return nil, fmt.Errorf("aead encrypt: %w", ErrInjected)
	}
	ct, err := a.W.Real.Encrypt(data, key)
	if err != nil {
		return nil, err
	}
	a.W.mu.Lock()
	ev := Event{"e": "aead", "p": a.Proc, "call": "Enc", "key": a.W.kid(kfp), "len": len(data), "nonce": FP(ct[len(ct)-12:])}
	if len(data) == 32 {
		// a key being wrapped
		a.W.ctKey[FP(ct)] = dfp
		a.W.ctWrap[FP(ct)] = kfp
		ev["pt"] = a.W.kid(dfp)
	} else {
		ev["pt"] = 0
	}
	if !a.Quiet {
		a.W.emit(ev)
	}
	a.W.mu.Unlock()
	return ct, nil
}

func (a *AEAD) Decrypt(data, key []byte) ([]byte, error) {
	kfp := FP(key)
	if a.failNow() {
		return nil, fmt.Errorf("aead decrypt: %w", ErrInjected)
	}
	pt, err := a.W.Real.Decrypt(data, key)
	a.W.mu.Lock()
	ev := Event{"e": "aead", "p": a.Proc, "call": "Dec", "key": a.W.kid(kfp), "len": len(pt), "ok": err == nil, "pt": 0}
	if err == nil && len(data) == 32+16+12 {
		ev["pt"] = a.W.kid(FP(pt))
	}
	if !a.Quiet {
		a.W.emit(ev)
	}
	a.W.mu.Unlock()
	if err == nil && len(data) == 32+16+12 && !a.Quiet {
		a.W.retain("aead-decrypt-output(key)", a.op(), pt)
	}
	return pt, err
}

// Snapshot returns a deep copy of the table; Restore puts it back (drivers corrupt rows per case).
func (w *World) Snapshot() []Row {
	rows := w.Rows()
	for i := range rows {
		rows[i].Key = append([]byte(nil), rows[i].Key...)
		if rows[i].Parent != nil {
			p := *rows[i].Parent
			rows[i].Parent = &p
		}
	}
	return rows
}

func (w *World) Restore(rows []Row) {
	w.mu.Lock()
	defer w.mu.Unlock()
	w.table = map[tkey]*Row{}
	w.order = nil
	for i := range rows {
		r := rows[i]
		r.Key = append([]byte(nil), r.Key...)
		if r.Parent != nil {
			p := *r.Parent
			r.Parent = &p
		}
		k := tkey{r.ID, r.Created}
		w.table[k] = &r
		w.order = append(w.order, k)
	}
}

// Mutate applies fn to the row (id, created) if present; Delete removes it.
func (w *World) MutateRow(id string, created int64, fn func(r *Row)) bool {
	w.mu.Lock()
	defer w.mu.Unlock()
	r, ok := w.table[tkey{id, created}]
	if ok {
		fn(r)
	}
	return ok
}

// PutRow files a (copy of a) row under its (ID, Created), replacing whatever is there.
func (w *World) PutRow(r Row) {
	w.mu.Lock()
	defer w.mu.Unlock()
	r.Key = append([]byte(nil), r.Key...)
	if r.Parent != nil {
		p := *r.Parent
		r.Parent = &p
	}
	k := tkey{r.ID, r.Created}
	if _, ok := w.table[k]; !ok {
		w.order = append(w.order, k)
	}
	w.table[k] = &r
}

func (w *World) DeleteRow(id string, created int64) {
	w.mu.Lock()
	defer w.mu.Unlock()
	delete(w.table, tkey{id, created})
}
