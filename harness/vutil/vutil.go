// Package vutil holds helpers shared by all drivers: reading TLC-emitted test cases,
// writing ndjson traces and the per-run result summary consumed by /verif/check.
package vutil

import (
	"bufio"
	"encoding/json"
	"fmt"
	"io"
	"os"
	"strings"
)

// ReadCases calls fn for every JSON test case found in r. TLC prints `PrintT(ToJson(x))` as a quoted,
// escaped TLA+ string on one line ("{\"a\":1}"); plain JSON lines ({...}) are accepted as well.
// Everything else (TLC's own chatter) is skipped.
func ReadCases(r io.Reader, fn func(raw []byte) error) error {
	br := bufio.NewReaderSize(r, 1<<20)
	for {
		line, err := br.ReadString('\n')
		if len(line) > 0 {
			s := strings.TrimSpace(line)
			switch {
			case strings.HasPrefix(s, "\"{") || strings.HasPrefix(s, "\"["):
				var inner string
				if e := json.Unmarshal([]byte(s), &inner); e == nil {
					if e2 := fn([]byte(inner)); e2 != nil {
						return e2
					}
				}
			case strings.HasPrefix(s, "{"):
				if e2 := fn([]byte(s)); e2 != nil {
					return e2
				}
			}
		}
		if err == io.EOF {
			return nil
		}
		if err != nil {
			return err
		}
	}
}

// OpenIn opens path, or stdin for "-".
func OpenIn(path string) (io.ReadCloser, error) {
	if path == "-" || path == "" {
		return io.NopCloser(os.Stdin), nil
	}
	return os.Open(path)
}

// Finding is one disagreement between the real code and what the specification / property allows.
type Finding struct {
	Kind     string          `json:"kind"`               // short machine-readable class, used for known-finding signatures
	Detail   string          `json:"detail"`             // human-readable explanation
	Case     json.RawMessage `json:"case,omitempty"`     // the exact input (replayable)
	Observed interface{}     `json:"observed,omitempty"` // what the real code did
}

// Result is the summary a driver prints (as one JSON document) on stdout.
type Result struct {
	Driver      string                 `json:"driver"`
	Evaluations int                    `json:"evaluations"`
	Nontrivial  int                    `json:"distinct_nontrivial"`
	Rule        string                 `json:"rule,omitempty"`
	Traces      int                    `json:"traces,omitempty"`
	Events      int                    `json:"events,omitempty"`
	Findings    []Finding              `json:"findings"`
	Samples     []json.RawMessage      `json:"samples"`
	Extra       map[string]interface{} `json:"extra,omitempty"`
}

// AddFinding records a finding (at most 50 are kept in full).
func (r *Result) AddFinding(f Finding) {
	if len(r.Findings) < 50 {
		r.Findings = append(r.Findings, f)
	}
	if r.Extra == nil {
		r.Extra = map[string]interface{}{}
	}
	n, _ := r.Extra["findings_total"].(int)
	r.Extra["findings_total"] = n + 1
}

// Sample keeps up to n samples.
func (r *Result) Sample(raw []byte, n int) {
	if len(r.Samples) < n {
		r.Samples = append(r.Samples, append(json.RawMessage(nil), raw...))
	}
}

// Print writes the result to path ("-" = stdout).
func (r *Result) Print(path string) {
	if r.Findings == nil {
		r.Findings = []Finding{}
	}
	if r.Samples == nil {
		r.Samples = []json.RawMessage{}
	}
	b, _ := json.MarshalIndent(r, "", " ")
	if path == "-" || path == "" {
		fmt.Println(string(b))
		return
	}
	_ = os.WriteFile(path, b, 0o644)
}

// TraceWriter writes ndjson events.
type TraceWriter struct {
	f *os.File
	w *bufio.Writer
	N int
}

func NewTraceWriter(path string) (*TraceWriter, error) {
	f, err := os.Create(path)
	if err != nil {
		return nil, err
	}
	return &TraceWriter{f: f, w: bufio.NewWriterSize(f, 1<<20)}, nil
}

func (t *TraceWriter) Emit(ev interface{}) {
	b, err := json.Marshal(ev)
	if err != nil {
		panic(err)
	}
	t.w.Write(b)
	t.w.WriteByte('\n')
	t.N++
}

func (t *TraceWriter) Close() error {
	t.w.Flush()
	return t.f.Close()
}
