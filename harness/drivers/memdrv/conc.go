package memdrv

import (
	"bytes"
	"fmt"
	"os"
	"runtime"
	"runtime/debug"
	"strings"

	"verif.local/harness/vrt"
	"verif.local/harness/vutil"
)

// ConcCfg: R readers and C closers race on one real secret under the cooperative scheduler.
type ConcCfg struct {
	Impls   []string `json:"impls"`
	Readers int      `json:"readers"`
	Closers int      `json:"closers"`
	Reads   int      `json:"reads"` // reads per reader
	Random  int      `json:"random"`
	PCT     int      `json:"pct"`
	DFS     int      `json:"dfs"`
	Preempt int      `json:"preempt"`
	Sizes   []int    `json:"sizes"`
	// FaultRelease > 0: the FaultRelease-th re-protection (Protect(NoAccess), i.e. a reader's release) after creation fails
	FaultRelease int `json:"faultRelease"`
}

type cev map[string]interface{}

func concOnce(impl string, size int, cfg ConcCfg, s *vrt.Sched) (evs []cev, dead, pan string) {
	sh := &Shadow{}
	if impl == "mg" {
		sh.Tail = size
	}
	emit := func(e cev) { evs = append(evs, e) }
	done := 0
	s.Spawn("main", func() {
		defer func() {
			if x := recover(); x != nil {
				pan = fmt.Sprintf("%v\n%s", x, debug.Stack())
			}
		}()
		f := factory(impl, sh)
		orig := make([]byte, size)
		for i := range orig {
			orig[i] = byte(1 + i%250)
		}
		sh.BeginCall(nil)
		sec, err := f.New(append([]byte(nil), orig...))
		if err != nil {
			panic(err)
		}
		sh.FailNone = cfg.FaultRelease // counted from here: the creation's own Protect(NoAccess) is done
		for r := 0; r < cfg.Readers; r++ {
			vrt.Go(fmt.Sprintf("reader-%d", r), func() {
				defer func() { done++; vrt.Released("reader.done") }()
				for k := 0; k < cfg.Reads; k++ {
					saw, same, prot, prot2 := false, false, "", "RO"
					nested := k%2 == 1
					err := sec.WithBytes(func(b []byte) error {
						saw = true
						emit(cev{"e": "enter", "g": vrt.GID()})
						defer emit(cev{"e": "exit", "g": vrt.GID()})
						// look at the kernel's view first: reading pages that are not readable would kill the process
						if prot = sh.Prot(); prot == "RO" {
							same = bytes.Equal(b, orig)
						}
						if nested { // a nested reader on the same secret
							return sec.WithBytes(func(b2 []byte) error {
								if p3 := sh.Prot(); p3 == "RO" {
									same = same && bytes.Equal(b2, orig)
								} else {
									prot2 = p3
								}
								vrt.Yield("reader.in-callback")
								return nil
							})
						}
						vrt.Yield("reader.in-callback")
						// still inside the callback after others ran: the pages must still be readable (checked through the
						// kernel first, so that a violation is reported instead of faulting)
						if prot2 = sh.Prot(); prot2 == "RO" {
							same = same && bytes.Equal(b, orig)
						}
						return nil
					})
					emit(cev{"e": "read", "g": vrt.GID(), "ok": err == nil, "saw": saw, "bytes": same, "prot": prot, "prot2": prot2,
						"fault": err != nil && strings.Contains(err.Error(), errInjected.Error())})
				}
			})
		}
		for c := 0; c < cfg.Closers; c++ {
			vrt.Go(fmt.Sprintf("closer-%d", c), func() {
				defer func() { done++; vrt.Released("closer.done") }()
				vrt.Yield("closer.start")
				emit(cev{"e": "closing", "g": vrt.GID()})
				err := sec.Close()
				emit(cev{"e": "close", "g": vrt.GID(), "ok": err == nil, "closed": sec.IsClosed()})
			})
		}
		vrt.WaitUntil("main.join", func() bool { return done == cfg.Readers+cfg.Closers })
		if cfg.Closers == 0 {
			emit(cev{"e": "closing", "g": vrt.GID()})
			emit(cev{"e": "close", "g": vrt.GID(), "ok": sec.Close() == nil, "closed": sec.IsClosed()})
		}
		// (an address just unmapped can be handed out again at once - a thread stack, say: only pages that still carry the secret's
		// MADV_DONTDUMP mark are the secret's)
		emit(cev{"e": "end", "closed": sec.IsClosed(), "mapped": sh.Mapped() && sh.Kernel().DontDump, "readAfter": sec.WithBytes(func([]byte) error { return nil }) == nil})
	})
	s.Run()
	return evs, s.Dead, pan
}

// Conc explores schedules and writes the trace.
func Conc(cfg ConcCfg, seed int64, tracePath, outPath string) error {
	debug.SetGCPercent(-1)
	tw, err := vutil.NewTraceWriter(tracePath)
	if err != nil {
		return err
	}
	res := &vutil.Result{Driver: "mem-conc",
		Rule: "R readers (every second read nests a second reader) and C concurrent Close calls on one real secret under the cooperative scheduler: seeded random, PCT and systematic <= k-preemption schedules; page protection inside the callback taken from /proc/self/smaps; non-trivial = schedule with at least one preemption"}
	run := 0
	for _, impl := range cfg.Impls {
		for _, size := range cfg.Sizes {
			one := func(strat string, s *vrt.Sched) {
				evs, dead, pan := concOnce(impl, size, cfg, s)
				run++
				tw.Emit(cev{"e": "reset", "run": run, "impl": impl, "size": size, "readers": cfg.Readers, "closers": cfg.Closers, "strategy": strat, "choices": s.Choices()})
				for _, e := range evs {
					e["run"] = run
					tw.Emit(e)
				}
				tw.Emit(cev{"e": "final", "run": run, "dead": dead, "panic": pan})
				res.Evaluations++
				res.Traces++
				np := 0
				for _, d := range s.Decisions {
					if d.Last >= 0 && d.Chosen != d.Last {
						for _, o := range d.Options {
							if o == d.Last {
								np++
								break
							}
						}
					}
				}
				if np > 0 {
					res.Nontrivial++
				}
			}
			for i := 0; i < cfg.Random; i++ {
				one("random", vrt.NewSched(seed*7919+int64(i)))
			}
			for i := 0; i < cfg.PCT; i++ {
				one("pct", vrt.NewSched(seed*104729+int64(i)).WithPCT(1+i%3, 120))
			}
			if cfg.DFS > 0 {
				// depth-first over schedule prefixes with at most cfg.Preempt preemptions. The collector is off (see above), so
				// prefixes are kept as shared chains (one node per decision of the parent run) and materialised only when run, and
				// nothing is pushed once the stack already holds the rest of the budget.
				type node struct {
					parent *node
					choice int
				}
				type item struct {
					at    *node // decisions before the alternative
					alt   int
					depth int
				}
				work := []item{{nil, -1, 0}}
				n := 0
				for len(work) > 0 && n < cfg.DFS {
					it := work[len(work)-1]
					work = work[:len(work)-1]
					var prefix []int
					if it.alt >= 0 {
						prefix = make([]int, it.depth+1)
						prefix[it.depth] = it.alt
						for x, k := it.at, it.depth-1; x != nil; x, k = x.parent, k-1 {
							prefix[k] = x.choice
						}
					}
					s := vrt.NewSched(seed).WithPrefix(prefix)
					one("dfs", s)
					n++
					ds := s.Decisions
					var chain *node // decisions 0..i-1 of this run
					pre := 0
					for i := 0; i < len(ds); i++ {
						if i >= len(prefix) {
							for _, alt := range ds[i].Options {
								if alt == ds[i].Chosen {
									continue
								}
								p2 := pre
								if ds[i].Last >= 0 && alt != ds[i].Last && has(ds[i].Options, ds[i].Last) {
									p2++
								}
								if p2 > cfg.Preempt || len(work) >= cfg.DFS-n {
									continue
								}
								work = append(work, item{chain, alt, i})
							}
						}
						if ds[i].Last >= 0 && ds[i].Chosen != ds[i].Last && has(ds[i].Options, ds[i].Last) {
							pre++
						}
						chain = &node{chain, ds[i].Chosen}
					}
				}
			}
		}
	}
	if os.Getenv("VERIF_DEBUG") != "" {
		m, _ := os.ReadFile("/proc/self/maps")
		fmt.Fprintf(os.Stderr, "debug: goroutines=%d maps-lines=%d\n", runtime.NumGoroutine(), bytes.Count(m, []byte("\n")))
	}
	res.Events = tw.N
	if err := tw.Close(); err != nil {
		return err
	}
	res.Print(outPath)
	return nil
}

func has(a []int, x int) bool {
	for _, y := range a {
		if y == x {
			return true
		}
	}
	return false
}
