package memdrv

import (
	"bytes"
	"encoding/json"
	"fmt"
	"io"
	"runtime"
	"runtime/debug"
	"time"

	"github.com/godaddy/asherah/go/securememory"
	"github.com/godaddy/asherah/go/securememory/memguard"
	"github.com/godaddy/asherah/go/securememory/protectedmemory"

	"verif.local/harness/vutil"
)

type Call struct {
	Op string `json:"op"`
	F  []int  `json:"F"`
}

type Case struct {
	Impl string `json:"impl"`
	Path []Call `json:"path"`
	Step Call   `json:"step"`
}

type Event struct {
	E        string   `json:"e"`
	Impl     string   `json:"impl,omitempty"`
	Op       string   `json:"op,omitempty"`
	F        []int    `json:"F"`
	Ok       bool     `json:"ok"`
	Saw      bool     `json:"saw"`   // the callback ran
	Bytes    bool     `json:"bytes"` // ... and saw exactly the original bytes
	Mapped   bool     `json:"mapped"`
	Locked   bool     `json:"locked"`
	Prot     string   `json:"prot"`
	DontDump bool     `json:"dontdump"`
	Secret   bool     `json:"secret"` // the page still holds non-zero bytes
	Dirty    bool     `json:"dirty"`  // non-zero bytes were unlocked / released during this call
	InUse    int64    `json:"inuse"`
	Closed   bool     `json:"closed"`
	Size     int      `json:"size"`
	Prims    []string `json:"prims"`
	Panic    string   `json:"panic"`
	Late     []string `json:"late"` // primitives a finalizer invoked on the secret's pages after a FAILED creation had released them
	Run      int      `json:"run"`
}

func factory(impl string, sh *Shadow) securememory.SecretFactory {
	if impl == "mg" {
		return memguard.VerifNewSecretFactory(sh)
	}
	return protectedmemory.VerifNewSecretFactory(sh)
}

// closeWait: how long a Close may take before it counts as hung (generous until three have hung in this process: then the
// defect is established and the rest of the cases must not take minutes)
var closeTimeouts int

func closeWait() time.Duration {
	if closeTimeouts >= 3 {
		return 100 * time.Millisecond
	}
	return 5 * time.Second
}

// runCase executes path + step on a fresh secret of the given size and returns one event per API call.
func runCase(c *Case, size, run int) []Event {
	// "still holds the secret" is observed as "not all zero": a random secret must be long enough for that to be certain
	for _, call := range append(append([]Call(nil), c.Path...), c.Step) {
		if call.Op == "CreateRandom" && size < 16 {
			size = 16
		}
	}
	sh := &Shadow{}
	if c.Impl == "mg" {
		sh.Tail = size
	}
	f := factory(c.Impl, sh)
	base := securememory.InUseCounter.Count()
	orig := make([]byte, size)
	for i := range orig {
		orig[i] = byte(1 + i%250)
	}
	var sec securememory.Secret
	evs := []Event{{E: "reset", Impl: c.Impl, Size: size, Run: run, F: []int{}, Prims: []string{}, Late: []string{}}}
	calls := append(append([]Call(nil), c.Path...), c.Step)
	for _, call := range calls {
		ev := Event{E: "call", Op: call.Op, F: call.F, Run: run, Size: size}
		if ev.F == nil {
			ev.F = []int{}
		}
		sh.BeginCall(call.F)
		func() {
			defer func() {
				if x := recover(); x != nil {
					ev.Panic = fmt.Sprintf("%v\n%s", x, debug.Stack())
				}
			}()
			if call.Op == "New" || call.Op == "CreateRandom" {
				sh.Untrack() // a new secret: follow its pages, not those of an earlier failed creation
			}
			switch call.Op {
			case "New":
				src := append([]byte(nil), orig...)
				s, err := f.New(src)
				ev.Ok = err == nil
				if err == nil {
					sec = s
				}
			case "CreateRandom":
				s, err := f.CreateRandom(size)
				ev.Ok = err == nil
				if err == nil {
					sec = s
					// remember what was generated, for later reads
					sh.BeginCallKeep()
					s.WithBytes(func(b []byte) error { copy(orig, b); return nil })
				}
			case "WithBytes":
				err := sec.WithBytes(func(b []byte) error {
					ev.Saw = true
					ev.Bytes = bytes.Equal(b, orig) && sh.Kernel().Prot == "RO"
					return nil
				})
				ev.Ok = err == nil
			case "WithBytesPanic":
				// a reader callback that panics; the caller recovers. The reader is gone afterwards like any other.
				func() {
					defer func() { recover() }()
					sec.WithBytes(func(b []byte) error {
						ev.Saw = true
						ev.Bytes = bytes.Equal(b, orig) && sh.Kernel().Prot == "RO"
						panic("reader callback panics")
					})
				}()
				ev.Ok = false
			case "WithBytesFunc":
				out, err := sec.WithBytesFunc(func(b []byte) ([]byte, error) {
					ev.Saw = true
					ev.Bytes = bytes.Equal(b, orig) && sh.Kernel().Prot == "RO"
					return append([]byte(nil), b...), nil
				})
				ev.Ok = err == nil && bytes.Equal(out, orig)
			case "Reader":
				buf := make([]byte, size)
				n, err := sec.NewReader().Read(buf) // one Read: the whole secret fits
				ev.Saw = n > 0
				ev.Bytes = n == size && bytes.Equal(buf, orig)
				ev.Ok = (err == nil || err == io.EOF) && n == size
			case "Close":
				// a Close that waits for a reader which is not there any more would block this driver for good
				done := make(chan error, 1)
				s := sec
				go func() { done <- s.Close() }()
				select {
				case err := <-done:
					ev.Ok = err == nil
				case <-time.After(closeWait()):
					closeTimeouts++
					ev.Panic = "Close did not return although no reader is running"
					sec = nil // abandoned
				}
			}
		}()
		sh.EndCall()
		ev.Late = append([]string{}, sh.Late...)
		k := sh.Kernel()
		ev.Mapped, ev.Locked, ev.Prot, ev.DontDump = k.Mapped, k.Locked, k.Prot, k.DontDump
		ev.Dirty = sh.Dirty
		ev.Prims = sh.Prims
		if ev.Prims == nil {
			ev.Prims = []string{}
		}
		if k.Mapped && sh.tracked {
			ev.Secret = sh.nonZero(unsafeSlice(sh.Addr, sh.Len))
		}
		ev.InUse = securememory.InUseCounter.Count() - base
		if sec != nil {
			ev.Closed = sec.IsClosed()
		}
		evs = append(evs, ev)
	}
	// leave nothing behind
	if sec != nil && !sec.IsClosed() {
		sh.BeginCall(nil)
		done := make(chan struct{})
		s := sec
		go func() { s.Close(); close(done) }()
		select {
		case <-done:
		case <-time.After(closeWait()):
			closeTimeouts++ // (reported by the trace: the page state of the last event is not that of an idle secret)
		}
	}
	runtime.KeepAlive(sec) // no finalizer may close the secret behind our back while the case runs
	if d := securememory.InUseCounter.Count() - base; d != 0 {
		securememory.InUseCounter.Dec(d)
	}
	return evs
}

// Replay runs every TLC-generated case for the secret sizes given.
func Replay(inPath, tracePath, outPath string, sizes []int) error {
	in, err := vutil.OpenIn(inPath)
	if err != nil {
		return err
	}
	defer in.Close()
	debug.SetGCPercent(-1) // collections (and with them finalizers) happen only where the driver asks for them
	tw, err := vutil.NewTraceWriter(tracePath)
	if err != nil {
		return err
	}
	res := &vutil.Result{Driver: "mem-replay",
		Rule: "one case per transition of the reachable state graph of SecMem.tla (API-call sequence with, per call, the set of primitive-call indices that fail), executed on a fresh real secret of each size through a shadow of internal/memcall that fails exactly those calls; page state = the kernel's view (/proc/self/smaps); non-trivial = at least one injected primitive failure"}
	run := 0
	err = vutil.ReadCases(in, func(raw []byte) error {
		var c Case
		if e := json.Unmarshal(raw, &c); e != nil || c.Impl == "" {
			return nil
		}
		res.Evaluations++
		nt := len(c.Step.F) > 0
		for _, p := range c.Path {
			nt = nt || len(p.F) > 0
		}
		if nt {
			res.Nontrivial++
			res.Sample(raw, 3)
		}
		size := sizes[res.Evaluations%len(sizes)]
		run++
		for _, e := range runCase(&c, size, run) {
			tw.Emit(e)
		}
		res.Traces++
		return nil
	})
	res.Events = tw.N
	if e := tw.Close(); e != nil {
		return e
	}
	res.Print(outPath)
	return err
}
