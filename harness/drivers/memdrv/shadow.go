// Package memdrv binds spec/SecMem.tla to the two secure-memory implementations: a shadow of internal/memcall injects
// primitive failures at exactly the call index the specification chose, and the kernel's view of the secret's pages
// (/proc/self/smaps) is the observed page state.
package memdrv

import (
	"bufio"
	"errors"
	"fmt"
	"os"
	"strconv"
	"strings"
	"unsafe"

	"github.com/awnumar/memcall"
)

// Shadow implements securememory/internal/memcall.Interface (structurally) on top of the real primitives.
type Shadow struct {
	call    int          // primitive calls made since BeginCall
	fail    map[int]bool // indices (1-based) that fail in the current API call
	Prims   []string     // log of the current API call
	Addr    uintptr      // start address of the secret's data region (first slice seen)
	Len     int
	Dirty   bool // a page still holding non-zero bytes was unlocked or freed in the current API call
	prot    string
	tracked bool
	inCall  bool
	Late    []string // primitives invoked while no API call was running (a finalizer acting on the secret's pages)
	// FailNone > 0: the FailNone-th Protect(NoAccess) from now on fails (schedules of readers and closers: the release of a reader)
	FailNone int
	nNone    int
	freed    bool // the pages went back to the kernel through Free
	Tail     int  // > 0: only the last Tail bytes of a region are secret data (memguard pads the inner region with a random canary)
}

var errInjected = errors.New("injected primitive failure")

var scanBuf = make([]byte, 1<<16)

// EndCall marks the end of the API call: from now on nobody has any business touching the secret's pages.
func (s *Shadow) EndCall() { s.inCall = false }

// late records (and swallows) a primitive invoked outside any API call.
func (s *Shadow) late(name string) bool {
	if s.inCall {
		return false
	}
	s.Late = append(s.Late, name)
	return true
}

func (s *Shadow) BeginCall(fail []int) {
	s.inCall = true
	s.call = 0
	s.fail = map[int]bool{}
	for _, i := range fail {
		s.fail[i] = true
	}
	s.Prims = nil
	s.Dirty = false
}

func (s *Shadow) step(name string) bool {
	s.call++
	f := s.fail[s.call]
	if f {
		name += "!"
	}
	s.Prims = append(s.Prims, name)
	return f
}

func (s *Shadow) track(b []byte) {
	if !s.tracked && len(b) > 0 {
		s.Addr = uintptr(unsafe.Pointer(&b[0]))
		s.Len = len(b)
		s.tracked = true
	}
}

func (s *Shadow) Alloc(size int) ([]byte, error) {
	if s.step("Alloc") {
		return nil, errInjected
	}
	b, err := memcall.Alloc(size)
	if err == nil {
		s.track(b)
		s.prot = "RW"
	}
	return b, err
}

func (s *Shadow) Lock(b []byte) error {
	if s.late("Lock") {
		return nil
	}
	if s.step("Lock") {
		return errInjected
	}
	return memcall.Lock(b)
}

func (s *Shadow) Protect(b []byte, f memcall.MemoryProtectionFlag) error {
	if s.late("Protect") {
		return errInjected
	}
	s.track(b)
	name := "Protect(NONE)"
	p := "NONE"
	switch f {
	case memcall.ReadOnly():
		name, p = "Protect(RO)", "RO"
	case memcall.ReadWrite():
		name, p = "Protect(RW)", "RW"
	}
	if p == "NONE" && s.FailNone > 0 {
		if s.nNone++; s.nNone == s.FailNone {
			return errInjected
		}
	}
	if s.step(name) {
		return errInjected
	}
	err := memcall.Protect(b, f)
	if err == nil {
		s.prot = p
	}
	return err
}

// nonZero peeks at the page content (making it readable for a moment if necessary).
func (s *Shadow) nonZero(b []byte) bool {
	restore := false
	if s.prot == "NONE" {
		if memcall.Protect(b, memcall.ReadOnly()) != nil {
			return false
		}
		restore = true
	}
	nz := false
	data := b
	if s.Tail > 0 && s.Tail <= len(b) {
		data = b[len(b)-s.Tail:]
	}
	for _, c := range data {
		if c != 0 {
			nz = true
			break
		}
	}
	if restore {
		memcall.Protect(b, memcall.NoAccess())
	}
	return nz
}

func (s *Shadow) Unlock(b []byte) error {
	if s.late("Unlock") {
		return nil
	}
	if s.nonZero(b) {
		s.Dirty = true
	}
	if s.step("Unlock") {
		return errInjected
	}
	return memcall.Unlock(b)
}

func (s *Shadow) Free(b []byte) error {
	if s.late("Free") {
		return nil
	}
	// memcall.Free itself wipes the region before unmapping it, so releasing is never "dirty"; unlocking is
	if s.step("Free") {
		return errInjected
	}
	if s.Tail > 0 {
		// memguard: the SDK's failure clean-up releases the library's inner pages behind its back while the buffer stays
		// in memguard's registry; really unmapping them would poison later cases in this process (address reuse, canary
		// checks). The call is recorded; the pages are leaked instead.
		s.prot = ""
		return nil
	}
	err := memcall.Free(b)
	if err == nil {
		s.prot = ""
		s.freed = true
	}
	return err
}

// PageView is the kernel's view of the secret's data pages.
type PageView struct {
	Mapped   bool   `json:"mapped"`
	Prot     string `json:"prot"`
	Locked   bool   `json:"locked"`
	DontDump bool   `json:"dontdump"`
}

// Kernel looks the secret's address up in /proc/self/smaps.
func (s *Shadow) Kernel() PageView {
	if !s.tracked {
		return PageView{Prot: "NONE"}
	}
	f, err := os.Open("/proc/self/smaps")
	if err != nil {
		return PageView{}
	}
	defer f.Close()
	page := uintptr(os.Getpagesize())
	start := s.Addr &^ (page - 1)
	sc := bufio.NewScanner(f)
	sc.Buffer(scanBuf, len(scanBuf))
	var v PageView
	in := false
	for sc.Scan() {
		line := sc.Text()
		if len(line) > 0 && (line[0] >= '0' && line[0] <= '9' || line[0] >= 'a' && line[0] <= 'f') && strings.Contains(line, "-") && !strings.Contains(line[:strings.Index(line, "-")], ":") {
			fields := strings.Fields(line)
			r := strings.SplitN(fields[0], "-", 2)
			lo, e1 := strconv.ParseUint(r[0], 16, 64)
			hi, e2 := strconv.ParseUint(r[1], 16, 64)
			if e1 != nil || e2 != nil {
				in = false
				continue
			}
			in = uintptr(lo) <= start && start < uintptr(hi)
			if in {
				v.Mapped = true
				perms := fields[1]
				switch {
				case strings.HasPrefix(perms, "rw"):
					v.Prot = "RW"
				case strings.HasPrefix(perms, "r-"):
					v.Prot = "RO"
				default:
					v.Prot = "NONE"
				}
			}
			continue
		}
		if in && strings.HasPrefix(line, "VmFlags:") {
			fl := " " + strings.TrimPrefix(line, "VmFlags:") + " "
			v.Locked = strings.Contains(fl, " lo ")
			v.DontDump = strings.Contains(fl, " dd ")
			break
		}
	}
	if v.Mapped && !v.DontDump && (s.freed || s.Tail > 0) {
		// an address handed back to the kernel is given out again at once - the runtime puts thread stacks and heap where it finds
		// room. Once the pages went back through Free (protectedmemory) or belong to memguard (which marks them at allocation and
		// releases them inside the library), a mapping without the MADV_DONTDUMP mark is not the secret's.
		v = PageView{}
	}
	if !v.Mapped {
		v.Prot = "NONE"
	}
	return v
}

func (v PageView) String() string {
	return fmt.Sprintf("mapped=%v prot=%s locked=%v dd=%v", v.Mapped, v.Prot, v.Locked, v.DontDump)
}

// BeginCallKeep starts a fault-free primitive window without clearing the dirty flag / log of the API call.
func (s *Shadow) BeginCallKeep() {
	s.inCall = true
	s.fail = map[int]bool{}
	s.call = 1000
}

// Untrack forgets the address followed so far.
func (s *Shadow) Untrack() { s.tracked = false; s.prot = ""; s.freed = false }

func unsafeSlice(addr uintptr, n int) []byte {
	return unsafe.Slice((*byte)(unsafe.Pointer(addr)), n)
}

// Prot returns only the protection of the secret's first page, from /proc/self/maps (much cheaper than smaps, whose cost grows
// with the resident set of the process).
func (s *Shadow) Prot() string {
	_, p := s.mapsLookup()
	return p
}

// Mapped reports whether the secret's first page is mapped at all (from /proc/self/maps).
func (s *Shadow) Mapped() bool {
	m, _ := s.mapsLookup()
	return m
}

func hexval(b []byte) (uint64, bool) {
	var v uint64
	if len(b) == 0 {
		return 0, false
	}
	for _, c := range b {
		switch {
		case c >= '0' && c <= '9':
			v = v<<4 | uint64(c-'0')
		case c >= 'a' && c <= 'f':
			v = v<<4 | uint64(c-'a'+10)
		default:
			return 0, false
		}
	}
	return v, true
}

func (s *Shadow) mapsLookup() (bool, string) {
	if !s.tracked {
		return false, "NONE"
	}
	f, err := os.Open("/proc/self/maps")
	if err != nil {
		return false, ""
	}
	defer f.Close()
	page := uintptr(os.Getpagesize())
	start := s.Addr &^ (page - 1)
	sc := bufio.NewScanner(f)
	sc.Buffer(scanBuf, len(scanBuf))
	for sc.Scan() {
		line := sc.Bytes()
		i := 0
		for i < len(line) && line[i] != '-' {
			i++
		}
		j := i + 1
		for j < len(line) && line[j] != ' ' {
			j++
		}
		if j+3 >= len(line) {
			continue
		}
		lo, ok1 := hexval(line[:i])
		hi, ok2 := hexval(line[i+1 : j])
		if !ok1 || !ok2 || !(uintptr(lo) <= start && start < uintptr(hi)) {
			continue
		}
		switch {
		case line[j+1] == 'r' && line[j+2] == 'w':
			return true, "RW"
		case line[j+1] == 'r':
			return true, "RO"
		}
		return true, "NONE"
	}
	return false, "NONE"
}
