package memdrv

import (
	"bytes"
	"crypto/rand"
	"fmt"
	"io"

	"github.com/godaddy/asherah/go/appencryption/pkg/crypto/aead"
	"github.com/godaddy/asherah/go/securememory/memguard"
	"github.com/godaddy/asherah/go/securememory/protectedmemory"

	"verif.local/harness/vutil"
)

// shortReader hands out at most n bytes per Read, which io.Reader allows (crypto/rand.Reader is an io.Reader like any other:
// whoever needs k random bytes has to read until it has k).
type shortReader struct {
	r io.Reader
	n int
}

func (s shortReader) Read(p []byte) (int, error) {
	if len(p) > s.n {
		p = p[:s.n]
	}
	return s.r.Read(p)
}

// Rng generates keys with both real secret factories (CreateRandom is where every data row key, intermediate key and system key
// comes from) and nonces with the real AEAD while crypto/rand.Reader delivers `chunk` bytes per Read, and records for each whether
// all of it is random (C03: a newly generated random 256-bit key, a fresh random nonce).
func Rng(chunk, count int, tracePath, outPath string) error {
	tw, err := vutil.NewTraceWriter(tracePath)
	if err != nil {
		return err
	}
	res := &vutil.Result{Driver: "rng",
		Rule: "32-byte keys from SecretFactory.CreateRandom of memguard and protectedmemory and AES-256-GCM nonces generated while crypto/rand.Reader returns short reads; non-trivial = every case"}
	real := rand.Reader
	defer func() { rand.Reader = real }()
	type ev = map[string]interface{}
	run := 0
	for _, c := range []int{0, chunk} { // 0 = the reader as it is
		if c > 0 {
			rand.Reader = shortReader{real, c}
		} else {
			rand.Reader = real
		}
		for _, impl := range []string{"mg", "pm"} {
			run++
			tw.Emit(ev{"e": "reset", "run": run, "what": "key", "impl": impl, "chunk": c, "size": 32})
			keys := make([][]byte, 0, count)
			for i := 0; i < count; i++ {
				var key []byte
				grab := func(b []byte) error { key = append([]byte(nil), b...); return nil }
				var cerr error
				if impl == "mg" {
					s, err := new(memguard.SecretFactory).CreateRandom(32)
					if err == nil {
						cerr = s.WithBytes(grab)
						s.Close()
					} else {
						cerr = err
					}
				} else {
					s, err := new(protectedmemory.SecretFactory).CreateRandom(32)
					if err == nil {
						cerr = s.WithBytes(grab)
						s.Close()
					} else {
						cerr = err
					}
				}
				if cerr != nil {
					tw.Emit(ev{"e": "key", "run": run, "ok": false, "err": cerr.Error(), "len": 0, "zeroBlocks": 0, "seenBefore": false})
					continue
				}
				zero := 0
				for b := 0; b+8 <= len(key); b += 8 {
					if bytes.Equal(key[b:b+8], make([]byte, 8)) {
						zero++
					}
				}
				dup := false
				for _, k := range keys {
					// two keys sharing any aligned 8-byte block are not independent 256-bit keys (chance 2^-64 per pair and block)
					for b := 0; b+8 <= len(key) && b+8 <= len(k); b += 8 {
						if bytes.Equal(k[b:b+8], key[b:b+8]) {
							dup = true
						}
					}
				}
				keys = append(keys, key)
				tw.Emit(ev{"e": "key", "run": run, "ok": true, "err": "", "len": len(key), "zeroBlocks": zero, "seenBefore": dup})
				res.Evaluations++
				res.Nontrivial++
			}
			res.Traces++
		}
		// nonces: ciphertext | tag | nonce(12)
		run++
		tw.Emit(ev{"e": "reset", "run": run, "what": "nonce", "impl": "aes256gcm", "chunk": c, "size": 12})
		a := aead.NewAES256GCM()
		k := make([]byte, 32)
		var seen [][]byte
		for i := 0; i < count; i++ {
			ct, err := a.Encrypt([]byte("payload"), k)
			if err != nil || len(ct) < 12 {
				tw.Emit(ev{"e": "nonce", "run": run, "ok": false, "err": fmt.Sprint(err), "zeroTail": false, "seenBefore": false})
				continue
			}
			n := ct[len(ct)-12:]
			dup := false
			for _, s := range seen {
				if bytes.Equal(s[8:], n[8:]) || bytes.Equal(s[:8], n[:8]) {
					dup = true // a repeated 4-byte tail has chance 2^-32 per pair; counted, judged over the run
				}
			}
			seen = append(seen, append([]byte(nil), n...))
			tw.Emit(ev{"e": "nonce", "run": run, "ok": true, "err": "", "zeroTail": bytes.Equal(n[8:], make([]byte, 4)), "seenBefore": dup})
			res.Evaluations++
		}
		res.Traces++
	}
	res.Events = tw.N
	if err := tw.Close(); err != nil {
		return err
	}
	res.Print(outPath)
	return nil
}
