// Package concdrv explores schedules of the SDK's in-process concurrency (key caches, reference counting, session
// cache) with the cooperative scheduler of package vrt: the real code, instrumented by the build overlay, runs one
// goroutine at a time and every synchronisation operation is a scheduling choice. Each explored run is recorded as an
// ndjson trace for TLC (RefMonitor.tla); the schedule (list of choices) is the replay handle.
package concdrv

import (
	"bytes"
	"context"
	"encoding/json"
	"fmt"
	"math/rand"
	"runtime/debug"
	"sort"
	"time"

	"github.com/godaddy/asherah/go/appencryption"

	"verif.local/harness/fakes"
	"verif.local/harness/vrt"
	"verif.local/harness/vutil"
)

// Scenario is one concurrent workload.
type Scenario struct {
	Name       string `json:"name"`
	Policy     string `json:"policy"`     // key cache eviction policy
	Capacity   int    `json:"capacity"`   // key cache capacity
	Shared     bool   `json:"shared"`     // shared IK cache
	NoIKCache  bool   `json:"noIKCache"`  // Policy.CacheIntermediateKeys = false (with Shared the factory's shared cache is still what sessions get)
	SessCache  bool   `json:"sessCache"`  // session cache on
	SessPolicy string `json:"sessPolicy"` // session cache policy
	SessCap    int    `json:"sessCap"`
	SessExpiry int64  `json:"sessExpiry"` // seconds; 0 = long
	R          int64  `json:"R"`          // revoke-check interval (0: every hit is stale)
	Workers    int    `json:"workers"`
	Parts      int    `json:"parts"`
	Ops        int    `json:"ops"` // get-session/encrypt/decrypt/close rounds per worker
	Ticks      int    `json:"ticks"`
	Revoke     bool   `json:"revoke"`
	SamePart   bool   `json:"samePart"` // workers share partitions (else worker i starts at partition i)
	StaleSK    bool   `json:"staleSK"`  // after the warm-up the clock jumps past the revoke-check interval: every cached key is stale when the workers start
	Churn      bool   `json:"churn"`    // all workers but the last hold partition 0; the last one cycles through the others (evicting it)
}

type outcome struct {
	Events  []fakes.Event
	Choices []int
	Steps   int
	Dead    string
	Panic   string
}

// runOnce executes the scenario under the given scheduler.
func runOnce(sc Scenario, s *vrt.Sched, seed int64) (out outcome) {
	w := fakes.NewWorld()
	vrt.SetModelTime(100)
	defer vrt.RealTime()
	finished := 0
	var sf *fakes.SecretFactory
	s.Spawn("main", func() {
		defer func() {
			if x := recover(); x != nil {
				out.Panic = fmt.Sprintf("%v\n%s", x, debug.Stack())
			}
		}()
		ms := &fakes.Metastore{W: w, Proc: "p1"}
		kms := &fakes.KMS{W: w, Proc: "p1"}
		crypto := &fakes.AEAD{W: w, Proc: "p1", Quiet: true}
		sf = &fakes.SecretFactory{W: w, Proc: "p1", LogUse: true}
		pol := appencryption.NewCryptoPolicy(
			appencryption.WithExpireAfterDuration(1000*time.Second),
			appencryption.WithRevokeCheckInterval(time.Duration(sc.R)*time.Second))
		pol.CreateDatePrecision = time.Second
		pol.IntermediateKeyCacheEvictionPolicy = sc.Policy
		pol.SystemKeyCacheEvictionPolicy = "simple"
		pol.IntermediateKeyCacheMaxSize = sc.Capacity
		pol.SharedIntermediateKeyCache = sc.Shared
		pol.CacheIntermediateKeys = !sc.NoIKCache
		pol.CacheSessions = sc.SessCache
		if sc.SessCache {
			pol.SessionCacheMaxSize = sc.SessCap
			pol.SessionCacheEvictionPolicy = sc.SessPolicy
			pol.SessionCacheDuration = 1000 * time.Hour
			if sc.SessExpiry > 0 {
				pol.SessionCacheDuration = time.Duration(sc.SessExpiry) * time.Second
			}
		}
		f := appencryption.NewSessionFactory(&appencryption.Config{Service: "svc", Product: "prod", Policy: pol}, ms, kms, crypto,
			appencryption.WithSecretFactory(sf))
		// warm-up: every partition gets its keys and one genuine record, sequentially
		ctx := context.Background()
		recs := make([]*appencryption.DataRowRecord, sc.Parts)
		payloads := make([][]byte, sc.Parts)
		for i := 0; i < sc.Parts; i++ {
			sess, err := f.GetSession(fmt.Sprintf("part-%d", i))
			if err != nil {
				panic(err)
			}
			payloads[i] = []byte(fmt.Sprintf("payload of partition %d", i))
			recs[i], err = sess.Encrypt(ctx, payloads[i])
			if err != nil {
				panic(err)
			}
			sess.Close()
		}
		if sc.StaleSK {
			vrt.SetModelTime(vrt.ModelTime() + sc.R + 1)
		}
		w.Emit(fakes.Event{"e": "warm"})
		for g := 0; g < sc.Workers; g++ {
			g := g
			vrt.Go(fmt.Sprintf("worker-%d", g), func() {
				defer func() { finished++; vrt.Released("worker.done") }()
				rng := rand.New(rand.NewSource(seed*131 + int64(g)))
				for k := 0; k < sc.Ops; k++ {
					pi := (g + k) % sc.Parts
					if sc.SamePart {
						pi = rng.Intn(sc.Parts)
					}
					if sc.Churn {
						pi = 0
						if g == sc.Workers-1 {
							pi = 1 + k%(sc.Parts-1)
						}
					}
					opName := fmt.Sprintf("w%d#%d", g, k)
					w.Emit(fakes.Event{"e": "opstart", "g": vrt.GID(), "op": opName, "part": pi})
					ok, match, errs := true, true, ""
					func() {
						defer func() {
							if x := recover(); x != nil {
								ok, errs = false, fmt.Sprintf("panic: %v", x)
							}
						}()
						sess, err := f.GetSession(fmt.Sprintf("part-%d", pi))
						if err != nil {
							ok, errs = false, "get-session: "+err.Error()
							return
						}
						sptr := fmt.Sprintf("%p", sess)
						w.Emit(fakes.Event{"e": "session", "g": vrt.GID(), "part": pi, "sptr": sptr})
						defer func() {
							w.Emit(fakes.Event{"e": "release", "g": vrt.GID(), "part": pi, "sptr": sptr})
							sess.Close()
						}()
						out, err := sess.Decrypt(ctx, *recs[pi])
						if err != nil {
							ok, errs = false, "decrypt: "+err.Error()
							return
						}
						if !bytes.Equal(out, payloads[pi]) {
							match = false
						}
						d, err := sess.Encrypt(ctx, payloads[pi])
						if err != nil {
							ok, errs = false, "encrypt: "+err.Error()
							return
						}
						out2, err := sess.Decrypt(ctx, *d)
						if err != nil {
							ok, errs = false, "decrypt-own: "+err.Error()
							return
						}
						if !bytes.Equal(out2, payloads[pi]) {
							match = false
						}
					}()
					w.Emit(fakes.Event{"e": "opret", "g": vrt.GID(), "op": opName, "ok": ok, "match": match, "err": errs})
				}
			})
		}
		if sc.Ticks > 0 || sc.Revoke {
			vrt.Go("environment", func() {
				for t := 0; t < sc.Ticks; t++ {
					vrt.Yield("env.tick")
					vrt.SetModelTime(vrt.ModelTime() + 1)
					w.Emit(fakes.Event{"e": "tick"})
				}
				if sc.Revoke {
					vrt.Yield("env.revoke")
					if row, ok := w.Latest("_IK_part-0_svc_prod"); ok {
						w.Revoke(row.ID, row.Created)
						w.Emit(fakes.Event{"e": "revoke"})
					}
				}
			})
		}
		vrt.WaitUntil("main.join", func() bool { return finished == sc.Workers })
		f.Close()
		// cached sessions are torn down by goroutines of their own: wait for them
		vrt.WaitUntil("main.quiesce", func() bool { return len(sf.Live()) == 0 || !sc.SessCache })
		w.Emit(fakes.Event{"e": "closed", "live": len(sf.Live()), "doubleClose": sf.DoubleClose})
	})
	s.Run()
	out.Events = w.Events
	out.Choices = s.Choices()
	out.Steps = s.Steps()
	out.Dead = s.Dead
	return out
}

// Explore runs scenarios under random, PCT and bounded-preemption schedules.
type ExploreCfg struct {
	Scenarios []Scenario `json:"scenarios"`
	Random    int        `json:"random"`  // random schedules per scenario
	PCT       int        `json:"pct"`     // PCT schedules per scenario
	DFS       int        `json:"dfs"`     // maximum systematic schedules per scenario
	Preempt   int        `json:"preempt"` // preemption bound for the systematic search
}

func emitRun(tw *vutil.TraceWriter, run int, sc Scenario, strat string, o outcome) {
	b, _ := json.Marshal(sc)
	var scm map[string]interface{}
	json.Unmarshal(b, &scm)
	tw.Emit(map[string]interface{}{"e": "reset", "run": run, "scenario": scm, "strategy": strat, "choices": o.Choices})
	for _, e := range o.Events {
		switch e["e"] {
		case "ms", "aead", "tick", "revoke":
			continue
		case "kms":
			if !sc.StaleSK {
				continue
			}
		}
		e["run"] = run
		delete(e, "now")
		tw.Emit(e)
	}
	tw.Emit(map[string]interface{}{"e": "final", "run": run, "dead": o.Dead, "panic": o.Panic, "steps": o.Steps})
}

func Explore(cfg ExploreCfg, seed int64, tracePath, outPath string) error {
	tw, err := vutil.NewTraceWriter(tracePath)
	if err != nil {
		return err
	}
	res := &vutil.Result{Driver: "conc-explore",
		Rule: "schedules of the instrumented real code under the cooperative scheduler: seeded random, PCT (priority change points) and systematic bounded-preemption search; one trace per schedule; non-trivial = schedule with at least one preemption (a runnable goroutine was switched out)"}
	run := 0
	distinct := map[string]bool{}
	for _, sc := range cfg.Scenarios {
		one := func(strat string, s *vrt.Sched, sd int64) outcome {
			o := runOnce(sc, s, sd)
			run++
			emitRun(tw, run, sc, strat, o)
			res.Evaluations++
			res.Traces++
			key := fmt.Sprint(sc.Name, o.Choices)
			if !distinct[key] {
				distinct[key] = true
				if preemptions(s.Decisions) > 0 {
					res.Nontrivial++
				}
			}
			if len(res.Samples) < 2 {
				b, _ := json.Marshal(map[string]interface{}{"scenario": sc, "strategy": strat, "choices": o.Choices})
				res.Sample(b, 2)
			}
			return o
		}
		for i := 0; i < cfg.Random; i++ {
			sd := seed*7919 + int64(i)
			one("random", vrt.NewSched(sd), sd)
		}
		for i := 0; i < cfg.PCT; i++ {
			sd := seed*104729 + int64(i)
			one("pct", vrt.NewSched(sd).WithPCT(1+i%3, 300), sd)
		}
		// systematic: iterative context bounding
		if cfg.DFS > 0 {
			type item struct{ prefix []int }
			work := []item{{nil}}
			seen := map[string]bool{}
			n := 0
			for len(work) > 0 && n < cfg.DFS {
				it := work[len(work)-1]
				work = work[:len(work)-1]
				s := vrt.NewSched(seed).WithPrefix(it.prefix)
				one("dfs", s, seed)
				n++
				ds := s.Decisions
				for i := len(it.prefix); i < len(ds); i++ {
					for _, alt := range ds[i].Options {
						if alt == ds[i].Chosen {
							continue
						}
						np := make([]int, 0, i+1)
						for j := 0; j < i; j++ {
							np = append(np, ds[j].Chosen)
						}
						np = append(np, alt)
						if countPreempt(ds[:i], alt, ds[i]) > cfg.Preempt {
							continue
						}
						k := fmt.Sprint(np)
						if !seen[k] {
							seen[k] = true
							work = append(work, item{np})
						}
					}
				}
			}
		}
	}
	res.Events = tw.N
	if err := tw.Close(); err != nil {
		return err
	}
	res.Print(outPath)
	return nil
}

func preemptions(ds []vrt.Decision) int {
	n := 0
	for _, d := range ds {
		if d.Last >= 0 && d.Chosen != d.Last && contains(d.Options, d.Last) {
			n++
		}
	}
	return n
}

func countPreempt(prev []vrt.Decision, alt int, at vrt.Decision) int {
	n := preemptions(prev)
	if at.Last >= 0 && alt != at.Last && contains(at.Options, at.Last) {
		n++
	}
	return n
}

func contains(a []int, x int) bool {
	i := sort.SearchInts(a, x)
	return i < len(a) && a[i] == x
}

// Replay re-executes one recorded schedule.
func Replay(sc Scenario, choices []int, seed int64, tracePath, outPath string) error {
	tw, err := vutil.NewTraceWriter(tracePath)
	if err != nil {
		return err
	}
	s := vrt.NewSched(seed).WithReplay(choices)
	o := runOnce(sc, s, seed)
	emitRun(tw, 1, sc, "replay", o)
	res := &vutil.Result{Driver: "conc-replay", Evaluations: 1, Traces: 1, Events: tw.N}
	if err := tw.Close(); err != nil {
		return err
	}
	res.Print(outPath)
	return nil
}
