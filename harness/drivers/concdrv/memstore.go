package concdrv

import (
	"context"
	"fmt"

	"github.com/godaddy/asherah/go/appencryption"
	"github.com/godaddy/asherah/go/appencryption/pkg/persistence"

	"verif.local/harness/vrt"
	"verif.local/harness/vutil"
)

// MemStoreRace: G goroutines store different records under the same (id, created) in one MemoryMetastore under the
// cooperative scheduler; exactly one must be told true and every later Load must return that one's record (C13).
func MemStoreRace(goroutines, schedules, preempt int, seed int64, tracePath, outPath string) error {
	tw, err := vutil.NewTraceWriter(tracePath)
	if err != nil {
		return err
	}
	res := &vutil.Result{Driver: "memstore-race",
		Rule: "goroutines storing different records under one (id, created) in the in-memory metastore, schedules explored by bounded-preemption search + random; non-trivial = schedule with a preemption"}
	run := 0
	one := func(strat string, s *vrt.Sched) {
		type ev = map[string]interface{}
		var evs []ev
		done := 0
		s.Spawn("main", func() {
			ms := persistence.NewMemoryMetastore()
			for g := 0; g < goroutines; g++ {
				g := g
				vrt.Go(fmt.Sprintf("storer-%d", g), func() {
					defer func() { done++; vrt.Released("storer.done") }()
					ok, err := ms.Store(context.Background(), "id", 7, &appencryption.EnvelopeKeyRecord{ID: "id", Created: 7, EncryptedKey: []byte{byte(g + 1)}})
					evs = append(evs, ev{"e": "store", "g": g + 1, "ok": ok, "err": err != nil})
				})
			}
			vrt.WaitUntil("main.join", func() bool { return done == goroutines })
			r, _ := ms.Load(context.Background(), "id", 7)
			who := 0
			if r != nil && len(r.EncryptedKey) == 1 {
				who = int(r.EncryptedKey[0])
			}
			evs = append(evs, ev{"e": "loaded", "who": who})
		})
		s.Run()
		run++
		tw.Emit(ev{"e": "reset", "run": run, "strategy": strat, "choices": s.Choices()})
		for _, e := range evs {
			e["run"] = run
			tw.Emit(e)
		}
		tw.Emit(ev{"e": "final", "run": run, "dead": s.Dead})
		res.Evaluations++
		res.Traces++
		if preemptions(s.Decisions) > 0 {
			res.Nontrivial++
		}
	}
	for i := 0; i < schedules/4; i++ {
		one("random", vrt.NewSched(seed*7919+int64(i)))
	}
	work := [][]int{nil}
	seen := map[string]bool{}
	n := 0
	for len(work) > 0 && n < schedules {
		prefix := work[len(work)-1]
		work = work[:len(work)-1]
		s := vrt.NewSched(seed).WithPrefix(prefix)
		one("dfs", s)
		n++
		ds := s.Decisions
		for i := len(prefix); i < len(ds); i++ {
			for _, alt := range ds[i].Options {
				if alt == ds[i].Chosen || countPreempt(ds[:i], alt, ds[i]) > preempt {
					continue
				}
				np := make([]int, 0, i+1)
				for j := 0; j < i; j++ {
					np = append(np, ds[j].Chosen)
				}
				np = append(np, alt)
				if k := fmt.Sprint(np); !seen[k] {
					seen[k] = true
					work = append(work, np)
				}
			}
		}
	}
	res.Events = tw.N
	if err := tw.Close(); err != nil {
		return err
	}
	res.Print(outPath)
	return nil
}
