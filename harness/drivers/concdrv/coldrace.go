package concdrv

import (
	"bytes"
	"context"
	"fmt"
	"runtime/debug"
	"time"

	"github.com/godaddy/asherah/go/appencryption"
	"github.com/godaddy/asherah/go/appencryption/pkg/crypto/aead"
	"github.com/godaddy/asherah/go/appencryption/pkg/kms"
	"github.com/godaddy/asherah/go/appencryption/pkg/persistence"

	"verif.local/harness/fakes"
	"verif.local/harness/vrt"
	"verif.local/harness/vutil"
)

// ColdRace: G cold "processes" (SessionFactories with caches of their own) over ONE real in-memory metastore encrypt for the
// same partition at the same time under the cooperative scheduler (the key caches and the metastore's own locking are
// scheduling points), then a fresh factory decrypts every record handed out (C14 convergence, C02 durability at return, on the
// SDK's own store rather than the harness's fake).
func ColdRace(workers, schedules, preempt int, seed int64, tracePath, outPath string) error {
	tw, err := vutil.NewTraceWriter(tracePath)
	if err != nil {
		return err
	}
	res := &vutil.Result{Driver: "cold-race",
		Rule: "cold session factories sharing one real MemoryMetastore encrypt concurrently for one partition; every record handed out is then decrypted by a fresh factory; schedules by bounded-preemption search + random; non-trivial = schedule with a preemption"}
	const master = "thisIsAStaticMasterKeyForTesting"
	run := 0
	one := func(strat string, s *vrt.Sched) {
		type ev = map[string]interface{}
		var evs []ev
		pan := ""
		done := 0
		vrt.SetModelTime(100)
		s.Spawn("main", func() {
			defer func() {
				if x := recover(); x != nil {
					pan = fmt.Sprintf("%v\n%s", x, debug.Stack())
				}
			}()
			w := fakes.NewWorld()
			ms := persistence.NewMemoryMetastore()
			crypto := aead.NewAES256GCM()
			newFactory := func(name string) *appencryption.SessionFactory {
				k, err := kms.NewStatic(master, crypto)
				if err != nil {
					panic(err)
				}
				pol := appencryption.NewCryptoPolicy(appencryption.WithExpireAfterDuration(1000*time.Second), appencryption.WithRevokeCheckInterval(100*time.Second))
				pol.CreateDatePrecision = time.Second
				return appencryption.NewSessionFactory(&appencryption.Config{Service: "svc", Product: "prod", Policy: pol}, ms, k, crypto,
					appencryption.WithSecretFactory(&fakes.SecretFactory{W: w, Proc: name}))
			}
			ctx := context.Background()
			recs := make([]*appencryption.DataRowRecord, workers)
			payload := func(g int) []byte { return []byte(fmt.Sprintf("payload of process %d", g)) }
			for g := 0; g < workers; g++ {
				g := g
				vrt.Go(fmt.Sprintf("process-%d", g), func() {
					defer func() { done++; vrt.Released("process.done") }()
					e := ev{"e": "enc", "g": g + 1, "ok": false, "err": "", "ik": int64(0)}
					defer func() {
						if x := recover(); x != nil {
							e["err"] = fmt.Sprintf("panic: %v", x)
						}
						evs = append(evs, e)
					}()
					f := newFactory(fmt.Sprintf("p%d", g+1))
					defer f.Close()
					sess, err := f.GetSession("part")
					if err != nil {
						e["err"] = err.Error()
						return
					}
					defer sess.Close()
					d, err := sess.Encrypt(ctx, payload(g))
					if err != nil {
						e["err"] = err.Error()
						return
					}
					recs[g] = d
					e["ok"] = true
					if d.Key != nil && d.Key.ParentKeyMeta != nil {
						e["ik"] = d.Key.ParentKeyMeta.Created
					}
				})
			}
			vrt.WaitUntil("main.join", func() bool { return done == workers })
			// a process that starts afterwards with empty caches
			f := newFactory("fresh")
			defer f.Close()
			sess, err := f.GetSession("part")
			if err != nil {
				panic(err)
			}
			defer sess.Close()
			for g := 0; g < workers; g++ {
				e := ev{"e": "fresh", "g": g + 1, "issued": recs[g] != nil, "ok": false, "match": false, "err": ""}
				if recs[g] != nil {
					out, err := sess.Decrypt(ctx, *recs[g])
					e["ok"] = err == nil
					e["match"] = err == nil && bytes.Equal(out, payload(g))
					if err != nil {
						e["err"] = err.Error()
					}
				}
				evs = append(evs, e)
			}
		})
		s.Run()
		vrt.RealTime()
		run++
		tw.Emit(ev{"e": "reset", "run": run, "workers": workers, "strategy": strat, "choices": s.Choices()})
		for _, e := range evs {
			e["run"] = run
			tw.Emit(e)
		}
		tw.Emit(ev{"e": "final", "run": run, "dead": s.Dead, "panic": pan})
		res.Evaluations++
		res.Traces++
		if preemptions(s.Decisions) > 0 {
			res.Nontrivial++
		}
	}
	for i := 0; i < schedules/3; i++ {
		one("random", vrt.NewSched(seed*7919+int64(i)))
	}
	for i := 0; i < schedules/3; i++ {
		one("pct", vrt.NewSched(seed*104729+int64(i)).WithPCT(1+i%3, 200))
	}
	work := [][]int{nil}
	n := 0
	for len(work) > 0 && n < schedules/3 {
		prefix := work[len(work)-1]
		work = work[:len(work)-1]
		s := vrt.NewSched(seed).WithPrefix(prefix)
		one("dfs", s)
		n++
		ds := s.Decisions
		for i := len(prefix); i < len(ds) && len(work) < schedules; i++ {
			for _, alt := range ds[i].Options {
				if alt == ds[i].Chosen || countPreempt(ds[:i], alt, ds[i]) > preempt {
					continue
				}
				np := make([]int, 0, i+1)
				for j := 0; j < i; j++ {
					np = append(np, ds[j].Chosen)
				}
				work = append(work, append(np, alt))
			}
		}
	}
	res.Events = tw.N
	if err := tw.Close(); err != nil {
		return err
	}
	res.Print(outPath)
	return nil
}
