package concdrv

import (
	"fmt"
	"math/rand"
	"sync"
	"time"

	"github.com/godaddy/asherah/go/appencryption/pkg/cache"

	"verif.local/harness/vrt"
	"verif.local/harness/vutil"
)

type fakeClock struct{ now *int64 }

func (c fakeClock) Now() time.Time { return time.Unix(1_700_000_000+*c.now, 0) }

// CacheConc: G goroutines operate on ONE real cache (synchronous eviction, so that an operation's callbacks are its own) under the
// cooperative scheduler; every operation is logged at its call and at its return (C15 under concurrency, CacheConcTrace.tla).
func CacheConc(schedules, preempt int, seed int64, tracePath, outPath string) error {
	tw, err := vutil.NewTraceWriter(tracePath)
	if err != nil {
		return err
	}
	res := &vutil.Result{Driver: "cache-conc",
		Rule: "2-3 goroutines x 3 operations (Set / Get / Delete / Len over 3 keys) on one real cache per policy {lru, lfu, slru, tinylfu} with capacity 2 and expiry, a clock goroutine advancing time; schedules by seeded random, PCT and bounded-preemption search; non-trivial = schedule with a preemption"}
	type ev = map[string]interface{}
	type cfgT struct {
		policy      string
		cap, expiry int
		workers     int
	}
	cfgs := []cfgT{{"lru", 2, 2, 2}, {"slru", 2, 2, 3}, {"lfu", 2, 0, 2}, {"tinylfu", 2, 2, 2}, {"lru", 1, 1, 3}}
	run := 0
	one := func(c cfgT, strat string, s *vrt.Sched, wseed int64) {
		var mu sync.Mutex // the log (never held across a scheduling point)
		var evs []ev
		emit := func(e ev) { mu.Lock(); evs = append(evs, e); mu.Unlock() }
		cbs := map[int][][2]interface{}{}
		now := int64(0)
		done := 0
		finalLen := -1
		s.Spawn("main", func() {
			b := cache.New[string, int](c.cap).WithPolicy(cache.CachePolicy(c.policy)).Synchronous().WithClock(fakeClock{&now}).
				WithEvictFunc(func(k string, v int) {
					g := vrt.GID()
					mu.Lock()
					cbs[g] = append(cbs[g], [2]interface{}{k, v})
					mu.Unlock()
				})
			if c.expiry > 0 {
				b = b.WithExpiry(time.Duration(c.expiry) * time.Second)
			}
			ch := b.Build()
			// something to expire / evict from the start
			ch.Set("k1", 1)
			emit(ev{"e": "call", "g": 0, "op": "Set", "k": "k1", "v": 1})
			mu.Lock()
			first := cbs[vrt.GID()]
			cbs[vrt.GID()] = nil
			mu.Unlock()
			emit(ev{"e": "ret", "g": 0, "op": "Set", "ok": false, "rv": 0, "cbs": orEmptyCbs(first), "panic": ""})
			for w := 0; w < c.workers; w++ {
				w := w
				vrt.Go(fmt.Sprintf("worker-%d", w), func() {
					defer func() { done++; vrt.Released("worker.done") }()
					rng := rand.New(rand.NewSource(wseed*31 + int64(w)))
					for i := 0; i < 3; i++ {
						k := fmt.Sprintf("k%d", 1+rng.Intn(3))
						op := []string{"Get", "Get", "Set", "Delete", "Len"}[rng.Intn(5)]
						v := 1 + rng.Intn(3)
						g := w + 1
						e := ev{"e": "ret", "g": g, "op": op, "ok": false, "rv": 0, "cbs": [][2]interface{}{}, "panic": ""}
						emit(ev{"e": "call", "g": g, "op": op, "k": k, "v": v})
						func() {
							defer func() {
								if x := recover(); x != nil {
									e["panic"] = fmt.Sprint(x)
								}
							}()
							switch op {
							case "Get":
								rv, ok := ch.Get(k)
								e["ok"], e["rv"] = ok, rv
							case "Set":
								ch.Set(k, v)
							case "Delete":
								e["ok"] = ch.Delete(k)
							case "Len":
								e["rv"] = ch.Len()
							}
						}()
						mu.Lock()
						e["cbs"] = orEmptyCbs(cbs[vrt.GID()])
						cbs[vrt.GID()] = nil
						mu.Unlock()
						emit(e)
					}
				})
			}
			if c.expiry > 0 {
				vrt.Go("clock", func() {
					defer func() { done++; vrt.Released("clock.done") }()
					for t := 0; t < c.expiry+1; t++ {
						vrt.Yield("clock.tick")
						now++
						emit(ev{"e": "tick", "v": 1})
					}
				})
			} else {
				done++
			}
			vrt.WaitUntil("main.join", func() bool { return done == c.workers+1 })
			finalLen = ch.Len()
		})
		s.Run()
		run++
		tw.Emit(ev{"e": "reset", "run": run, "cap": c.cap, "policy": c.policy, "expiry": c.expiry, "workers": c.workers, "strategy": strat, "choices": s.Choices()})
		for _, e := range evs {
			e["run"] = run
			tw.Emit(e)
		}
		tw.Emit(ev{"e": "final", "run": run, "dead": s.Dead, "len": finalLen})
		res.Evaluations++
		res.Traces++
		if preemptions(s.Decisions) > 0 {
			res.Nontrivial++
		}
	}
	per := schedules / len(cfgs)
	for ci, c := range cfgs {
		for i := 0; i < per/3; i++ {
			one(c, "random", vrt.NewSched(seed*7919+int64(i)), seed+int64(i%7))
		}
		for i := 0; i < per/3; i++ {
			one(c, "pct", vrt.NewSched(seed*104729+int64(i)).WithPCT(1+i%3, 150), seed+int64(i%7))
		}
		work := [][]int{nil}
		n := 0
		for len(work) > 0 && n < per/3 {
			prefix := work[len(work)-1]
			work = work[:len(work)-1]
			s := vrt.NewSched(seed).WithPrefix(prefix)
			one(c, "dfs", s, seed+int64(ci))
			n++
			ds := s.Decisions
			for i := len(prefix); i < len(ds) && len(work) < per; i++ {
				for _, alt := range ds[i].Options {
					if alt == ds[i].Chosen || countPreempt(ds[:i], alt, ds[i]) > preempt {
						continue
					}
					np := make([]int, 0, i+1)
					for j := 0; j < i; j++ {
						np = append(np, ds[j].Chosen)
					}
					work = append(work, append(np, alt))
				}
			}
		}
	}
	res.Events = tw.N
	if err := tw.Close(); err != nil {
		return err
	}
	res.Print(outPath)
	return nil
}

func orEmptyCbs(c [][2]interface{}) [][2]interface{} {
	if c == nil {
		return [][2]interface{}{}
	}
	return c
}
