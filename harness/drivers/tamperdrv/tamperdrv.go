// Package tamperdrv binds spec/Tamper.tla to the real Session.Decrypt / Session.Load: every symbolic case (record assembled
// field by field from genuine records, damaged values, corrupted key rows) is made concrete and executed.
package tamperdrv

import (
	"bytes"
	"context"
	"encoding/json"
	"fmt"
	"math/rand"
	"os"
	"runtime/debug"
	"strings"
	"time"

	"github.com/godaddy/asherah/go/appencryption"
	"github.com/godaddy/asherah/go/appencryption/pkg/persistence"

	"verif.local/harness/fakes"
	"verif.local/harness/vrt"
	"verif.local/harness/vutil"
)

type Case struct {
	Data   string `json:"data"`
	Key    string `json:"key"`
	Meta   string `json:"meta"`
	IK     string `json:"ik"`
	SK     string `json:"sk"`
	Expect string `json:"expect"`
}

type rec struct {
	drr     appencryption.DataRowRecord
	payload []byte
}

type world struct {
	w    *fakes.World
	snap []fakes.Row
	recs map[string]rec // own, same, old, foreign
	rng  *rand.Rand
	// flavour of the factory that decrypts the next case: with key caches (and then every record is decrypted twice through the
	// same session: the second access goes through what the first one cached), with a region-suffixed metastore
	cached, suffixed bool
}

func (x *world) policy() *appencryption.CryptoPolicy {
	opts := []appencryption.PolicyOption{appencryption.WithExpireAfterDuration(3 * time.Second), appencryption.WithRevokeCheckInterval(time.Second)}
	if !x.cached {
		opts = append(opts, appencryption.WithNoCache())
	}
	p := appencryption.NewCryptoPolicy(opts...)
	p.CreateDatePrecision = time.Second
	return p
}

func (x *world) factory() *appencryption.SessionFactory {
	ms := &fakes.Metastore{W: x.w, Proc: "t", Quiet: true}
	if x.suffixed {
		ms.Suffix = "us-west-2" // the records were written without suffix: a suffixed partition accepts its base ids
	}
	kms := &fakes.KMS{W: x.w, Proc: "t", Quiet: true}
	return appencryption.NewSessionFactory(&appencryption.Config{Service: "svc", Product: "prod", Policy: x.policy()}, ms.AsSDK(), kms, x.w.Real)
}

func newWorld(seed int64) (*world, error) {
	x := &world{w: fakes.NewWorld(), recs: map[string]rec{}, rng: rand.New(rand.NewSource(seed))}
	enc := func(part, name string) error {
		f := x.factory()
		defer f.Close()
		s, err := f.GetSession(part)
		if err != nil {
			return err
		}
		defer s.Close()
		pl := []byte("payload of " + name + " ................................")
		d, err := s.Encrypt(context.Background(), pl)
		if err != nil {
			return err
		}
		x.recs[name] = rec{drr: *d, payload: pl}
		return nil
	}
	vrt.SetModelTime(1)
	if err := enc("A", "old"); err != nil {
		return nil, err
	}
	vrt.SetModelTime(6) // past expiry: new SK and IK generation
	for _, n := range []string{"own", "same"} {
		if err := enc("A", n); err != nil {
			return nil, err
		}
	}
	if err := enc("B", "foreign"); err != nil {
		return nil, err
	}
	if x.recs["own"].drr.Key.ParentKeyMeta.Created == x.recs["old"].drr.Key.ParentKeyMeta.Created {
		return nil, fmt.Errorf("fixture: no second IK generation")
	}
	x.snap = x.w.Snapshot()
	return x, nil
}

func flip(b []byte, rng *rand.Rand) []byte {
	c := append([]byte(nil), b...)
	c[rng.Intn(len(c))] ^= 1 << uint(rng.Intn(8))
	return c
}

// build makes the concrete record for a case; bit/cut >= 0 select a specific bit flip / truncation length.
func (x *world) build(c *Case, bit, cut int) (appencryption.DataRowRecord, []byte) {
	src := func(name string) rec {
		if r, ok := x.recs[name]; ok {
			return r
		}
		return x.recs["own"]
	}
	var d appencryption.DataRowRecord
	bound := src(c.Data).payload
	base := src("own")
	switch c.Data {
	case "own", "same", "old", "foreign":
		d.Data = append([]byte(nil), src(c.Data).drr.Data...)
	case "tampered":
		if bit >= 0 {
			d.Data = append([]byte(nil), base.drr.Data...)
			d.Data[bit/8%len(d.Data)] ^= 1 << uint(bit%8)
		} else {
			d.Data = flip(base.drr.Data, x.rng)
		}
	case "truncated":
		n := x.rng.Intn(len(base.drr.Data))
		if cut >= 0 {
			n = cut % len(base.drr.Data)
		}
		d.Data = append([]byte(nil), base.drr.Data[:n]...)
	case "empty":
		d.Data = []byte{}
	case "nil":
		d.Data = nil
	}
	if c.Key != "nokey" {
		k := &appencryption.EnvelopeKeyRecord{Created: base.drr.Key.Created}
		switch c.Key {
		case "own", "same", "old", "foreign":
			k.EncryptedKey = append([]byte(nil), src(c.Key).drr.Key.EncryptedKey...)
			k.Created = src(c.Key).drr.Key.Created
		case "tampered":
			if bit >= 0 {
				k.EncryptedKey = append([]byte(nil), base.drr.Key.EncryptedKey...)
				k.EncryptedKey[bit/8%len(k.EncryptedKey)] ^= 1 << uint(bit%8)
			} else {
				k.EncryptedKey = flip(base.drr.Key.EncryptedKey, x.rng)
			}
		case "truncated":
			n := x.rng.Intn(len(base.drr.Key.EncryptedKey))
			if cut >= 0 {
				n = cut % len(base.drr.Key.EncryptedKey)
			}
			k.EncryptedKey = append([]byte(nil), base.drr.Key.EncryptedKey[:n]...)
		case "empty":
			k.EncryptedKey = []byte{}
		}
		own := *base.drr.Key.ParentKeyMeta
		switch c.Meta {
		case "own":
			k.ParentKeyMeta = &own
		case "old":
			m := *src("old").drr.Key.ParentKeyMeta
			k.ParentKeyMeta = &m
		case "foreign":
			m := *src("foreign").drr.Key.ParentKeyMeta
			k.ParentKeyMeta = &m
		case "missing":
			own.Created += 977
			k.ParentKeyMeta = &own
		case "zero":
			own.Created = 0
			k.ParentKeyMeta = &own
		case "garbage-id":
			// an id that is no key id of this partition: extended, cut, without any separator, only separators, empty
			g := []string{own.ID + "X", own.ID + "_", own.ID[:len(own.ID)-1], "", "x", "garbage", "_", "__", "_IK_", "_IK__svc_prod"}
			own.ID = g[x.rng.Intn(len(g))]
			k.ParentKeyMeta = &own
		case "nil":
			k.ParentKeyMeta = nil
		}
		d.Key = k
	}
	return d, bound
}

// corrupt damages the key rows of the chain the record's Data belongs to.
func (x *world) corrupt(c *Case) {
	name := c.Data
	if name != "own" && name != "same" && name != "old" {
		name = "own"
	}
	ikm := x.recs[name].drr.Key.ParentKeyMeta
	row, ok := x.w.Get(ikm.ID, ikm.Created)
	if !ok || row.Parent == nil {
		return
	}
	skm := *row.Parent
	switch c.IK {
	case "key-tampered":
		x.w.MutateRow(ikm.ID, ikm.Created, func(r *fakes.Row) { r.Key = flip(r.Key, x.rng) })
	case "key-truncated":
		x.w.MutateRow(ikm.ID, ikm.Created, func(r *fakes.Row) { r.Key = r.Key[:x.rng.Intn(len(r.Key))] })
	case "nil-parent":
		x.w.MutateRow(ikm.ID, ikm.Created, func(r *fakes.Row) { r.Parent = nil })
	case "parent-missing":
		x.w.MutateRow(ikm.ID, ikm.Created, func(r *fakes.Row) { r.Parent.Created += 977 })
	case "deleted":
		x.w.DeleteRow(ikm.ID, ikm.Created)
	case "epoch-copy":
		cp := row
		cp.Created = 0
		x.w.PutRow(cp)
	}
	switch c.SK {
	case "key-tampered":
		x.w.MutateRow(skm.ID, skm.Created, func(r *fakes.Row) { r.Key = flip(r.Key, x.rng) })
	case "deleted":
		x.w.DeleteRow(skm.ID, skm.Created)
	}
}

type Event struct {
	E      string `json:"e"`
	Data   string `json:"data"`
	Key    string `json:"key"`
	Meta   string `json:"meta"`
	IK     string `json:"ik"`
	SK     string `json:"sk"`
	Via    string `json:"via"`
	Result string `json:"result"`
	Same   bool   `json:"same"`
	Detail string `json:"detail"`
	Bit    int    `json:"bit"`
	Cut    int    `json:"cut"`
	Run    int    `json:"run"`
	// flavour of the decrypting factory
	Cached   bool `json:"cached"`
	Suffixed bool `json:"suffixed"`
}

// CurrentCase, if set, names a file that always holds the case being executed.
var CurrentCase string

func (x *world) run(c *Case, bit, cut int, via string) Event {
	ev := Event{E: "case", Data: c.Data, Key: c.Key, Meta: c.Meta, IK: c.IK, SK: c.SK, Via: via, Bit: bit, Cut: cut, Run: 1,
		Cached: x.cached, Suffixed: x.suffixed}
	if CurrentCase != "" {
		// a fatal error of the runtime (stack overflow, fault) cannot be recovered: leave a note of what was running
		b, _ := json.Marshal(ev)
		os.WriteFile(CurrentCase, b, 0o644)
	}
	x.w.Restore(x.snap)
	x.corrupt(c)
	d, bound := x.build(c, bit, cut)
	func() {
		defer func() {
			if p := recover(); p != nil {
				ev.Result = "panic"
				ev.Detail = fmt.Sprintf("%v\n%s", p, debug.Stack())
			}
		}()
		f := x.factory()
		defer f.Close()
		s, err := f.GetSession("A")
		if err != nil {
			ev.Result, ev.Detail = "error", err.Error()
			return
		}
		defer s.Close()
		once := func() ([]byte, error) {
			cp := d
			if d.Key != nil {
				k := *d.Key
				if k.ParentKeyMeta != nil {
					m := *k.ParentKeyMeta
					k.ParentKeyMeta = &m
				}
				cp.Key = &k
			}
			if via == "load" {
				return s.Load(context.Background(), "k", persistence.LoaderFunc(func(context.Context, interface{}) (*appencryption.DataRowRecord, error) { return &cp, nil }))
			}
			return s.Decrypt(context.Background(), cp)
		}
		out, err := once()
		if x.cached {
			// the same record again through the same session: whatever the first access cached must not change the answer
			out2, err2 := once()
			if (err == nil) != (err2 == nil) || (err == nil && !bytes.Equal(out, out2)) {
				ev.Result, ev.Detail = "panic", fmt.Sprintf("second access through the same session answered differently: first (%v, %d bytes), second (%v, %d bytes)", err, len(out), err2, len(out2))
				return
			}
		}
		if err != nil {
			ev.Result, ev.Detail = "error", err.Error()
			return
		}
		ev.Result = "ok"
		ev.Same = bytes.Equal(out, bound)
	}()
	return ev
}

// Replay runs the cases; exhaustive > 0 additionally runs every single-bit flip and truncation length of Data and of the
// encrypted key of a genuine record (every exhaustive-th one).
func Replay(inPath, tracePath, outPath string, seed int64, exhaustive int) error {
	in, err := vutil.OpenIn(inPath)
	if err != nil {
		return err
	}
	defer in.Close()
	defer vrt.RealTime()
	x, err := newWorld(seed)
	if err != nil {
		return err
	}
	tw, err := vutil.NewTraceWriter(tracePath)
	if err != nil {
		return err
	}
	tw.Emit(Event{E: "reset", Run: 1})
	res := &vutil.Result{Driver: "tamper-replay",
		Rule: "every field recombination of Tamper.tla (Data / encrypted key / key meta from four genuine records, damaged or absent values) x corrupted IK and SK rows, made concrete on real records and executed through Session.Decrypt and Session.Load with a fresh cache-less factory; plus every k-th single-bit flip and truncation length of Data and of the encrypted key of a genuine record; non-trivial = at least two fields genuine"}
	n := 0
	err = vutil.ReadCases(in, func(raw []byte) error {
		var c Case
		if e := json.Unmarshal(raw, &c); e != nil || c.Data == "" {
			return nil
		}
		n++
		res.Evaluations++
		g := 0
		for _, f := range []string{c.Data, c.Key, c.Meta} {
			if f == "own" || f == "same" || f == "old" {
				g++
			}
		}
		if g >= 2 {
			res.Nontrivial++
			res.Sample(raw, 3)
		}
		via := "decrypt"
		if n%3 == 0 {
			via = "load"
		}
		x.cached, x.suffixed = n%2 == 1, (n/2)%2 == 1
		if f := os.Getenv("VERIF_TAMPER_FLAVOUR"); f != "" { // replay of one recorded case under its flavour
			x.cached, x.suffixed = strings.Contains(f, "cached"), strings.Contains(f, "suffixed")
		}
		tw.Emit(x.run(&c, -1, -1, via))
		return nil
	})
	x.cached, x.suffixed = false, false
	if exhaustive > 0 {
		own := x.recs["own"].drr
		intact := func(d, k string) *Case { return &Case{Data: d, Key: k, Meta: "own", IK: "intact", SK: "intact"} }
		for b := 0; b < len(own.Data)*8; b += exhaustive {
			tw.Emit(x.run(intact("tampered", "own"), b, -1, "decrypt"))
			res.Evaluations++
		}
		for b := 0; b < len(own.Key.EncryptedKey)*8; b += exhaustive {
			tw.Emit(x.run(intact("own", "tampered"), b, -1, "decrypt"))
			res.Evaluations++
		}
		for n := 0; n < len(own.Data); n += exhaustive {
			tw.Emit(x.run(intact("truncated", "own"), -1, n, "decrypt"))
			res.Evaluations++
		}
		for n := 0; n < len(own.Key.EncryptedKey); n += exhaustive {
			tw.Emit(x.run(intact("own", "truncated"), -1, n, "decrypt"))
			res.Evaluations++
		}
	}
	res.Events = tw.N
	res.Traces = 1
	if e := tw.Close(); e != nil {
		return e
	}
	res.Print(outPath)
	return err
}
