// Package kmsdrv binds spec/KmsRegions.tla (property C17) to the two AWS KMS plugins
// (go/appencryption/plugins/aws-v1/kms and aws-v2/kms): every case printed by TLC (plugin pair, region sets,
// preferred regions, failing subsets at wrap and unwrap time) is executed on the real plugins against fake regional
// KMS clients, and what the plugins did is recorded for TLC (KmsRegionsTrace.tla). The driver judges nothing.
package kmsdrv

import (
	"bytes"
	"context"
	"encoding/json"
	"errors"
	"fmt"
	"math/rand"
	"os"
	"runtime"
	"runtime/debug"
	"sort"
	"sync"
	"time"

	awsv1 "github.com/aws/aws-sdk-go/aws"
	reqv1 "github.com/aws/aws-sdk-go/aws/request"
	kmsv1 "github.com/aws/aws-sdk-go/service/kms"

	awsv2 "github.com/aws/aws-sdk-go-v2/aws"
	kmsv2 "github.com/aws/aws-sdk-go-v2/service/kms"

	"github.com/godaddy/asherah/go/appencryption"
	"github.com/godaddy/asherah/go/appencryption/pkg/crypto/aead"
	pluginv1 "github.com/godaddy/asherah/go/appencryption/plugins/aws-v1/kms"
	pluginv2 "github.com/godaddy/asherah/go/appencryption/plugins/aws-v2/kms"

	"verif.local/harness/vutil"
)

// Case is one element of the C17 quantifier, as printed by KmsRegionsGen.tla.
type Case struct {
	WPlug string   `json:"wplug"`
	UPlug string   `json:"uplug"`
	WCfg  []string `json:"wcfg"`
	WPref string   `json:"wpref"`
	GenUp []string `json:"genUp"`
	EncUp []string `json:"encUp"`
	UCfg  []string `json:"ucfg"`
	UPref string   `json:"upref"`
	DecUp []string `json:"decUp"`
}

// Reset is the first event of a run: the case, echoed.
type Reset struct {
	E   string `json:"e"`
	Run int    `json:"run"`
	Case
}

// WrapEv records what EncryptKey did.
type WrapEv struct {
	E          string   `json:"e"`
	Run        int      `json:"run"`
	OK         bool     `json:"ok"`
	Entries    []string `json:"entries"`    // regions with an entry in the returned envelope
	GenOrder   []string `json:"genOrder"`   // regions whose GenerateDataKey was called, in call order
	EncCalls   []string `json:"encCalls"`   // regions whose Encrypt was called (sorted; they run concurrently)
	Wiped      bool     `json:"wiped"`      // every GenerateDataKey output Plaintext handed to the plugin is all zero afterwards
	WipedEncIn bool     `json:"wipedEncIn"` // informational: every Plaintext passed to Encrypt is all zero afterwards
	Err        string   `json:"err"`
	Panic      string   `json:"panic"`
}

// UnwrapEv records what DecryptKey did with the envelope of the same run.
type UnwrapEv struct {
	E            string   `json:"e"`
	Run          int      `json:"run"`
	OK           bool     `json:"ok"`
	Same         bool     `json:"same"`         // returned bytes are the bytes that were wrapped
	Order        []string `json:"order"`        // regions whose Decrypt was called, in call order
	WipedDecrypt bool     `json:"wipedDecrypt"` // C10, not C17: every Decrypt output Plaintext is all zero afterwards
	Err          string   `json:"err"`
	Panic        string   `json:"panic"`
}

// ------------------------------------------------------------------------------------------------ fake regional KMS

func arnOf(region string) string { return "arn:aws:kms:" + region + ":111122223333:key/" + region }

// world is the set of regional KMS endpoints seen by one plugin instance during one call.
type world struct {
	mu         sync.Mutex
	rng        *rand.Rand
	genUp      map[string]bool
	encUp      map[string]bool
	decUp      map[string]bool
	stale      map[string]bool // regions whose Decrypt returns a wrong data key
	cfgRegions map[string]bool // wrap side: region -> Encrypt/Generate available
	genOrder   []string
	encCalls   []string
	decOrder   []string
	genOut     [][]byte // retained: Plaintext slices returned by GenerateDataKey
	encIn      [][]byte // retained: Plaintext slices passed to Encrypt
	decOut     [][]byte // retained: Plaintext slices returned by Decrypt
}

func set(xs []string) map[string]bool {
	m := map[string]bool{}
	for _, x := range xs {
		m[x] = true
	}
	return m
}

// the region-specific wrapping: region name, a separator, and the plaintext xored with a per-region pad
func sealFor(region string, plaintext []byte) []byte {
	out := append([]byte(region), 0)
	for i, b := range plaintext {
		out = append(out, b^region[i%len(region)]^0x5a)
	}
	return out
}

func openFor(region string, blob []byte) ([]byte, bool) {
	pre := append([]byte(region), 0)
	if !bytes.HasPrefix(blob, pre) {
		return nil, false
	}
	body := blob[len(pre):]
	out := make([]byte, len(body))
	for i, b := range body {
		out[i] = b ^ region[i%len(region)] ^ 0x5a
	}
	return out, true
}

var errDown = errors.New("fake kms: regional endpoint unavailable")

func (w *world) generate(region, keyID string) (plaintext, blob []byte, err error) {
	w.mu.Lock()
	defer w.mu.Unlock()
	w.genOrder = append(w.genOrder, region)
	if !w.genUp[region] || keyID != arnOf(region) {
		return nil, nil, errDown
	}
	plaintext = make([]byte, 32)
	w.rng.Read(plaintext)
	w.genOut = append(w.genOut, plaintext)
	return plaintext, sealFor(region, plaintext), nil
}

func (w *world) encrypt(region, keyID string, plaintext []byte) ([]byte, error) {
	w.mu.Lock()
	defer w.mu.Unlock()
	w.encCalls = append(w.encCalls, region)
	w.encIn = append(w.encIn, plaintext)
	if !w.encUp[region] || keyID != arnOf(region) {
		return nil, errDown
	}
	return sealFor(region, plaintext), nil
}

// inFlight models a real client honouring its context: when some other region is down at wrap time, a healthy region's
// Encrypt is still in flight for a moment; if the caller cancels meanwhile the request is abandoned.
func (w *world) inFlight(ctx interface {
	Done() <-chan struct{}
	Err() error
}, region string) error {
	w.mu.Lock()
	healthy := w.encUp[region]
	anyDown := false
	for r, up := range w.cfgRegions {
		_ = r
		if !up {
			anyDown = true
		}
	}
	w.mu.Unlock()
	if !healthy || !anyDown || ctx == nil {
		return nil
	}
	select {
	case <-ctx.Done():
		return ctx.Err()
	case <-time.After(400 * time.Microsecond):
		return nil
	}
}

func (w *world) decrypt(region string, blob []byte) ([]byte, error) {
	w.mu.Lock()
	defer w.mu.Unlock()
	w.decOrder = append(w.decOrder, region)
	if !w.decUp[region] {
		return nil, errDown
	}
	p, ok := openFor(region, blob)
	if !ok {
		return nil, errors.New("fake kms: InvalidCiphertextException (blob was not produced by this region)")
	}
	if w.stale[region] {
		// a stale key-encryption key: KMS answers, but with a data key that does not open the envelope
		p = make([]byte, len(p))
		w.rng.Read(p)
	}
	w.decOut = append(w.decOut, p)
	return p, nil
}

func allZero(bufs [][]byte) bool {
	for _, b := range bufs {
		for _, x := range b {
			if x != 0 {
				return false
			}
		}
	}
	return true
}

// SDK v1 client of one region
type clientV1 struct {
	w      *world
	region string
}

func (c *clientV1) GenerateDataKeyWithContext(_ awsv1.Context, in *kmsv1.GenerateDataKeyInput, _ ...reqv1.Option) (*kmsv1.GenerateDataKeyOutput, error) {
	p, blob, err := c.w.generate(c.region, awsv1.StringValue(in.KeyId))
	if err != nil {
		return nil, err
	}
	return &kmsv1.GenerateDataKeyOutput{KeyId: awsv1.String(arnOf(c.region)), Plaintext: p, CiphertextBlob: blob}, nil
}

func (c *clientV1) EncryptWithContext(ctx awsv1.Context, in *kmsv1.EncryptInput, _ ...reqv1.Option) (*kmsv1.EncryptOutput, error) {
	if err := c.w.inFlight(ctx, c.region); err != nil {
		return nil, err
	}
	blob, err := c.w.encrypt(c.region, awsv1.StringValue(in.KeyId), in.Plaintext)
	if err != nil {
		return nil, err
	}
	return &kmsv1.EncryptOutput{KeyId: awsv1.String(arnOf(c.region)), CiphertextBlob: blob}, nil
}

func (c *clientV1) DecryptWithContext(_ awsv1.Context, in *kmsv1.DecryptInput, _ ...reqv1.Option) (*kmsv1.DecryptOutput, error) {
	p, err := c.w.decrypt(c.region, in.CiphertextBlob)
	if err != nil {
		return nil, err
	}
	return &kmsv1.DecryptOutput{KeyId: awsv1.String(arnOf(c.region)), Plaintext: p}, nil
}

// SDK v2 client of one region
type clientV2 struct {
	w      *world
	region string
}

func (c *clientV2) GenerateDataKey(_ context.Context, in *kmsv2.GenerateDataKeyInput, _ ...func(*kmsv2.Options)) (*kmsv2.GenerateDataKeyOutput, error) {
	p, blob, err := c.w.generate(c.region, awsv2.ToString(in.KeyId))
	if err != nil {
		return nil, err
	}
	return &kmsv2.GenerateDataKeyOutput{KeyId: awsv2.String(arnOf(c.region)), Plaintext: p, CiphertextBlob: blob}, nil
}

func (c *clientV2) Encrypt(ctx context.Context, in *kmsv2.EncryptInput, _ ...func(*kmsv2.Options)) (*kmsv2.EncryptOutput, error) {
	if err := c.w.inFlight(ctx, c.region); err != nil {
		return nil, err
	}
	blob, err := c.w.encrypt(c.region, awsv2.ToString(in.KeyId), in.Plaintext)
	if err != nil {
		return nil, err
	}
	return &kmsv2.EncryptOutput{KeyId: awsv2.String(arnOf(c.region)), CiphertextBlob: blob}, nil
}

func (c *clientV2) Decrypt(_ context.Context, in *kmsv2.DecryptInput, _ ...func(*kmsv2.Options)) (*kmsv2.DecryptOutput, error) {
	p, err := c.w.decrypt(c.region, in.CiphertextBlob)
	if err != nil {
		return nil, err
	}
	return &kmsv2.DecryptOutput{KeyId: awsv2.String(arnOf(c.region)), Plaintext: p}, nil
}

// ------------------------------------------------------------------------------------------------ the real plugins

// build constructs the real plugin through its public API with the fake clients at the SDK boundary.
//   - v1: kms.NewAWS (the real constructor: offline session, map iteration, sortClients), then the exported KMS
//     field of each AWSKMSClient is replaced by the fake of that client's region. There is no exported way to
//     inject a client factory into the v1 plugin.
//   - v2: kms.NewBuilder(...).WithPreferredRegion(...).WithKMSFactory(fake).WithAWSConfig(aws.Config{}).Build()
func build(plugin string, crypto appencryption.AEAD, regions []string, preferred string, w *world) (appencryption.KeyManagementService, error) {
	arnMap := map[string]string{}
	for _, r := range regions {
		arnMap[r] = arnOf(r)
	}
	switch plugin {
	case "v1":
		m, err := pluginv1.NewAWS(crypto, preferred, arnMap)
		if err != nil {
			return nil, err
		}
		for i := range m.Clients {
			m.Clients[i].KMS = &clientV1{w: w, region: m.Clients[i].Region}
		}
		return m, nil
	case "v2":
		return pluginv2.NewBuilder(crypto, arnMap).
			WithPreferredRegion(preferred).
			WithKMSFactory(func(cfg awsv2.Config, _ ...func(*kmsv2.Options)) pluginv2.AWSClient {
				return &clientV2{w: w, region: cfg.Region}
			}).
			WithAWSConfig(awsv2.Config{}).
			Build()
	}
	return nil, fmt.Errorf("unknown plugin %q", plugin)
}

func entriesOf(envelope []byte) []string {
	var en struct {
		KEKs []struct {
			Region string `json:"region"`
		} `json:"kmsKeks"`
	}
	_ = json.Unmarshal(envelope, &en)
	out := []string{}
	seen := map[string]bool{}
	for _, k := range en.KEKs {
		if !seen[k.Region] {
			seen[k.Region] = true
			out = append(out, k.Region)
		}
	}
	sort.Strings(out)
	return out
}

func orEmpty(xs []string) []string {
	if xs == nil {
		return []string{}
	}
	return xs
}

// StaleFirst makes the preferred unwrap region answer with a wrong data key whenever a second region is available.
var StaleFirst bool

type outcome struct {
	reset   Reset
	wrap    WrapEv
	unwrap  *UnwrapEv
	unwrap2 *UnwrapEv
}

// runCase executes one case: wrap with one plugin instance, unwrap the resulting envelope with another.
func runCase(n int, c Case, seed int64) (o outcome) {
	o.reset = Reset{E: "reset", Run: n, Case: c}
	o.reset.WCfg, o.reset.GenUp, o.reset.EncUp = orEmpty(c.WCfg), orEmpty(c.GenUp), orEmpty(c.EncUp)
	o.reset.UCfg, o.reset.DecUp = orEmpty(c.UCfg), orEmpty(c.DecUp)
	rng := rand.New(rand.NewSource(seed + int64(n)*7919))
	crypto := aead.NewAES256GCM()
	key := make([]byte, 32)
	rng.Read(key)
	orig := append([]byte(nil), key...)

	// ---- wrap
	ww := &world{rng: rng, genUp: set(c.GenUp), encUp: set(c.EncUp), decUp: map[string]bool{}, cfgRegions: map[string]bool{}}
	for _, r := range c.WCfg {
		ww.cfgRegions[r] = ww.encUp[r]
	}
	o.wrap = WrapEv{E: "wrap", Run: n, Entries: []string{}, GenOrder: []string{}, EncCalls: []string{}}
	var envelope []byte
	func() {
		defer func() {
			if r := recover(); r != nil {
				o.wrap.Panic = fmt.Sprintf("%v\n%s", r, debug.Stack())
			}
		}()
		k, err := build(c.WPlug, crypto, c.WCfg, c.WPref, ww)
		if err != nil {
			o.wrap.Err = "build: " + err.Error()
			return
		}
		env, err := k.EncryptKey(context.Background(), key)
		if err != nil {
			o.wrap.Err = err.Error()
			return
		}
		o.wrap.OK = true
		envelope = env
	}()
	ww.mu.Lock()
	o.wrap.GenOrder = orEmpty(append([]string(nil), ww.genOrder...))
	enc := append([]string(nil), ww.encCalls...)
	sort.Strings(enc)
	o.wrap.EncCalls = orEmpty(enc)
	o.wrap.Wiped = allZero(ww.genOut)
	o.wrap.WipedEncIn = allZero(ww.encIn)
	ww.mu.Unlock()
	if o.wrap.OK {
		o.wrap.Entries = entriesOf(envelope)
	}
	if !o.wrap.OK {
		return o
	}

	// ---- unwrap, by a separately constructed plugin instance (possibly the other SDK generation / other regions)
	uw := &world{rng: rng, genUp: map[string]bool{}, encUp: map[string]bool{}, decUp: set(c.DecUp), stale: map[string]bool{}}
	if StaleFirst && len(c.DecUp) >= 2 {
		// C10 variant: the unwrapping side's preferred region (tried first) holds a stale key-encryption key
		uw.stale[c.UPref] = true
	}
	ue := &UnwrapEv{E: "unwrap", Run: n, Order: []string{}}
	o.unwrap = ue
	var kept appencryption.KeyManagementService
	func() {
		defer func() {
			if r := recover(); r != nil {
				ue.Panic = fmt.Sprintf("%v\n%s", r, debug.Stack())
			}
		}()
		k, err := build(c.UPlug, crypto, c.UCfg, c.UPref, uw)
		if err != nil {
			ue.Err = "build: " + err.Error()
			return
		}
		kept = k
		got, err := k.DecryptKey(context.Background(), envelope)
		if err != nil {
			ue.Err = err.Error()
			return
		}
		ue.OK = true
		ue.Same = bytes.Equal(got, orig)
	}()
	uw.mu.Lock()
	ue.Order = orEmpty(append([]string(nil), uw.decOrder...))
	ue.WipedDecrypt = allZero(uw.decOut)
	uw.mu.Unlock()
	if kept == nil || StaleFirst {
		return o
	}
	// ---- the outage is over: the SAME instance unwraps the envelope again with every region available
	uw.mu.Lock()
	uw.decUp = set(c.UCfg)
	uw.decOrder = nil
	uw.mu.Unlock()
	u2 := &UnwrapEv{E: "unwrap2", Run: n, Order: []string{}}
	o.unwrap2 = u2
	func() {
		defer func() {
			if r := recover(); r != nil {
				u2.Panic = fmt.Sprintf("%v\n%s", r, debug.Stack())
			}
		}()
		got, err := kept.DecryptKey(context.Background(), envelope)
		if err != nil {
			u2.Err = err.Error()
			return
		}
		u2.OK = true
		u2.Same = bytes.Equal(got, orig)
	}()
	uw.mu.Lock()
	u2.Order = orEmpty(append([]string(nil), uw.decOrder...))
	u2.WipedDecrypt = allZero(uw.decOut)
	uw.mu.Unlock()
	return o
}

// Replay reads the cases from in, runs each (repeat times: the order of the non-preferred regions inside the plugins
// comes from Go map iteration and differs between constructions) on the real plugins and writes the trace and the summary.
func Replay(in, tracePath, out string, seed int64, repeat int) error {
	// the v1 constructor creates an SDK session: keep it away from the machine's AWS configuration and the network
	for k, v := range map[string]string{"AWS_SDK_LOAD_CONFIG": "0", "AWS_CONFIG_FILE": os.DevNull, "AWS_SHARED_CREDENTIALS_FILE": os.DevNull,
		"AWS_EC2_METADATA_DISABLED": "true", "AWS_ACCESS_KEY_ID": "verif", "AWS_SECRET_ACCESS_KEY": "verif", "AWS_REGION": "", "AWS_DEFAULT_REGION": ""} {
		os.Setenv(k, v)
	}
	os.Unsetenv("AWS_CA_BUNDLE") // otherwise every session re-parses the system CA bundle (5 ms per v1 constructor call)
	r, err := vutil.OpenIn(in)
	if err != nil {
		return err
	}
	defer r.Close()
	var cases []Case
	res := &vutil.Result{Driver: "kms-replay", Extra: map[string]interface{}{}}
	err = vutil.ReadCases(r, func(raw []byte) error {
		var c Case
		if e := json.Unmarshal(raw, &c); e != nil {
			return nil
		}
		if c.WPlug == "" || len(c.WCfg) == 0 {
			return nil
		}
		res.Sample(raw, 3)
		for i := 0; i < repeat || i == 0; i++ {
			cases = append(cases, c)
		}
		return nil
	})
	if err != nil {
		return err
	}
	tw, err := vutil.NewTraceWriter(tracePath)
	if err != nil {
		return err
	}
	outs := make([]outcome, len(cases))
	var wg sync.WaitGroup
	nw := runtime.NumCPU()
	next := make(chan int, 1024)
	for i := 0; i < nw; i++ {
		wg.Add(1)
		go func() {
			defer wg.Done()
			for j := range next {
				outs[j] = runCase(j+1, cases[j], seed)
			}
		}()
	}
	for j := range cases {
		next <- j
	}
	close(next)
	wg.Wait()

	wrapOK, unwrapOK, notWipedDecrypt, unwraps, perPair := 0, 0, 0, 0, map[string]int{}
	for j := range outs {
		o := &outs[j]
		c := cases[j]
		tw.Emit(o.reset)
		tw.Emit(o.wrap)
		res.Evaluations++
		perPair[c.WPlug+"->"+c.UPlug]++
		if o.wrap.OK {
			wrapOK++
		}
		if o.unwrap != nil {
			tw.Emit(o.unwrap)
			unwraps++
			if o.unwrap.OK {
				unwrapOK++
				if !o.unwrap.WipedDecrypt {
					notWipedDecrypt++
				}
			}
		}
		if o.unwrap2 != nil {
			tw.Emit(o.unwrap2)
		}
		// non-trivial: at least two regions and at least one regional operation unavailable somewhere
		if len(c.WCfg) >= 2 && (len(c.GenUp) < len(c.WCfg) || len(c.EncUp) < len(c.WCfg) || len(c.DecUp) < len(c.UCfg)) {
			res.Nontrivial++
		}
	}
	res.Traces, res.Events = len(outs), tw.N
	res.Extra["wrap_ok"] = wrapOK
	res.Extra["unwraps"] = unwraps
	res.Extra["unwrap_ok"] = unwrapOK
	res.Extra["unwrap_ok_decrypt_plaintext_not_wiped"] = notWipedDecrypt
	res.Extra["per_pair"] = perPair
	if err := tw.Close(); err != nil {
		return err
	}
	res.Print(out)
	return nil
}
