// Package refcodec is an INDEPENDENT implementation of Asherah's stored and wire formats, written from the
// documentation only and sharing no code with the SDK (standard library only, no godaddy import):
//
//	docs/DesignAndArchitecture.md   envelope key record / data row record JSON, key ids
//	docs/Metastore.md               RDBMS row (id, created, key_record TEXT), DynamoDB item (Id S, Created N, KeyRecord)
//	docs/KeyManagementService.md    static KMS = the same AEAD under a 32 byte master key
//	server/protos/appencryption.proto   DataRowRecord / EnvelopeKeyRecord / KeyMeta messages
//	property C18                    AES-256-GCM output laid out as ciphertext, 16 byte tag, 12 byte nonce
//
// It stands for "an implementation in another language". It only PARSES, WRITES and does the byte arithmetic (base64,
// AES-GCM); which tree, lengths, ids and links are right is decided by spec/WireFormat.tla on what is reported here.
package refcodec

import (
	"bytes"
	"crypto/aes"
	"crypto/cipher"
	"encoding/base64"
	"encoding/json"
	"errors"
	"fmt"
	"io"
	"regexp"
	"sort"
	"strconv"
	"strings"
)

// ---------------------------------------------------------------------------------------------------------------
// AEAD blobs: ciphertext || tag(16) || nonce(12), AES-256-GCM, no additional data

const (
	TagLen   = 16
	NonceLen = 12
	KeyLen   = 32
)

func gcm(key []byte) (cipher.AEAD, error) {
	if len(key) != KeyLen {
		return nil, fmt.Errorf("key is %d bytes, AES-256 needs %d", len(key), KeyLen)
	}
	b, err := aes.NewCipher(key)
	if err != nil {
		return nil, err
	}
	return cipher.NewGCMWithNonceSize(b, NonceLen)
}

// Seal encrypts plaintext under key with the given 12 byte nonce and lays the result out as documented.
func Seal(key, plaintext, nonce []byte) ([]byte, error) {
	g, err := gcm(key)
	if err != nil {
		return nil, err
	}
	if len(nonce) != NonceLen {
		return nil, errors.New("nonce must be 12 bytes")
	}
	out := g.Seal(nil, nonce, plaintext, nil) // ciphertext || tag
	return append(out, nonce...), nil
}

// Open cuts blob into ciphertext, tag and nonce by the documented sizes and decrypts it.
func Open(key, blob []byte) ([]byte, error) {
	if len(blob) < TagLen+NonceLen {
		return nil, fmt.Errorf("blob of %d bytes is shorter than tag+nonce", len(blob))
	}
	g, err := gcm(key)
	if err != nil {
		return nil, err
	}
	cut := len(blob) - NonceLen
	nonce, body := blob[cut:], blob[:cut]
	pt, err := g.Open(nil, nonce, body, nil)
	if err != nil {
		return nil, err
	}
	if pt == nil {
		pt = []byte{}
	}
	return pt, nil
}

// ---------------------------------------------------------------------------------------------------------------
// abstract records

// KeyRecord is an envelope key record as a reader sees it. Timestamps are kept as decimal literals.
type KeyRecord struct {
	Created        string
	Key            []byte // the encrypted key (decoded)
	KeyOK          bool   // Key was present and decodable
	HasParent      bool
	ParentID       string
	ParentCreated  string
	RevokedPresent bool
	Revoked        bool
}

// DataRow is a data row record as a reader sees it.
type DataRow struct {
	Key    KeyRecord
	Data   []byte
	DataOK bool
}

// Doc is a document tree flattened to "path:primitive" leaves, in document order.
type Doc []string

func (d Doc) Sorted() []string {
	out := append([]string{}, d...)
	sort.Strings(out)
	return out
}

// Report collects byte-level layout violations found while parsing.
type Report struct{ Mismatch []string }

func (r *Report) add(format string, a ...interface{}) {
	r.Mismatch = append(r.Mismatch, fmt.Sprintf(format, a...))
}

// ---------------------------------------------------------------------------------------------------------------
// generic JSON tree (keeps number literals and field order, notices duplicate fields)

type jnode struct {
	kind   string // object string number true false null array
	str    string
	fields []jfield
}
type jfield struct {
	name string
	v    *jnode
}

func (n *jnode) get(name string) *jnode {
	if n == nil || n.kind != "object" {
		return nil
	}
	for _, f := range n.fields {
		if f.name == name {
			return f.v
		}
	}
	return nil
}

func parseJSON(b []byte) (*jnode, error) {
	dec := json.NewDecoder(bytes.NewReader(b))
	dec.UseNumber()
	n, err := parseJSONValue(dec)
	if err != nil {
		return nil, err
	}
	if _, err := dec.Token(); err != io.EOF {
		return nil, errors.New("trailing data after the JSON document")
	}
	return n, nil
}

func parseJSONValue(dec *json.Decoder) (*jnode, error) {
	t, err := dec.Token()
	if err != nil {
		return nil, err
	}
	switch v := t.(type) {
	case json.Delim:
		switch v {
		case '{':
			n := &jnode{kind: "object"}
			for dec.More() {
				kt, err := dec.Token()
				if err != nil {
					return nil, err
				}
				name, ok := kt.(string)
				if !ok {
					return nil, errors.New("object key is not a string")
				}
				val, err := parseJSONValue(dec)
				if err != nil {
					return nil, err
				}
				n.fields = append(n.fields, jfield{name, val})
			}
			if _, err := dec.Token(); err != nil {
				return nil, err
			}
			return n, nil
		case '[':
			n := &jnode{kind: "array"}
			for dec.More() {
				if _, err := parseJSONValue(dec); err != nil {
					return nil, err
				}
			}
			if _, err := dec.Token(); err != nil {
				return nil, err
			}
			return n, nil
		}
		return nil, fmt.Errorf("unexpected delimiter %v", v)
	case string:
		return &jnode{kind: "string", str: v}, nil
	case json.Number:
		return &jnode{kind: "number", str: v.String()}, nil
	case bool:
		if v {
			return &jnode{kind: "true"}, nil
		}
		return &jnode{kind: "false"}, nil
	case nil:
		return &jnode{kind: "null"}, nil
	}
	return nil, fmt.Errorf("unexpected token %v", t)
}

func path(pfx, name string) string {
	if pfx == "" {
		return name
	}
	return pfx + "." + name
}

func (n *jnode) leaves(pfx string, doc *Doc, rep *Report) {
	seen := map[string]bool{}
	for _, f := range n.fields {
		p := path(pfx, f.name)
		if seen[f.name] {
			rep.add("json-duplicate-field:%s", p)
			continue
		}
		seen[f.name] = true
		*doc = append(*doc, p+":"+f.v.kind)
		if f.v.kind == "object" {
			f.v.leaves(p, doc, rep)
		}
	}
}

var intLiteral = regexp.MustCompile(`^(0|[1-9][0-9]*)$`)

func jsonInt(n *jnode, p string, rep *Report) string {
	if n == nil || n.kind != "number" {
		return ""
	}
	if !intLiteral.MatchString(n.str) {
		rep.add("int-literal:%s", p) // e.g. 1.5345e9 or -1: a reader expecting epoch seconds as an integer cannot take it
	}
	return n.str
}

func jsonBytes(n *jnode, p string, rep *Report) ([]byte, bool) {
	if n == nil || n.kind != "string" {
		return nil, false
	}
	b, err := base64.StdEncoding.DecodeString(n.str)
	if err != nil {
		rep.add("base64:%s", p)
		return nil, false
	}
	return b, true
}

func keyRecordFromJSON(n *jnode, pfx string, rep *Report) KeyRecord {
	var k KeyRecord
	k.Created = jsonInt(n.get("Created"), path(pfx, "Created"), rep)
	k.Key, k.KeyOK = jsonBytes(n.get("Key"), path(pfx, "Key"), rep)
	if m := n.get("ParentKeyMeta"); m != nil && m.kind == "object" {
		k.HasParent = true
		if id := m.get("KeyId"); id != nil && id.kind == "string" {
			k.ParentID = id.str
		}
		k.ParentCreated = jsonInt(m.get("Created"), path(path(pfx, "ParentKeyMeta"), "Created"), rep)
	}
	if r := n.get("Revoked"); r != nil {
		k.RevokedPresent = true
		k.Revoked = r.kind == "true"
	}
	return k
}

// ReadKeyRecordJSON parses the JSON text of an envelope key record (metastore value).
func ReadKeyRecordJSON(b []byte) (KeyRecord, Doc, *Report) {
	rep := &Report{}
	doc := Doc{}
	n, err := parseJSON(b)
	if err != nil || n.kind != "object" {
		rep.add("json-syntax:key-record")
		return KeyRecord{}, doc, rep
	}
	n.leaves("", &doc, rep)
	return keyRecordFromJSON(n, "", rep), doc, rep
}

// ReadDataRowJSON parses the JSON text of a data row record.
func ReadDataRowJSON(b []byte) (DataRow, Doc, *Report) {
	rep := &Report{}
	doc := Doc{}
	n, err := parseJSON(b)
	if err != nil || n.kind != "object" {
		rep.add("json-syntax:data-row-record")
		return DataRow{}, doc, rep
	}
	n.leaves("", &doc, rep)
	var d DataRow
	if k := n.get("Key"); k != nil && k.kind == "object" {
		d.Key = keyRecordFromJSON(k, "Key", rep)
	}
	d.Data, d.DataOK = jsonBytes(n.get("Data"), "Data", rep)
	return d, doc, rep
}

// ---- JSON writers: documentation order (Created, Key, ParentKeyMeta, Revoked only when true); pretty selects an
// indented rendering, which any JSON reader has to accept just as well.

func jstr(s string) string {
	b, _ := json.Marshal(s)
	return string(b)
}

func keyRecordJSON(k KeyRecord, nl, ind string, depth int) string {
	in := func(d int) string {
		if nl == "" {
			return ""
		}
		return nl + strings.Repeat(ind, d)
	}
	sp := ""
	if nl != "" {
		sp = " "
	}
	var parts []string
	parts = append(parts, `"Created":`+sp+k.Created)
	parts = append(parts, `"Key":`+sp+jstr(base64.StdEncoding.EncodeToString(k.Key)))
	if k.HasParent {
		parts = append(parts, `"ParentKeyMeta":`+sp+"{"+in(depth+2)+`"KeyId":`+sp+jstr(k.ParentID)+","+in(depth+2)+
			`"Created":`+sp+k.ParentCreated+in(depth+1)+"}")
	}
	if k.Revoked {
		parts = append(parts, `"Revoked":`+sp+"true")
	}
	return "{" + in(depth+1) + strings.Join(parts, ","+in(depth+1)) + in(depth) + "}"
}

// WriteKeyRecordJSON renders an envelope key record as the metastore value.
func WriteKeyRecordJSON(k KeyRecord, pretty bool) []byte {
	if pretty {
		return []byte(keyRecordJSON(k, "\n", "  ", 0))
	}
	return []byte(keyRecordJSON(k, "", "", 0))
}

// WriteDataRowJSON renders a data row record.
func WriteDataRowJSON(d DataRow, pretty bool) []byte {
	data := jstr(base64.StdEncoding.EncodeToString(d.Data))
	if pretty {
		return []byte("{\n  \"Key\": " + keyRecordJSON(d.Key, "\n", "  ", 1) + ",\n  \"Data\": " + data + "\n}\n")
	}
	return []byte(`{"Key":` + keyRecordJSON(d.Key, "", "", 0) + `,"Data":` + data + `}`)
}

// ---------------------------------------------------------------------------------------------------------------
// DynamoDB items. Attr is one attribute value in DynamoDB's own JSON representation ({"S": "..."}, {"N": "123"},
// {"M": {...}}, {"BOOL": true}), which is also what travels on the wire.

type Attr struct {
	S    *string          `json:"S,omitempty"`
	N    *string          `json:"N,omitempty"`
	B    []byte           `json:"B,omitempty"`
	BOOL *bool            `json:"BOOL,omitempty"`
	NULL *bool            `json:"NULL,omitempty"`
	M    map[string]*Attr `json:"M,omitempty"`
	L    []*Attr          `json:"L,omitempty"`
	SS   []string         `json:"SS,omitempty"`
	NS   []string         `json:"NS,omitempty"`
	BS   [][]byte         `json:"BS,omitempty"`
}

type Item = map[string]*Attr

func AttrS(s string) *Attr  { return &Attr{S: &s} }
func AttrN(n string) *Attr  { return &Attr{N: &n} }
func AttrBool(b bool) *Attr { return &Attr{BOOL: &b} }

func (a *Attr) prim() string {
	switch {
	case a == nil:
		return "absent"
	case a.S != nil:
		return "S"
	case a.N != nil:
		return "N"
	case a.BOOL != nil:
		return "BOOL:" + strconv.FormatBool(*a.BOOL)
	case a.M != nil:
		return "M"
	case a.NULL != nil:
		return "NULL"
	case a.B != nil:
		return "B"
	case a.L != nil:
		return "L"
	case a.SS != nil:
		return "SS"
	case a.NS != nil:
		return "NS"
	case a.BS != nil:
		return "BS"
	}
	return "empty"
}

func attrLeaves(m map[string]*Attr, pfx string, doc *Doc) {
	names := make([]string, 0, len(m))
	for k := range m {
		names = append(names, k)
	}
	sort.Strings(names)
	for _, k := range names {
		p := path(pfx, k)
		*doc = append(*doc, p+":"+m[k].prim())
		if m[k] != nil && m[k].M != nil {
			attrLeaves(m[k].M, p, doc)
		}
	}
}

func attrInt(a *Attr, p string, rep *Report) string {
	if a == nil || a.N == nil {
		return ""
	}
	if !intLiteral.MatchString(*a.N) {
		rep.add("int-literal:%s", p)
	}
	return *a.N
}

// ReadItem parses a metastore item: Id (S), Created (N), KeyRecord (M: Created N, Key S base64, ParentKeyMeta M, Revoked BOOL).
func ReadItem(it Item) (id, created string, k KeyRecord, doc Doc, rep *Report) {
	rep = &Report{}
	doc = Doc{}
	attrLeaves(it, "", &doc)
	if a := it["Id"]; a != nil && a.S != nil {
		id = *a.S
	}
	created = attrInt(it["Created"], "Created", rep)
	kr := it["KeyRecord"]
	if kr == nil || kr.M == nil {
		return
	}
	m := kr.M
	k.Created = attrInt(m["Created"], "KeyRecord.Created", rep)
	if a := m["Key"]; a != nil && a.S != nil {
		b, err := base64.StdEncoding.DecodeString(*a.S)
		if err != nil {
			rep.add("base64:KeyRecord.Key")
		} else {
			k.Key, k.KeyOK = b, true
		}
	}
	if p := m["ParentKeyMeta"]; p != nil && p.M != nil {
		k.HasParent = true
		if a := p.M["KeyId"]; a != nil && a.S != nil {
			k.ParentID = *a.S
		}
		k.ParentCreated = attrInt(p.M["Created"], "KeyRecord.ParentKeyMeta.Created", rep)
	}
	if r := m["Revoked"]; r != nil {
		k.RevokedPresent = true
		k.Revoked = r.BOOL != nil && *r.BOOL
	}
	return
}

// WriteItem builds the metastore item of a key row.
func WriteItem(id, created string, k KeyRecord) Item {
	rec := map[string]*Attr{
		"Created": AttrN(k.Created),
		"Key":     AttrS(base64.StdEncoding.EncodeToString(k.Key)),
	}
	if k.HasParent {
		rec["ParentKeyMeta"] = &Attr{M: map[string]*Attr{"KeyId": AttrS(k.ParentID), "Created": AttrN(k.ParentCreated)}}
	}
	if k.Revoked {
		rec["Revoked"] = AttrBool(true)
	}
	return Item{"Id": AttrS(id), "Created": AttrN(created), "KeyRecord": &Attr{M: rec}}
}

// ---------------------------------------------------------------------------------------------------------------
// protobuf (appencryption.proto), proto3 wire format:
//
//	DataRowRecord      { EnvelopeKeyRecord key = 1; bytes data = 2; }
//	EnvelopeKeyRecord  { int64 created = 1; bytes key = 2; KeyMeta parent_key_meta = 3; }
//	KeyMeta            { int64 created = 1; string key_id = 2; }

type pfield struct {
	num  int
	wt   int // 0 varint, 1 i64, 2 len, 5 i32
	u    uint64
	body []byte
}

func uvarint(b []byte) (uint64, int) {
	var x uint64
	for i := 0; i < len(b) && i < 10; i++ {
		x |= uint64(b[i]&0x7f) << (7 * uint(i))
		if b[i] < 0x80 {
			return x, i + 1
		}
	}
	return 0, 0
}

func protoFields(b []byte) ([]pfield, error) {
	var out []pfield
	for len(b) > 0 {
		tag, n := uvarint(b)
		if n == 0 {
			return nil, errors.New("bad tag")
		}
		b = b[n:]
		f := pfield{num: int(tag >> 3), wt: int(tag & 7)}
		switch f.wt {
		case 0:
			v, n := uvarint(b)
			if n == 0 {
				return nil, errors.New("bad varint")
			}
			f.u, b = v, b[n:]
		case 1:
			if len(b) < 8 {
				return nil, errors.New("short i64")
			}
			b = b[8:]
		case 5:
			if len(b) < 4 {
				return nil, errors.New("short i32")
			}
			b = b[4:]
		case 2:
			l, n := uvarint(b)
			if n == 0 || uint64(len(b)-n) < l {
				return nil, errors.New("bad length")
			}
			f.body, b = b[n:n+int(l)], b[n+int(l):]
		default:
			return nil, fmt.Errorf("unsupported wire type %d", f.wt)
		}
		out = append(out, f)
	}
	return out, nil
}

var wtName = map[int]string{0: "varint", 1: "i64", 2: "len", 5: "i32"}

type pschema struct {
	names map[int]string
	sub   map[int]*pschema
}

var (
	metaSchema = &pschema{names: map[int]string{1: "created", 2: "key_id"}}
	ekrSchema  = &pschema{names: map[int]string{1: "created", 2: "key", 3: "parent_key_meta"}, sub: map[int]*pschema{3: metaSchema}}
	drrSchema  = &pschema{names: map[int]string{1: "key", 2: "data"}, sub: map[int]*pschema{1: ekrSchema}}
)

// walk returns the last occurrence of every field (proto3 "last one wins") and records the leaves.
func protoWalk(b []byte, s *pschema, pfx string, doc *Doc, rep *Report) map[string]pfield {
	fs, err := protoFields(b)
	if err != nil {
		rep.add("proto-syntax:%s", pfx)
		return nil
	}
	out := map[string]pfield{}
	seen := map[int]bool{}
	for _, f := range fs {
		name, ok := s.names[f.num]
		if !ok {
			name = "#" + strconv.Itoa(f.num)
		}
		p := path(pfx, name)
		if !seen[f.num] {
			*doc = append(*doc, p+":"+wtName[f.wt])
		}
		seen[f.num] = true
		out[name] = f
	}
	return out
}

// ReadDataRowProto parses a serialized DataRowRecord message.
func ReadDataRowProto(b []byte) (DataRow, Doc, *Report) {
	rep := &Report{}
	doc := Doc{}
	var d DataRow
	top := protoWalk(b, drrSchema, "", &doc, rep)
	if f, ok := top["data"]; ok && f.wt == 2 {
		d.Data, d.DataOK = f.body, true
	}
	if kf, ok := top["key"]; ok && kf.wt == 2 {
		// document order: put the nested leaves right after their parent is not required; TLC compares sets
		ek := protoWalk(kf.body, ekrSchema, "key", &doc, rep)
		if f, ok := ek["created"]; ok && f.wt == 0 {
			d.Key.Created = strconv.FormatInt(int64(f.u), 10)
		}
		if f, ok := ek["key"]; ok && f.wt == 2 {
			d.Key.Key, d.Key.KeyOK = f.body, true
		}
		if mf, ok := ek["parent_key_meta"]; ok && mf.wt == 2 {
			d.Key.HasParent = true
			m := protoWalk(mf.body, metaSchema, "key.parent_key_meta", &doc, rep)
			if f, ok := m["created"]; ok && f.wt == 0 {
				d.Key.ParentCreated = strconv.FormatInt(int64(f.u), 10)
			}
			if f, ok := m["key_id"]; ok && f.wt == 2 {
				d.Key.ParentID = string(f.body)
			}
		}
	}
	return d, doc, rep
}

func putUvarint(b []byte, x uint64) []byte {
	for x >= 0x80 {
		b = append(b, byte(x)|0x80)
		x >>= 7
	}
	return append(b, byte(x))
}

func putLen(b []byte, num int, body []byte) []byte {
	b = putUvarint(b, uint64(num<<3|2))
	b = putUvarint(b, uint64(len(body)))
	return append(b, body...)
}

func putInt(b []byte, num int, dec string) []byte {
	v, _ := strconv.ParseInt(dec, 10, 64)
	if v == 0 {
		return b // proto3: default values are not written
	}
	b = putUvarint(b, uint64(num<<3|0))
	return putUvarint(b, uint64(v))
}

// WriteDataRowProto serializes a DataRowRecord message.
func WriteDataRowProto(d DataRow) []byte {
	var meta []byte
	meta = putInt(meta, 1, d.Key.ParentCreated)
	meta = putLen(meta, 2, []byte(d.Key.ParentID))
	var ekr []byte
	ekr = putInt(ekr, 1, d.Key.Created)
	ekr = putLen(ekr, 2, d.Key.Key)
	ekr = putLen(ekr, 3, meta)
	var out []byte
	out = putLen(out, 1, ekr)
	out = putLen(out, 2, d.Data)
	return out
}

// UnwrapEncryptResponse takes a serialized SessionResponse and returns the bytes of the DataRowRecord inside
//
//	SessionResponse { oneof response { EncryptResponse encrypt_response = 1; ... } }   EncryptResponse { DataRowRecord data_row_record = 1; }
func UnwrapEncryptResponse(b []byte) ([]byte, error) { return unwrap(b, 1, 1) }

// UnwrapDecryptRequest returns the bytes of the DataRowRecord inside a serialized SessionRequest (decrypt = 2, data_row_record = 1).
func UnwrapDecryptRequest(b []byte) ([]byte, error) { return unwrap(b, 2, 1) }

func unwrap(b []byte, nums ...int) ([]byte, error) {
	for _, num := range nums {
		fs, err := protoFields(b)
		if err != nil {
			return nil, err
		}
		var body []byte
		found := false
		for _, f := range fs {
			if f.num == num && f.wt == 2 {
				body, found = f.body, true
			}
		}
		if !found {
			return nil, fmt.Errorf("no length-delimited field %d in the message", num)
		}
		b = body
	}
	return b, nil
}

// WrapDecryptRequest builds a serialized SessionRequest asking to decrypt the given serialized DataRowRecord
//
//	SessionRequest { oneof request { Encrypt encrypt = 1; Decrypt decrypt = 2; GetSession get_session = 3; } }   Decrypt { DataRowRecord data_row_record = 1; }
func WrapDecryptRequest(drr []byte) []byte {
	return putLen(nil, 2, putLen(nil, 1, drr))
}

// ---------------------------------------------------------------------------------------------------------------
// the key hierarchy

// Walk is what the documentation-derived reader achieves on one record.
type Walk struct {
	OpenSK, OpenIK, OpenDRK, OpenData bool
	SKLen, IKLen, DRKLen              int // plaintext key lengths recovered
	Payload                           []byte
	Err                               string
}

// Decrypt walks master key -> system key -> intermediate key -> data row key -> payload.
func Decrypt(master, skBlob, ikBlob, drkBlob, data []byte) Walk {
	var w Walk
	sk, err := Open(master, skBlob)
	if err != nil {
		w.Err = "system key: " + err.Error()
		return w
	}
	w.OpenSK, w.SKLen = true, len(sk)
	ik, err := Open(sk, ikBlob)
	if err != nil {
		w.Err = "intermediate key: " + err.Error()
		return w
	}
	w.OpenIK, w.IKLen = true, len(ik)
	drk, err := Open(ik, drkBlob)
	if err != nil {
		w.Err = "data row key: " + err.Error()
		return w
	}
	w.OpenDRK, w.DRKLen = true, len(drk)
	pt, err := Open(drk, data)
	if err != nil {
		w.Err = "payload: " + err.Error()
		return w
	}
	w.OpenData, w.Payload = true, pt
	return w
}
