package wiredrv

// Fakes at the external boundary of the SDK for the wire-format engine. They are deliberately lenient about HOW the SDK
// talks to its backend (statement text, expressions): they capture what is stored and serve it back, because the
// engine is about the LAYOUT of what is stored. (The backend contract itself is property C13, engine msdrv.)
//
//	ddb        one set of DynamoDB tables holding items in DynamoDB's own attribute-value JSON form (refcodec.Attr)
//	v1Client   aws-sdk-go    client fake over ddb   (plugins/aws-v1/persistence.DynamoDBClientAPI)
//	v2Client   aws-sdk-go-v2 client fake over ddb   (plugins/aws-v2/dynamodb/metastore.DynamoDBClient)
//	ddb.ServeHTTP  the DynamoDB JSON 1.0 protocol over HTTP on localhost, for the sidecar's own "dynamodb" metastore mode
//	sqlDB      a database/sql driver that keeps the encryption_key rows (id, created, key_record)

import (
	"context"
	"database/sql"
	"database/sql/driver"
	"encoding/json"
	"errors"
	"fmt"
	"io"
	"math/big"
	"net/http"
	"regexp"
	"sort"
	"strconv"
	"strings"
	"sync"
	"time"

	awsv2 "github.com/aws/aws-sdk-go-v2/aws"
	ddbv2 "github.com/aws/aws-sdk-go-v2/service/dynamodb"
	"github.com/aws/aws-sdk-go-v2/service/dynamodb/types"
	awsv1 "github.com/aws/aws-sdk-go/aws"
	"github.com/aws/aws-sdk-go/aws/request"
	ddbv1 "github.com/aws/aws-sdk-go/service/dynamodb"
	"github.com/aws/smithy-go"

	"verif.local/harness/drivers/wiredrv/refcodec"
)

// ---------------------------------------------------------------------------------------------------------------
// tables

type ddbTable struct {
	rows map[string]refcodec.Item // primary key: Id + 0 + Created
}

type ddb struct {
	mu     sync.Mutex
	tables map[string]*ddbTable
}

func newDDB() *ddb { return &ddb{tables: map[string]*ddbTable{}} }

type ddbError struct{ code, msg string }

func (e *ddbError) Error() string { return e.code + ": " + e.msg }

func cloneAttr(a *refcodec.Attr) *refcodec.Attr {
	if a == nil {
		return nil
	}
	b, _ := json.Marshal(a)
	var c refcodec.Attr
	_ = json.Unmarshal(b, &c)
	return &c
}

func cloneItem(it refcodec.Item) refcodec.Item {
	if it == nil {
		return nil
	}
	c := make(refcodec.Item, len(it))
	for k, v := range it {
		c[k] = cloneAttr(v)
	}
	return c
}

func (d *ddb) table(name string) *ddbTable {
	t, ok := d.tables[name]
	if !ok {
		t = &ddbTable{rows: map[string]refcodec.Item{}}
		d.tables[name] = t
	}
	return t
}

func (d *ddb) drop(name string) {
	d.mu.Lock()
	delete(d.tables, name)
	d.mu.Unlock()
}

func primaryKey(it refcodec.Item) (string, *ddbError) {
	id, c := it["Id"], it["Created"]
	if id == nil || id.S == nil || c == nil || c.N == nil {
		return "", &ddbError{"ValidationException", "One or more parameter values were invalid: Missing the key Id (S) / Created (N) in the item"}
	}
	n, ok := new(big.Int).SetString(strings.TrimSpace(*c.N), 10)
	if !ok {
		return "", &ddbError{"ValidationException", "The parameter cannot be converted to a numeric value: " + *c.N}
	}
	return *id.S + "\x00" + n.String(), nil
}

func (d *ddb) put(table string, it refcodec.Item, ifAbsent bool) *ddbError {
	d.mu.Lock()
	defer d.mu.Unlock()
	k, e := primaryKey(it)
	if e != nil {
		return e
	}
	t := d.table(table)
	if _, exists := t.rows[k]; exists && ifAbsent {
		return &ddbError{"ConditionalCheckFailedException", "The conditional request failed"}
	}
	t.rows[k] = cloneItem(it)
	return nil
}

func (d *ddb) get(table string, key refcodec.Item) (refcodec.Item, *ddbError) {
	d.mu.Lock()
	defer d.mu.Unlock()
	k, e := primaryKey(key)
	if e != nil {
		return nil, e
	}
	return cloneItem(d.table(table).rows[k]), nil
}

func createdOf(it refcodec.Item) *big.Int {
	n, _ := new(big.Int).SetString(*it["Created"].N, 10)
	return n
}

// query returns the items of one hash key ordered by Created.
func (d *ddb) query(table, id string, forward bool, limit int) []refcodec.Item {
	d.mu.Lock()
	defer d.mu.Unlock()
	var out []refcodec.Item
	for _, it := range d.table(table).rows {
		if *it["Id"].S == id {
			out = append(out, cloneItem(it))
		}
	}
	sort.Slice(out, func(i, j int) bool {
		c := createdOf(out[i]).Cmp(createdOf(out[j]))
		if forward {
			return c < 0
		}
		return c > 0
	})
	if limit > 0 && len(out) > limit {
		out = out[:limit]
	}
	return out
}

// all returns every item of a table (for the reference reader), ordered by key.
func (d *ddb) all(table string) []refcodec.Item {
	d.mu.Lock()
	defer d.mu.Unlock()
	t := d.table(table)
	keys := make([]string, 0, len(t.rows))
	for k := range t.rows {
		keys = append(keys, k)
	}
	sort.Strings(keys)
	var out []refcodec.Item
	for _, k := range keys {
		out = append(out, cloneItem(t.rows[k]))
	}
	return out
}

func project(it refcodec.Item, proj *string, names map[string]string) refcodec.Item {
	if it == nil || proj == nil || strings.TrimSpace(*proj) == "" {
		return it
	}
	out := refcodec.Item{}
	for _, p := range strings.Split(*proj, ",") {
		p = strings.TrimSpace(p)
		if n, ok := names[p]; ok {
			p = n
		}
		if v, ok := it[p]; ok {
			out[p] = v
		}
	}
	return out
}

// hashKeyOf finds the partition key value of a Query: the string among the expression attribute values.
func hashKeyOf(vals map[string]*refcodec.Attr) (string, *ddbError) {
	for _, v := range vals {
		if v != nil && v.S != nil {
			return *v.S, nil
		}
	}
	return "", &ddbError{"ValidationException", "Query condition missed key schema element: Id"}
}

// ---------------------------------------------------------------------------------------------------------------
// aws-sdk-go (v1) client

type v1Client struct {
	d *ddb
}

func v1In(a *ddbv1.AttributeValue) *refcodec.Attr {
	if a == nil {
		return nil
	}
	o := &refcodec.Attr{S: a.S, N: a.N, BOOL: a.BOOL, NULL: a.NULL, B: a.B, BS: a.BS}
	if a.M != nil {
		o.M = map[string]*refcodec.Attr{}
		for k, v := range a.M {
			o.M[k] = v1In(v)
		}
	}
	for _, v := range a.L {
		o.L = append(o.L, v1In(v))
	}
	if a.SS != nil {
		o.SS = awsv1.StringValueSlice(a.SS)
	}
	if a.NS != nil {
		o.NS = awsv1.StringValueSlice(a.NS)
	}
	return cloneAttr(o)
}

func v1Out(a *refcodec.Attr) *ddbv1.AttributeValue {
	if a == nil {
		return nil
	}
	a = cloneAttr(a)
	o := &ddbv1.AttributeValue{S: a.S, N: a.N, BOOL: a.BOOL, NULL: a.NULL, B: a.B, BS: a.BS}
	if a.M != nil {
		o.M = map[string]*ddbv1.AttributeValue{}
		for k, v := range a.M {
			o.M[k] = v1Out(v)
		}
	}
	for _, v := range a.L {
		o.L = append(o.L, v1Out(v))
	}
	if a.SS != nil {
		o.SS = awsv1.StringSlice(a.SS)
	}
	if a.NS != nil {
		o.NS = awsv1.StringSlice(a.NS)
	}
	return o
}

func v1Item(m map[string]*ddbv1.AttributeValue) refcodec.Item {
	it := refcodec.Item{}
	for k, v := range m {
		it[k] = v1In(v)
	}
	return it
}

func v1ItemOut(it refcodec.Item) map[string]*ddbv1.AttributeValue {
	if it == nil {
		return nil
	}
	m := map[string]*ddbv1.AttributeValue{}
	for k, v := range it {
		m[k] = v1Out(v)
	}
	return m
}

func v1Names(m map[string]*string) map[string]string {
	o := map[string]string{}
	for k, v := range m {
		if v != nil {
			o[k] = *v
		}
	}
	return o
}

func v1Err(e *ddbError) error {
	switch e.code {
	case "ConditionalCheckFailedException":
		return &ddbv1.ConditionalCheckFailedException{Message_: awsv1.String(e.msg)}
	}
	return fmt.Errorf("%s", e.Error())
}

func (c *v1Client) PutItemWithContext(_ awsv1.Context, in *ddbv1.PutItemInput, _ ...request.Option) (*ddbv1.PutItemOutput, error) {
	if e := c.d.put(awsv1.StringValue(in.TableName), v1Item(in.Item), in.ConditionExpression != nil); e != nil {
		return nil, v1Err(e)
	}
	return &ddbv1.PutItemOutput{}, nil
}

func (c *v1Client) GetItemWithContext(_ awsv1.Context, in *ddbv1.GetItemInput, _ ...request.Option) (*ddbv1.GetItemOutput, error) {
	it, e := c.d.get(awsv1.StringValue(in.TableName), v1Item(in.Key))
	if e != nil {
		return nil, v1Err(e)
	}
	return &ddbv1.GetItemOutput{Item: v1ItemOut(project(it, in.ProjectionExpression, v1Names(in.ExpressionAttributeNames)))}, nil
}

func (c *v1Client) QueryWithContext(_ awsv1.Context, in *ddbv1.QueryInput, _ ...request.Option) (*ddbv1.QueryOutput, error) {
	id, e := hashKeyOf(v1Item(in.ExpressionAttributeValues))
	if e != nil {
		return nil, v1Err(e)
	}
	fwd := in.ScanIndexForward == nil || *in.ScanIndexForward
	items := c.d.query(awsv1.StringValue(in.TableName), id, fwd, int(awsv1.Int64Value(in.Limit)))
	out := &ddbv1.QueryOutput{Items: []map[string]*ddbv1.AttributeValue{}, Count: awsv1.Int64(int64(len(items)))}
	for _, it := range items {
		out.Items = append(out.Items, v1ItemOut(project(it, in.ProjectionExpression, v1Names(in.ExpressionAttributeNames))))
	}
	return out, nil
}

// ---------------------------------------------------------------------------------------------------------------
// aws-sdk-go-v2 client

type v2Client struct {
	d      *ddb
	region string
}

func v2In(a types.AttributeValue) *refcodec.Attr {
	switch x := a.(type) {
	case *types.AttributeValueMemberS:
		return refcodec.AttrS(x.Value)
	case *types.AttributeValueMemberN:
		return refcodec.AttrN(x.Value)
	case *types.AttributeValueMemberBOOL:
		return refcodec.AttrBool(x.Value)
	case *types.AttributeValueMemberNULL:
		v := x.Value
		return &refcodec.Attr{NULL: &v}
	case *types.AttributeValueMemberB:
		return &refcodec.Attr{B: append([]byte{}, x.Value...)}
	case *types.AttributeValueMemberM:
		o := &refcodec.Attr{M: map[string]*refcodec.Attr{}}
		for k, v := range x.Value {
			o.M[k] = v2In(v)
		}
		return o
	case *types.AttributeValueMemberL:
		o := &refcodec.Attr{L: []*refcodec.Attr{}}
		for _, v := range x.Value {
			o.L = append(o.L, v2In(v))
		}
		return o
	case *types.AttributeValueMemberSS:
		return &refcodec.Attr{SS: append([]string{}, x.Value...)}
	case *types.AttributeValueMemberNS:
		return &refcodec.Attr{NS: append([]string{}, x.Value...)}
	case *types.AttributeValueMemberBS:
		return &refcodec.Attr{BS: x.Value}
	}
	return &refcodec.Attr{}
}

func v2Out(a *refcodec.Attr) types.AttributeValue {
	switch {
	case a == nil:
		return nil
	case a.S != nil:
		return &types.AttributeValueMemberS{Value: *a.S}
	case a.N != nil:
		return &types.AttributeValueMemberN{Value: *a.N}
	case a.BOOL != nil:
		return &types.AttributeValueMemberBOOL{Value: *a.BOOL}
	case a.NULL != nil:
		return &types.AttributeValueMemberNULL{Value: *a.NULL}
	case a.M != nil:
		m := map[string]types.AttributeValue{}
		for k, v := range a.M {
			m[k] = v2Out(v)
		}
		return &types.AttributeValueMemberM{Value: m}
	case a.L != nil:
		var l []types.AttributeValue
		for _, v := range a.L {
			l = append(l, v2Out(v))
		}
		return &types.AttributeValueMemberL{Value: l}
	case a.B != nil:
		return &types.AttributeValueMemberB{Value: append([]byte{}, a.B...)}
	case a.SS != nil:
		return &types.AttributeValueMemberSS{Value: append([]string{}, a.SS...)}
	case a.NS != nil:
		return &types.AttributeValueMemberNS{Value: append([]string{}, a.NS...)}
	case a.BS != nil:
		return &types.AttributeValueMemberBS{Value: a.BS}
	}
	return nil
}

func v2Item(m map[string]types.AttributeValue) refcodec.Item {
	it := refcodec.Item{}
	for k, v := range m {
		it[k] = v2In(v)
	}
	return it
}

func v2ItemOut(it refcodec.Item) map[string]types.AttributeValue {
	if it == nil {
		return nil
	}
	m := map[string]types.AttributeValue{}
	for k, v := range it {
		m[k] = v2Out(v)
	}
	return m
}

func v2Err(op string, e *ddbError) error {
	var inner error
	switch e.code {
	case "ConditionalCheckFailedException":
		inner = &types.ConditionalCheckFailedException{Message: awsv2.String(e.msg)}
	default:
		inner = &smithy.GenericAPIError{Code: e.code, Message: e.msg, Fault: smithy.FaultClient}
	}
	return &smithy.OperationError{ServiceID: "DynamoDB", OperationName: op, Err: inner}
}

func (c *v2Client) Options() ddbv2.Options { return ddbv2.Options{Region: c.region} }

func (c *v2Client) PutItem(_ context.Context, in *ddbv2.PutItemInput, _ ...func(*ddbv2.Options)) (*ddbv2.PutItemOutput, error) {
	if e := c.d.put(awsv2.ToString(in.TableName), v2Item(in.Item), in.ConditionExpression != nil); e != nil {
		return nil, v2Err("PutItem", e)
	}
	return &ddbv2.PutItemOutput{}, nil
}

func (c *v2Client) GetItem(_ context.Context, in *ddbv2.GetItemInput, _ ...func(*ddbv2.Options)) (*ddbv2.GetItemOutput, error) {
	it, e := c.d.get(awsv2.ToString(in.TableName), v2Item(in.Key))
	if e != nil {
		return nil, v2Err("GetItem", e)
	}
	return &ddbv2.GetItemOutput{Item: v2ItemOut(project(it, in.ProjectionExpression, in.ExpressionAttributeNames))}, nil
}

func (c *v2Client) Query(_ context.Context, in *ddbv2.QueryInput, _ ...func(*ddbv2.Options)) (*ddbv2.QueryOutput, error) {
	id, e := hashKeyOf(v2Item(in.ExpressionAttributeValues))
	if e != nil {
		return nil, v2Err("Query", e)
	}
	fwd := in.ScanIndexForward == nil || *in.ScanIndexForward
	items := c.d.query(awsv2.ToString(in.TableName), id, fwd, int(awsv2.ToInt32(in.Limit)))
	out := &ddbv2.QueryOutput{Items: []map[string]types.AttributeValue{}, Count: int32(len(items))}
	for _, it := range items {
		out.Items = append(out.Items, v2ItemOut(project(it, in.ProjectionExpression, in.ExpressionAttributeNames)))
	}
	return out, nil
}

// ---------------------------------------------------------------------------------------------------------------
// DynamoDB JSON protocol over HTTP (what any DynamoDB client, in any language, puts on the wire)

type wireRequest struct {
	TableName                 string
	Item                      refcodec.Item
	Key                       refcodec.Item
	ConditionExpression       *string
	ProjectionExpression      *string
	KeyConditionExpression    *string
	ExpressionAttributeNames  map[string]string
	ExpressionAttributeValues map[string]*refcodec.Attr
	Limit                     *int
	ScanIndexForward          *bool
}

func (d *ddb) ServeHTTP(w http.ResponseWriter, r *http.Request) {
	body, _ := io.ReadAll(r.Body)
	op := r.Header.Get("X-Amz-Target")
	if i := strings.LastIndex(op, "."); i >= 0 {
		op = op[i+1:]
	}
	fail := func(e *ddbError) {
		w.Header().Set("Content-Type", "application/x-amz-json-1.0")
		w.WriteHeader(400)
		b, _ := json.Marshal(map[string]string{"__type": "com.amazonaws.dynamodb.v20120810#" + e.code, "message": e.msg})
		w.Write(b)
	}
	var in wireRequest
	if err := json.Unmarshal(body, &in); err != nil {
		fail(&ddbError{"SerializationException", err.Error()})
		return
	}
	var out interface{}
	switch op {
	case "PutItem":
		if e := d.put(in.TableName, in.Item, in.ConditionExpression != nil); e != nil {
			fail(e)
			return
		}
		out = map[string]interface{}{}
	case "GetItem":
		it, e := d.get(in.TableName, in.Key)
		if e != nil {
			fail(e)
			return
		}
		if it == nil {
			out = map[string]interface{}{}
		} else {
			out = map[string]interface{}{"Item": project(it, in.ProjectionExpression, in.ExpressionAttributeNames)}
		}
	case "Query":
		id, e := hashKeyOf(in.ExpressionAttributeValues)
		if e != nil {
			fail(e)
			return
		}
		limit := 0
		if in.Limit != nil {
			limit = *in.Limit
		}
		items := d.query(in.TableName, id, in.ScanIndexForward == nil || *in.ScanIndexForward, limit)
		res := []refcodec.Item{}
		for _, it := range items {
			res = append(res, project(it, in.ProjectionExpression, in.ExpressionAttributeNames))
		}
		out = map[string]interface{}{"Items": res, "Count": len(res), "ScannedCount": len(res)}
	default:
		fail(&ddbError{"UnknownOperationException", "operation " + op + " is not supported by the fake"})
		return
	}
	w.Header().Set("Content-Type", "application/x-amz-json-1.0")
	b, _ := json.Marshal(out)
	w.Write(b)
}

// ---------------------------------------------------------------------------------------------------------------
// database/sql driver keeping the documented table  encryption_key (id VARCHAR, created TIMESTAMP, key_record TEXT)

type sqlRow struct {
	id      string
	created time.Time
	rec     string
}

type sqlDB struct {
	mu   sync.Mutex
	rows []sqlRow
}

const sqlDriverName = "verif-wiredrv-sql"

var (
	sqlOnce sync.Once
	sqlMu   sync.Mutex
	sqlDBs  = map[string]*sqlDB{}
	sqlSeq  int
)

type sqlDriver struct{}

func (sqlDriver) Open(dsn string) (driver.Conn, error) {
	sqlMu.Lock()
	defer sqlMu.Unlock()
	db, ok := sqlDBs[dsn]
	if !ok {
		return nil, fmt.Errorf("sql fake: unknown database %q", dsn)
	}
	return &sqlConn{db: db}, nil
}

func openSQL() (*sql.DB, *sqlDB, func(), error) {
	sqlOnce.Do(func() { sql.Register(sqlDriverName, sqlDriver{}) })
	sqlMu.Lock()
	sqlSeq++
	dsn := "db" + strconv.Itoa(sqlSeq)
	f := &sqlDB{}
	sqlDBs[dsn] = f
	sqlMu.Unlock()
	h, err := sql.Open(sqlDriverName, dsn)
	closer := func() {
		if h != nil {
			h.Close()
		}
		sqlMu.Lock()
		delete(sqlDBs, dsn)
		sqlMu.Unlock()
	}
	return h, f, closer, err
}

type sqlConn struct{ db *sqlDB }

func (c *sqlConn) Prepare(q string) (driver.Stmt, error) { return &sqlStmt{c: c, q: q}, nil }
func (c *sqlConn) Close() error                          { return nil }
func (c *sqlConn) Begin() (driver.Tx, error)             { return nil, errors.New("sql fake: no transactions") }

type sqlStmt struct {
	c *sqlConn
	q string
}

func (s *sqlStmt) Close() error  { return nil }
func (s *sqlStmt) NumInput() int { return -1 }
func (s *sqlStmt) Exec(args []driver.Value) (driver.Result, error) {
	return s.c.db.exec(s.q, args)
}
func (s *sqlStmt) Query(args []driver.Value) (driver.Rows, error) {
	return s.c.db.query(s.q, args)
}

var (
	insertRx = regexp.MustCompile(`(?is)^\s*insert\s+into\s+\S+\s*\(([^)]*)\)\s*values\s*\(`)
	selectRx = regexp.MustCompile(`(?is)^\s*select\s+(.*?)\s+from\s`)
	whereRx  = regexp.MustCompile(`(?i)\b(id|created)\s*=`)
	latestRx = regexp.MustCompile(`(?is)order\s+by\s+created\s+desc`)
)

func asText(v driver.Value) (string, bool) {
	switch x := v.(type) {
	case string:
		return x, true
	case []byte:
		return string(x), true
	}
	return "", false
}

func (d *sqlDB) exec(q string, args []driver.Value) (driver.Result, error) {
	d.mu.Lock()
	defer d.mu.Unlock()
	m := insertRx.FindStringSubmatch(q)
	if m == nil {
		return nil, fmt.Errorf("sql fake: only INSERT INTO t (cols) VALUES (...) is supported: %q", q)
	}
	cols := strings.Split(m[1], ",")
	if len(cols) != len(args) {
		return nil, fmt.Errorf("sql fake: %d columns, %d values", len(cols), len(args))
	}
	var r sqlRow
	var haveID, haveCreated, haveRec bool
	for i, c := range cols {
		switch strings.ToLower(strings.TrimSpace(c)) {
		case "id":
			r.id, haveID = asText(args[i])
		case "created":
			r.created, haveCreated = args[i].(time.Time)
		case "key_record":
			r.rec, haveRec = asText(args[i])
		default:
			return nil, fmt.Errorf("sql fake: unknown column %q", c)
		}
	}
	if !haveID || !haveCreated || !haveRec {
		return nil, fmt.Errorf("sql fake: id (text), created (timestamp) and key_record (text) are NOT NULL: %v", args)
	}
	for _, e := range d.rows {
		if e.id == r.id && e.created.Equal(r.created) {
			return nil, fmt.Errorf("sql fake: duplicate entry for PRIMARY KEY (id, created)")
		}
	}
	d.rows = append(d.rows, r)
	return driver.RowsAffected(1), nil
}

type sqlRows struct {
	cols []string
	data [][]driver.Value
	i    int
}

func (r *sqlRows) Columns() []string { return r.cols }
func (r *sqlRows) Close() error      { return nil }
func (r *sqlRows) Next(dest []driver.Value) error {
	if r.i >= len(r.data) {
		return io.EOF
	}
	copy(dest, r.data[r.i])
	r.i++
	return nil
}

func (d *sqlDB) query(q string, args []driver.Value) (driver.Rows, error) {
	d.mu.Lock()
	defer d.mu.Unlock()
	m := selectRx.FindStringSubmatch(q)
	if m == nil {
		return nil, fmt.Errorf("sql fake: only SELECT cols FROM t ... is supported: %q", q)
	}
	var cols []string
	for _, c := range strings.Split(m[1], ",") {
		cols = append(cols, strings.ToLower(strings.TrimSpace(c)))
	}
	// equality predicates, in textual order, bound to the arguments in order
	var wantID *string
	var wantCreated *time.Time
	for i, w := range whereRx.FindAllStringSubmatch(q, -1) {
		if i >= len(args) {
			return nil, fmt.Errorf("sql fake: not enough arguments for %q", q)
		}
		switch strings.ToLower(w[1]) {
		case "id":
			s, ok := asText(args[i])
			if !ok {
				return nil, errors.New("sql fake: id compared with a non-text value")
			}
			wantID = &s
		case "created":
			t, ok := args[i].(time.Time)
			if !ok {
				return nil, errors.New("sql fake: created compared with a non-timestamp value")
			}
			wantCreated = &t
		}
	}
	var sel []sqlRow
	for _, r := range d.rows {
		if (wantID == nil || r.id == *wantID) && (wantCreated == nil || r.created.Equal(*wantCreated)) {
			sel = append(sel, r)
		}
	}
	if latestRx.MatchString(q) {
		sort.SliceStable(sel, func(i, j int) bool { return sel[i].created.After(sel[j].created) })
		if len(sel) > 1 {
			sel = sel[:1]
		}
	}
	out := &sqlRows{cols: cols}
	for _, r := range sel {
		var vals []driver.Value
		for _, c := range cols {
			switch c {
			case "id":
				vals = append(vals, r.id)
			case "created":
				vals = append(vals, r.created)
			case "key_record":
				vals = append(vals, []byte(r.rec))
			default:
				return nil, fmt.Errorf("sql fake: unknown column %q", c)
			}
		}
		out.data = append(out.data, vals)
	}
	return out, nil
}

func (d *sqlDB) insertRaw(id string, created time.Time, rec string) {
	d.mu.Lock()
	d.rows = append(d.rows, sqlRow{id, created, rec})
	d.mu.Unlock()
}

func (d *sqlDB) snapshot() []sqlRow {
	d.mu.Lock()
	defer d.mu.Unlock()
	return append([]sqlRow{}, d.rows...)
}
