// Package wiredrv binds spec/WireFormat.tla (property C18) to the real code. Every structural case printed by TLC is
// executed in the direction it names:
//
//	sdk-to-ref   the real SDK (SessionFactory / the sidecar's AppEncryption.Session, real metastore implementations over
//	             boundary fakes, kms.NewStatic, aead.NewAES256GCM) encrypts; the bytes it emitted on the channel are
//	             parsed by the documentation-derived reference codec (package refcodec, no SDK code) which then walks
//	             master key -> system key -> intermediate key -> data row key -> payload
//	ref-to-sdk   the reference codec fabricates the system key row, the intermediate key row and the data row record with
//	             its own AES-GCM in the documented layout, installs them through the channel, and the real SDK decrypts
//
// The driver only executes and records: one event per case carrying the document trees, ids, links and lengths that were
// really observed plus the outcome of the byte-level steps. Whether that is the documented layout is decided by TLC
// (spec/WireFormatTrace.tla).
package wiredrv

import (
	"bytes"
	"context"
	"encoding/json"
	"fmt"
	"io"
	"log"
	"math/rand"
	"net/http/httptest"
	"os"
	"runtime/debug"
	"strconv"
	"strings"
	"time"

	awsv1 "github.com/aws/aws-sdk-go/aws"
	"github.com/aws/aws-sdk-go/aws/credentials"
	"github.com/aws/aws-sdk-go/aws/session"
	"google.golang.org/grpc/encoding"
	_ "google.golang.org/grpc/encoding/proto" // registers the codec gRPC itself puts messages on the wire with
	"google.golang.org/grpc/mem"
	"google.golang.org/grpc/metadata"

	"github.com/godaddy/asherah/go/appencryption"
	"github.com/godaddy/asherah/go/appencryption/pkg/crypto/aead"
	"github.com/godaddy/asherah/go/appencryption/pkg/kms"
	"github.com/godaddy/asherah/go/appencryption/pkg/persistence"
	v1ms "github.com/godaddy/asherah/go/appencryption/plugins/aws-v1/persistence"
	v2ms "github.com/godaddy/asherah/go/appencryption/plugins/aws-v2/dynamodb/metastore"
	pb "github.com/godaddy/asherah/server/go/api"
	"github.com/godaddy/asherah/server/go/pkg/server"

	"verif.local/harness/drivers/wiredrv/refcodec"
	"verif.local/harness/vrt"
	"verif.local/harness/vutil"
)

// the static master key of the documentation (README quick start; the sidecar's --kms static uses the same one)
const masterKey = "thisIsAStaticMasterKeyForTesting"

const defaultRegion = "us-west-2"

// Case is one line printed by WireFormatGen.
type Case struct {
	Ch     string `json:"ch"`
	Dir    string `json:"dir"`
	Len    int    `json:"len"`
	Part   string `json:"part"`
	Svc    string `json:"svc"`
	Prod   string `json:"prod"`
	Region string `json:"region"`
	SKRev  bool   `json:"skrev"`
	IKRev  bool   `json:"ikrev"`
	Stamp  string `json:"stamp"`
	SKID   string `json:"skid"` // the ids the specification derives from the documentation (used by the reference writer)
	IKID   string `json:"ikid"`
	// frame: the KMS of this case appends that many bytes of its own to the ct|tag|nonce envelope of the system key (what a KMS
	// returns is opaque to the stored format - AWS KMS envelopes are JSON of any length). 0..2 walks through all base64 padding
	// classes of the system key row. Always 0 on the grpc channel (the sidecar builds its own static KMS).
	frame int
}

// framedKMS is the SDK's static KMS plus a trailer of n bytes.
type framedKMS struct {
	appencryption.KeyManagementService
	n int
}

func (k framedKMS) EncryptKey(ctx context.Context, key []byte) ([]byte, error) {
	b, err := k.KeyManagementService.EncryptKey(ctx, key)
	if err != nil {
		return nil, err
	}
	return append(b, frameBytes(k.n)...), nil
}

func (k framedKMS) DecryptKey(ctx context.Context, blob []byte) ([]byte, error) {
	if len(blob) < k.n || !bytes.Equal(blob[len(blob)-k.n:], frameBytes(k.n)) {
		return nil, fmt.Errorf("kms: trailer of %d bytes missing or altered (blob of %d bytes)", k.n, len(blob))
	}
	return k.KeyManagementService.DecryptKey(ctx, blob[:len(blob)-k.n])
}

func frameBytes(n int) []byte { return []byte{0xa5, 0x5a}[:n] }

// Event is what was observed for one case. Every field is always present so that the trace specification can name it.
type Event struct {
	E   string `json:"e"`
	Run int    `json:"run"`
	ID  int    `json:"id"`
	// the shape (echo of the case)
	Ch     string `json:"ch"`
	Dir    string `json:"dir"`
	Len    int    `json:"len"`
	Part   string `json:"part"`
	Svc    string `json:"svc"`
	Prod   string `json:"prod"`
	Region string `json:"region"`
	SKRev  bool   `json:"skrev"`
	IKRev  bool   `json:"ikrev"`
	Stamp  string `json:"stamp"`
	// document trees found on the channel ("path:primitive")
	SKDoc  []string `json:"sk_doc"`
	IKDoc  []string `json:"ik_doc"`
	DRRDoc []string `json:"drr_doc"`
	// where the rows are filed (SQL columns / DynamoDB key attributes / arguments of Metastore.Store) and what they say
	SKFound         bool   `json:"sk_found"`
	SKRowID         string `json:"sk_row_id"`
	SKRowCreated    string `json:"sk_row_created"`
	SKCreated       string `json:"sk_created"`
	IKFound         bool   `json:"ik_found"`
	IKRowID         string `json:"ik_row_id"`
	IKRowCreated    string `json:"ik_row_created"`
	IKCreated       string `json:"ik_created"`
	IKParentID      string `json:"ik_parent_id"`
	IKParentCreated string `json:"ik_parent_created"`
	DRRParentID     string `json:"drr_parent_id"`
	DRRParentCreate string `json:"drr_parent_created"`
	DRKCreated      string `json:"drk_created"`
	// blob lengths (decoded bytes)
	WriterRegion string `json:"writer_region"` // region suffix of the key ids in the rows (differs from the reader's on a cross-region read)
	KMSFrame     int    `json:"kms_frame"`     // bytes the case's KMS appends to the system key envelope
	SKBlobLen    int    `json:"sk_blob_len"`
	IKBlobLen    int    `json:"ik_blob_len"`
	DRKBlobLen   int    `json:"drk_blob_len"`
	DataLen      int    `json:"data_len"`
	// the reference reader's walk down the hierarchy (AES-256-GCM with ct, tag, nonce cut as documented)
	OpenSK       bool `json:"open_sk"`
	OpenIK       bool `json:"open_ik"`
	OpenDRK      bool `json:"open_drk"`
	OpenData     bool `json:"open_data"`
	SKLen        int  `json:"sk_len"`
	IKLen        int  `json:"ik_len"`
	DRKLen       int  `json:"drk_len"`
	PayloadMatch bool `json:"payload_match"`
	// the SDK side
	SDKOK    bool `json:"sdk_ok"`    // encrypt (sdk-to-ref) / decrypt (ref-to-sdk) returned without error
	SDKMatch bool `json:"sdk_match"` // ref-to-sdk: the SDK returned exactly the payload
	SDKSKRev bool `json:"sdk_sk_revoked"`
	SDKIKRev bool `json:"sdk_ik_revoked"`
	SDKRead  bool `json:"sdk_read"` // the SDK's Metastore.Load found both rows
	// sdk-to-ref with the harness clock overlay: the second the SDK was made to believe it is, and how far the stamps it
	// wrote are from it (seconds, clamped to +-10^9; TLC integers are 32 bit). "" = the clock was not driven.
	Clock    string `json:"clock"`
	DRKDelta int    `json:"drk_created_delta"`
	IKDelta  int    `json:"ik_created_delta"`
	SKDelta  int    `json:"sk_created_delta"`
	// byte-level violations noticed by the reference codec (base64, integer literals, syntax)
	Mismatch []string `json:"mismatch"`
	Err      string   `json:"err"`
}

type resetEvent struct {
	E   string `json:"e"`
	Run int    `json:"run"`
	ID  int    `json:"id"`
}

// ---------------------------------------------------------------------------------------------------------------
// channels: a key store as the SDK sees it (Metastore) and as the reference sees it (rows on the channel)

type rowObs struct {
	RowID, RowCreated string
	Rec               refcodec.KeyRecord
	Doc               refcodec.Doc
	Mismatch          []string
}

type store interface {
	metastore() appencryption.Metastore
	rows() []rowObs
	install(id, created string, rec refcodec.KeyRecord, pretty bool) error
	close()
}

// ---- json: encoding/json of the Go structs, rows kept by the in-memory metastore

type jsonStore struct {
	inner *persistence.MemoryMetastore
	emit  []struct {
		id      string
		created int64
		b       []byte
	}
}

type recordingMetastore struct{ s *jsonStore }

func (m recordingMetastore) Load(ctx context.Context, id string, created int64) (*appencryption.EnvelopeKeyRecord, error) {
	return m.s.inner.Load(ctx, id, created)
}
func (m recordingMetastore) LoadLatest(ctx context.Context, id string) (*appencryption.EnvelopeKeyRecord, error) {
	return m.s.inner.LoadLatest(ctx, id)
}
func (m recordingMetastore) Store(ctx context.Context, id string, created int64, ekr *appencryption.EnvelopeKeyRecord) (bool, error) {
	ok, err := m.s.inner.Store(ctx, id, created, ekr)
	if ok && err == nil {
		b, merr := json.Marshal(ekr) // the stored format of the record: encoding/json of appencryption.EnvelopeKeyRecord
		if merr != nil {
			return ok, merr
		}
		m.s.emit = append(m.s.emit, struct {
			id      string
			created int64
			b       []byte
		}{id, created, b})
	}
	return ok, err
}

func (s *jsonStore) metastore() appencryption.Metastore { return recordingMetastore{s} }
func (s *jsonStore) close()                             {}
func (s *jsonStore) rows() []rowObs {
	var out []rowObs
	for _, e := range s.emit {
		rec, doc, rep := refcodec.ReadKeyRecordJSON(e.b)
		out = append(out, rowObs{e.id, strconv.FormatInt(e.created, 10), rec, doc, rep.Mismatch})
	}
	return out
}
func (s *jsonStore) install(id, created string, rec refcodec.KeyRecord, pretty bool) error {
	b := refcodec.WriteKeyRecordJSON(rec, pretty)
	var ekr appencryption.EnvelopeKeyRecord
	if err := json.Unmarshal(b, &ekr); err != nil {
		return fmt.Errorf("encoding/json refuses the reference key record: %w", err)
	}
	c, _ := strconv.ParseInt(created, 10, 64)
	ok, err := s.inner.Store(context.Background(), id, c, &ekr)
	if err != nil || !ok {
		return fmt.Errorf("memory metastore refused the row: %v %v", ok, err)
	}
	s.emit = append(s.emit, struct {
		id      string
		created int64
		b       []byte
	}{id, c, b})
	return nil
}

// ---- sql: the key_record TEXT column written / read by persistence.SQLMetastore

type sqlStore struct {
	ms     *persistence.SQLMetastore
	db     *sqlDB
	closer func()
}

func (s *sqlStore) metastore() appencryption.Metastore { return s.ms }
func (s *sqlStore) close()                             { s.closer() }
func (s *sqlStore) rows() []rowObs {
	var out []rowObs
	for _, r := range s.db.snapshot() {
		rec, doc, rep := refcodec.ReadKeyRecordJSON([]byte(r.rec))
		out = append(out, rowObs{r.id, strconv.FormatInt(r.created.Unix(), 10), rec, doc, rep.Mismatch})
	}
	return out
}
func (s *sqlStore) install(id, created string, rec refcodec.KeyRecord, pretty bool) error {
	c, _ := strconv.ParseInt(created, 10, 64)
	s.db.insertRaw(id, time.Unix(c, 0), string(refcodec.WriteKeyRecordJSON(rec, pretty)))
	return nil
}

// ---- dynamodb: items of one table, reached through the v1 client fake, the v2 client fake, or over HTTP

type ddbStore struct {
	d     *ddb
	table string
	ms    appencryption.Metastore
}

func (s *ddbStore) metastore() appencryption.Metastore { return s.ms }
func (s *ddbStore) close()                             { s.d.drop(s.table) }
func (s *ddbStore) rows() []rowObs {
	var out []rowObs
	for _, it := range s.d.all(s.table) {
		id, created, rec, doc, rep := refcodec.ReadItem(it)
		out = append(out, rowObs{id, created, rec, doc, rep.Mismatch})
	}
	return out
}
func (s *ddbStore) install(id, created string, rec refcodec.KeyRecord, _ bool) error {
	if e := s.d.put(s.table, refcodec.WriteItem(id, created, rec), true); e != nil {
		return e
	}
	return nil
}

// ---------------------------------------------------------------------------------------------------------------

type env struct {
	clockDriven bool // the binary was built with the clock overlay: the SDK's time.Now is vrt.Now
	d           *ddb
	http        *httptest.Server
	v1sess      map[string]*session.Session // in-process fake: per region
	httpSess    map[string]*session.Session // real client over HTTP: per region
	seq         int
	rng         *rand.Rand
}

func newEnv(seed int64) *env {
	// the sidecar builds its AWS session from the environment: give it dummy credentials and keep it off the network
	os.Setenv("AWS_ACCESS_KEY_ID", "verif")
	os.Setenv("AWS_SECRET_ACCESS_KEY", "verif")
	os.Setenv("AWS_EC2_METADATA_DISABLED", "true")
	os.Setenv("AWS_CONFIG_FILE", os.DevNull)
	os.Setenv("AWS_SHARED_CREDENTIALS_FILE", os.DevNull)
	os.Unsetenv("AWS_PROFILE")
	os.Unsetenv("AWS_SESSION_TOKEN")
	log.SetOutput(io.Discard) // the sidecar logs every request
	e := &env{d: newDDB(), v1sess: map[string]*session.Session{}, httpSess: map[string]*session.Session{}, rng: rand.New(rand.NewSource(seed))}
	e.http = httptest.NewServer(e.d)
	return e
}

func (e *env) close() { e.http.Close() }

func regionOf(c *Case) string {
	if c.Region != "" {
		return c.Region
	}
	return defaultRegion
}

func (e *env) sessionV1(region string, overHTTP bool) (*session.Session, error) {
	m := e.v1sess
	cfg := &awsv1.Config{Region: awsv1.String(region), Credentials: credentials.NewStaticCredentials("verif", "verif", "")}
	if overHTTP {
		m = e.httpSess
		cfg.Endpoint = awsv1.String(e.http.URL)
		cfg.MaxRetries = awsv1.Int(0)
	}
	if s, ok := m[region]; ok {
		return s, nil
	}
	s, err := session.NewSession(cfg)
	if err != nil {
		return nil, err
	}
	m[region] = s
	return s, nil
}

// newStore builds a fresh, empty key store on the case's channel.
func (e *env) newStore(c *Case) (store, error) {
	e.seq++
	switch c.Ch {
	case "json":
		return &jsonStore{inner: persistence.NewMemoryMetastore()}, nil
	case "sql":
		h, f, closer, err := openSQL()
		if err != nil {
			return nil, err
		}
		return &sqlStore{ms: persistence.NewSQLMetastore(h), db: f, closer: closer}, nil
	case "ddbv1":
		table := "EncryptionKey" // the documented default table name
		d := newDDB()
		sess, err := e.sessionV1(regionOf(c), false)
		if err != nil {
			return nil, err
		}
		ms := v1ms.NewDynamoDBMetastore(sess, v1ms.WithDynamoDBRegionSuffix(c.Region != ""), v1ms.WithClient(&v1Client{d: d}))
		return &ddbStore{d: d, table: table, ms: ms}, nil
	case "ddbv2":
		table := "EncryptionKey"
		d := newDDB()
		ms, err := v2ms.NewDynamoDB(v2ms.WithRegionSuffix(c.Region != ""), v2ms.WithDynamoDBClient(&v2Client{d: d, region: regionOf(c)}))
		if err != nil {
			return nil, err
		}
		return &ddbStore{d: d, table: table, ms: ms}, nil
	case "grpc":
		// the sidecar's own "dynamodb" metastore mode: a real aws-sdk-go client speaking the DynamoDB protocol to localhost
		table := "SidecarKeys" + strconv.Itoa(e.seq)
		sess, err := e.sessionV1(regionOf(c), true)
		if err != nil {
			return nil, err
		}
		ms := v1ms.NewDynamoDBMetastore(sess, v1ms.WithDynamoDBRegionSuffix(c.Region != ""), v1ms.WithTableName(table))
		return &ddbStore{d: e.d, table: table, ms: ms}, nil
	}
	return nil, fmt.Errorf("unknown channel %q", c.Ch)
}

// ---------------------------------------------------------------------------------------------------------------
// the SDK

func guard(f func() error) (err error) {
	defer func() {
		if x := recover(); x != nil {
			err = fmt.Errorf("panic: %v\n%s", x, debug.Stack())
		}
	}()
	return f()
}

// withSession runs f on a real library session of the case's partition over ms.
func withSession(c *Case, ms appencryption.Metastore, f func(s *appencryption.Session) error) error {
	return guard(func() error {
		crypto := aead.NewAES256GCM()
		k, err := kms.NewStatic(masterKey, crypto)
		if err != nil {
			return err
		}
		defer k.Close()
		factory := appencryption.NewSessionFactory(&appencryption.Config{Service: c.Svc, Product: c.Prod, Policy: appencryption.NewCryptoPolicy()}, ms, framedKMS{k, c.frame}, crypto)
		defer factory.Close()
		s, err := factory.GetSession(c.Part)
		if err != nil {
			return err
		}
		defer s.Close()
		return f(s)
	})
}

// pbMarshal / pbUnmarshal use gRPC's own "proto" codec, i.e. exactly the bytes of a message on the wire.
func pbMarshal(m interface{}) ([]byte, error) {
	bs, err := encoding.GetCodecV2("proto").Marshal(m)
	if err != nil {
		return nil, err
	}
	defer bs.Free()
	return bs.Materialize(), nil
}

func pbUnmarshal(b []byte, m interface{}) error {
	return encoding.GetCodecV2("proto").Unmarshal(mem.BufferSlice{mem.SliceBuffer(b)}, m)
}

type memStream struct {
	in  []*pb.SessionRequest
	i   int
	out []*pb.SessionResponse
}

func (s *memStream) Send(r *pb.SessionResponse) error { s.out = append(s.out, r); return nil }
func (s *memStream) Recv() (*pb.SessionRequest, error) {
	if s.i >= len(s.in) {
		return nil, io.EOF
	}
	s.i++
	return s.in[s.i-1], nil
}
func (s *memStream) SetHeader(metadata.MD) error  { return nil }
func (s *memStream) SendHeader(metadata.MD) error { return nil }
func (s *memStream) SetTrailer(metadata.MD)       {}
func (s *memStream) Context() context.Context     { return context.Background() }
func (s *memStream) SendMsg(interface{}) error    { return nil }
func (s *memStream) RecvMsg(interface{}) error    { return nil }

// sidecar runs one request after a get-session on a real AppEncryption.Session whose key table is st's table.
func (e *env) sidecar(c *Case, st *ddbStore, req *pb.SessionRequest) (resp *pb.SessionResponse, err error) {
	err = guard(func() error {
		app := server.NewAppEncryption(&server.Options{
			ServiceName: c.Svc, ProductID: c.Prod, Metastore: "dynamodb", KMS: "static",
			DynamoDBEndpoint: e.http.URL, DynamoDBRegion: regionOf(c), DynamoDBTableName: st.table, EnableRegionSuffix: c.Region != "",
			ExpireAfter: 90 * 24 * time.Hour, CheckInterval: time.Hour,
		})
		stream := &memStream{in: []*pb.SessionRequest{
			{Request: &pb.SessionRequest_GetSession{GetSession: &pb.GetSession{PartitionId: c.Part}}}, req}}
		if err := app.Session(stream); err != nil {
			return err
		}
		if len(stream.out) != 2 {
			return fmt.Errorf("sidecar sent %d responses to 2 requests", len(stream.out))
		}
		if er := stream.out[0].GetErrorResponse(); er != nil {
			return fmt.Errorf("get-session refused: %s", er.GetMessage())
		}
		if er := stream.out[1].GetErrorResponse(); er != nil {
			return fmt.Errorf("sidecar error response: %s", er.GetMessage())
		}
		resp = stream.out[1]
		return nil
	})
	return
}

// sdkEncrypt makes the real SDK encrypt payload; returns the bytes it emitted for the record (JSON text of the
// DataRowRecord, or the serialized SessionResponse on the grpc channel) and the meta of the intermediate key it named.
func (e *env) sdkEncrypt(c *Case, st store, payload []byte) (wire []byte, ik appencryption.KeyMeta, err error) {
	if c.Ch == "grpc" {
		resp, err := e.sidecar(c, st.(*ddbStore), &pb.SessionRequest{Request: &pb.SessionRequest_Encrypt{Encrypt: &pb.Encrypt{Data: payload}}})
		if err != nil {
			return nil, ik, err
		}
		d := resp.GetEncryptResponse().GetDataRowRecord()
		if d == nil {
			return nil, ik, fmt.Errorf("no data row record in the encrypt response")
		}
		ik = appencryption.KeyMeta{ID: d.GetKey().GetParentKeyMeta().GetKeyId(), Created: d.GetKey().GetParentKeyMeta().GetCreated()}
		wire, err = pbMarshal(resp)
		return wire, ik, err
	}
	err = withSession(c, st.metastore(), func(s *appencryption.Session) error {
		drr, err := s.Encrypt(context.Background(), payload)
		if err != nil {
			return err
		}
		if drr == nil || drr.Key == nil || drr.Key.ParentKeyMeta == nil {
			return fmt.Errorf("incomplete data row record")
		}
		ik = *drr.Key.ParentKeyMeta
		wire, err = json.Marshal(drr)
		return err
	})
	return
}

// sdkDecrypt hands the reference-written record to the real SDK.
func (e *env) sdkDecrypt(c *Case, st store, wire []byte) (out []byte, err error) {
	if c.Ch == "grpc" {
		var req pb.SessionRequest
		if err := pbUnmarshal(wire, &req); err != nil {
			return nil, fmt.Errorf("protobuf refuses the reference request: %w", err)
		}
		resp, err := e.sidecar(c, st.(*ddbStore), &req)
		if err != nil {
			return nil, err
		}
		if resp.GetDecryptResponse() == nil {
			return nil, fmt.Errorf("no decrypt response")
		}
		out = resp.GetDecryptResponse().GetData()
		if out == nil {
			out = []byte{}
		}
		return out, nil
	}
	err = withSession(c, st.metastore(), func(s *appencryption.Session) error {
		var drr appencryption.DataRowRecord
		if err := json.Unmarshal(wire, &drr); err != nil {
			return fmt.Errorf("encoding/json refuses the reference data row record: %w", err)
		}
		var derr error
		out, derr = s.Decrypt(context.Background(), drr)
		return derr
	})
	return
}

// ---------------------------------------------------------------------------------------------------------------

func setClock(unix int64) { vrt.SetModelTime(unix - vrt.Base) }

func (e *env) random(n int) []byte {
	b := make([]byte, n)
	e.rng.Read(b)
	return b
}

func findRow(rows []rowObs, id, created string) (rowObs, bool) {
	for _, r := range rows {
		if r.RowID == id && r.RowCreated == created {
			return r, true
		}
	}
	return rowObs{}, false
}

// readBack is the reference reader: it parses the record bytes and the rows on the channel, follows the links and
// decrypts. It fills the observation part of the event.
func readBack(c *Case, ev *Event, wire []byte, rows []rowObs, payload []byte) {
	var d refcodec.DataRow
	var doc refcodec.Doc
	var rep *refcodec.Report
	if c.Ch == "grpc" {
		body := wire
		var err error
		if c.Dir == "sdk-to-ref" {
			body, err = refcodec.UnwrapEncryptResponse(wire)
		} else {
			body, err = refcodec.UnwrapDecryptRequest(wire)
		}
		if err != nil {
			ev.Mismatch = append(ev.Mismatch, "proto-syntax:envelope")
		}
		d, doc, rep = refcodec.ReadDataRowProto(body)
	} else {
		d, doc, rep = refcodec.ReadDataRowJSON(wire)
	}
	ev.DRRDoc = doc.Sorted()
	ev.Mismatch = append(ev.Mismatch, rep.Mismatch...)
	ev.DRRParentID, ev.DRRParentCreate, ev.DRKCreated = d.Key.ParentID, d.Key.ParentCreated, d.Key.Created
	ev.DRKBlobLen, ev.DataLen = len(d.Key.Key), len(d.Data)

	ik, ok := findRow(rows, d.Key.ParentID, d.Key.ParentCreated)
	ev.IKFound = ok
	var sk rowObs
	if ok {
		ev.IKDoc = ik.Doc.Sorted()
		for _, m := range ik.Mismatch {
			ev.Mismatch = append(ev.Mismatch, "ik-row/"+m)
		}
		ev.IKRowID, ev.IKRowCreated, ev.IKCreated = ik.RowID, ik.RowCreated, ik.Rec.Created
		ev.IKParentID, ev.IKParentCreated, ev.IKBlobLen = ik.Rec.ParentID, ik.Rec.ParentCreated, len(ik.Rec.Key)
		sk, ok = findRow(rows, ik.Rec.ParentID, ik.Rec.ParentCreated)
		ev.SKFound = ok
		if ok {
			ev.SKDoc = sk.Doc.Sorted()
			for _, m := range sk.Mismatch {
				ev.Mismatch = append(ev.Mismatch, "sk-row/"+m)
			}
			ev.SKRowID, ev.SKRowCreated, ev.SKCreated, ev.SKBlobLen = sk.RowID, sk.RowCreated, sk.Rec.Created, len(sk.Rec.Key)
		}
	}
	if ev.IKFound && ev.SKFound {
		skBlob := sk.Rec.Key
		if n := c.frame; n > 0 && len(skBlob) >= n && bytes.Equal(skBlob[len(skBlob)-n:], frameBytes(n)) {
			skBlob = skBlob[:len(skBlob)-n] // the reference's KMS takes its trailer off
		}
		w := refcodec.Decrypt([]byte(masterKey), skBlob, ik.Rec.Key, d.Key.Key, d.Data)
		ev.OpenSK, ev.OpenIK, ev.OpenDRK, ev.OpenData = w.OpenSK, w.OpenIK, w.OpenDRK, w.OpenData
		ev.SKLen, ev.IKLen, ev.DRKLen = w.SKLen, w.IKLen, w.DRKLen
		ev.PayloadMatch = w.OpenData && bytes.Equal(w.Payload, payload)
		if w.Err != "" && ev.Err == "" {
			ev.Err = "reference reader: " + w.Err
		}
	}
}

// sdkReadFlags asks the real Metastore.Load for both rows: what does the SDK see in the Revoked field?
func sdkReadFlags(ev *Event, ms appencryption.Metastore) {
	_ = guard(func() error {
		ctx := context.Background()
		ikc, err1 := strconv.ParseInt(ev.IKRowCreated, 10, 64)
		skc, err2 := strconv.ParseInt(ev.SKRowCreated, 10, 64)
		if err1 != nil || err2 != nil {
			return nil
		}
		ik, err := ms.Load(ctx, ev.IKRowID, ikc)
		if err != nil || ik == nil {
			return nil
		}
		sk, err := ms.Load(ctx, ev.SKRowID, skc)
		if err != nil || sk == nil {
			return nil
		}
		ev.SDKRead, ev.SDKIKRev, ev.SDKSKRev = true, ik.Revoked, sk.Revoked
		return nil
	})
}

// delta = stamp - now in seconds, clamped
func delta(stamp string, now int64) int {
	v, err := strconv.ParseInt(stamp, 10, 64)
	if err != nil {
		return -1000000000
	}
	d := v - now
	if d > 1000000000 {
		d = 1000000000
	}
	if d < -1000000000 {
		d = -1000000000
	}
	return int(d)
}

func (e *env) runCase(c *Case, id int) Event {
	ev := Event{E: "case", Run: id, ID: id, Ch: c.Ch, Dir: c.Dir, Len: c.Len, Part: c.Part, Svc: c.Svc, Prod: c.Prod, Region: c.Region,
		SKRev: c.SKRev, IKRev: c.IKRev, Stamp: c.Stamp, SKDoc: []string{}, IKDoc: []string{}, DRRDoc: []string{}, Mismatch: []string{}}
	c.frame = 0
	if c.Ch != "grpc" {
		c.frame = id % 3
	}
	ev.KMSFrame = c.frame
	ev.WriterRegion = c.Region
	t0, err := strconv.ParseInt(c.Stamp, 10, 64)
	if err != nil {
		ev.Err = "bad stamp"
		return ev
	}
	payload := e.random(c.Len)
	st, err := e.newStore(c)
	if err != nil {
		ev.Err = "store: " + err.Error()
		return ev
	}
	defer st.close()
	obs := st
	var wire []byte
	switch c.Dir {
	case "sdk-to-ref":
		// not on a minute boundary: key rows are stamped with the minute (CreateDatePrecision), the data row key with the second,
		// so a mapping that mixes the two stamps up names a row that does not exist
		setClock(t0 + 7)
		var ikMeta appencryption.KeyMeta
		wire, ikMeta, err = e.sdkEncrypt(c, st, payload)
		if err != nil {
			ev.Err = "sdk encrypt: " + err.Error()
			return ev
		}
		ev.SDKOK, ev.SDKMatch = true, true
		if c.SKRev || c.IKRev {
			// revoked rows as the SDK's own metastore implementation writes them: copy the chain into a second, empty store of
			// the same channel through Metastore.Load / Metastore.Store with the flags set
			st2, err := e.newStore(c)
			if err != nil {
				ev.Err = "store: " + err.Error()
				return ev
			}
			defer st2.close()
			err = guard(func() error {
				ctx := context.Background()
				ik, err := st.metastore().Load(ctx, ikMeta.ID, ikMeta.Created)
				if err != nil || ik == nil || ik.ParentKeyMeta == nil {
					return fmt.Errorf("cannot load the intermediate key row %v: %v", ikMeta, err)
				}
				sk, err := st.metastore().Load(ctx, ik.ParentKeyMeta.ID, ik.ParentKeyMeta.Created)
				if err != nil || sk == nil {
					return fmt.Errorf("cannot load the system key row %v: %v", *ik.ParentKeyMeta, err)
				}
				sk2 := &appencryption.EnvelopeKeyRecord{Created: sk.Created, EncryptedKey: sk.EncryptedKey, ParentKeyMeta: sk.ParentKeyMeta, Revoked: c.SKRev}
				ik2 := &appencryption.EnvelopeKeyRecord{Created: ik.Created, EncryptedKey: ik.EncryptedKey, ParentKeyMeta: ik.ParentKeyMeta, Revoked: c.IKRev}
				if ok, err := st2.metastore().Store(ctx, ik.ParentKeyMeta.ID, ik.ParentKeyMeta.Created, sk2); err != nil || !ok {
					return fmt.Errorf("Store(system key row) = %v, %v", ok, err)
				}
				if ok, err := st2.metastore().Store(ctx, ikMeta.ID, ikMeta.Created, ik2); err != nil || !ok {
					return fmt.Errorf("Store(intermediate key row) = %v, %v", ok, err)
				}
				return nil
			})
			if err != nil {
				ev.SDKOK, ev.SDKMatch = false, false
				ev.Err = "sdk store: " + err.Error()
				return ev
			}
			obs = st2
		}
	case "ref-to-sdk":
		skC, ikC, drkC := strconv.FormatInt(t0, 10), strconv.FormatInt(t0+60, 10), strconv.FormatInt(t0+120, 10)
		setClock(t0 + 180)
		skKey, ikKey, drkKey := e.random(refcodec.KeyLen), e.random(refcodec.KeyLen), e.random(refcodec.KeyLen)
		seal := func(k, pt []byte) []byte {
			b, err := refcodec.Seal(k, pt, e.random(refcodec.NonceLen))
			if err != nil {
				panic(err)
			}
			return b
		}
		// the writer may sit in ANOTHER region of a global table: its key ids carry its own region suffix, and a reader configured
		// for a different region accepts them (documented id layout: ..._product[_region])
		skID, ikID := c.SKID, c.IKID
		if c.Region != "" && id%4 == 3 {
			other := "us-east-1"
			if c.Region == other {
				other = "eu-central-1"
			}
			skID = strings.TrimSuffix(skID, "_"+c.Region) + "_" + other
			ikID = strings.TrimSuffix(ikID, "_"+c.Region) + "_" + other
			ev.WriterRegion = other
		}
		skRec := refcodec.KeyRecord{Created: skC, Key: append(seal([]byte(masterKey), skKey), frameBytes(c.frame)...), Revoked: c.SKRev}
		ikRec := refcodec.KeyRecord{Created: ikC, Key: seal(skKey, ikKey), HasParent: true, ParentID: skID, ParentCreated: skC, Revoked: c.IKRev}
		drr := refcodec.DataRow{Key: refcodec.KeyRecord{Created: drkC, Key: seal(ikKey, drkKey), HasParent: true, ParentID: ikID, ParentCreated: ikC},
			Data: seal(drkKey, payload)}
		pretty := id%2 == 1
		if err := st.install(skID, skC, skRec, pretty); err != nil {
			ev.Err = "install system key row: " + err.Error()
			return ev
		}
		if err := st.install(ikID, ikC, ikRec, pretty); err != nil {
			ev.Err = "install intermediate key row: " + err.Error()
			return ev
		}
		if c.Ch == "grpc" {
			wire = refcodec.WrapDecryptRequest(refcodec.WriteDataRowProto(drr))
		} else {
			wire = refcodec.WriteDataRowJSON(drr, pretty)
		}
		out, err := e.sdkDecrypt(c, st, wire)
		if err != nil {
			ev.Err = "sdk decrypt: " + err.Error()
		} else {
			ev.SDKOK = true
			ev.SDKMatch = bytes.Equal(out, payload)
		}
	default:
		ev.Err = "unknown direction"
		return ev
	}
	readBack(c, &ev, wire, obs.rows(), payload)
	if c.Dir == "sdk-to-ref" && e.clockDriven {
		now := t0 + 7
		ev.Clock = strconv.FormatInt(now, 10)
		ev.DRKDelta, ev.IKDelta, ev.SKDelta = delta(ev.DRKCreated, now), delta(ev.IKCreated, now), delta(ev.SKCreated, now)
	}
	if ev.IKFound && ev.SKFound {
		sdkReadFlags(&ev, obs.metastore())
	}
	if len(ev.Err) > 600 {
		ev.Err = ev.Err[:600]
	}
	return ev
}

// Replay executes the cases printed by TLC (WireFormatGen) and writes one run (reset + case event) per case.
func Replay(inPath, tracePath, outPath string, seed int64, clockDriven bool) error {
	in, err := vutil.OpenIn(inPath)
	if err != nil {
		return err
	}
	defer in.Close()
	tw, err := vutil.NewTraceWriter(tracePath)
	if err != nil {
		return err
	}
	defer vrt.RealTime()
	res := &vutil.Result{Driver: "wiredrv",
		Rule: "every structural case of WireFormat.tla (payload length, ids, region suffix, revoked flags, timestamp class x channel x direction) executed once: the real SDK writes and the documentation-derived codec reads, or the codec writes and the real SDK reads; non-trivial = a revoked row, a region suffix or an id containing the separator"}
	e := newEnv(seed)
	e.clockDriven = clockDriven
	defer e.close()
	perChannel := map[string]int{}
	n := 0
	err = vutil.ReadCases(in, func(raw []byte) error {
		var c Case
		if err := json.Unmarshal(raw, &c); err != nil || c.Ch == "" {
			return nil
		}
		n++
		res.Evaluations++
		perChannel[c.Ch+"/"+c.Dir]++
		if c.SKRev || c.IKRev || c.Region != "" || strings.Contains(c.Part+c.Svc+c.Prod, "_") {
			res.Nontrivial++
			if c.SKRev && c.Region != "" {
				res.Sample(raw, 3)
			}
		}
		tw.Emit(resetEvent{E: "reset", Run: n, ID: n})
		tw.Emit(e.runCase(&c, n))
		res.Traces++
		return nil
	})
	if err != nil {
		return err
	}
	res.Events = tw.N
	res.Extra = map[string]interface{}{"cases_per_channel_and_direction": perChannel}
	if err := tw.Close(); err != nil {
		return err
	}
	res.Print(outPath)
	return nil
}
