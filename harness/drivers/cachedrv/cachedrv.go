// Package cachedrv binds spec/Cache.tla to go/appencryption/pkg/cache.
//
//	Replay: every transition TLC printed from the model's state graph (CacheGen.tla) is executed on the
//	        real cache (synchronous and asynchronous eviction) and the observable result is compared.
//	Trace:  long seeded random runs of the real cache are recorded as ndjson for TLC (CacheTrace.tla).
package cachedrv

import (
	"encoding/json"
	"fmt"
	"math/rand"
	"runtime"
	"runtime/debug"
	"sort"
	"sync"
	"time"

	"github.com/godaddy/asherah/go/appencryption/pkg/cache"

	"verif.local/harness/vutil"
)

type Cfg struct {
	Cap    int    `json:"cap"`
	Policy string `json:"policy"`
	Expiry int    `json:"expiry"`
}

type In struct {
	Op string `json:"op"`
	K  string `json:"k"`
	V  int    `json:"v"`
	N  int    `json:"n,omitempty"` // path elements: number of callbacks the specification expects from this call
}

type CB struct {
	K string
	V int
}

func (c CB) MarshalJSON() ([]byte, error) { return json.Marshal([]interface{}{c.K, c.V}) }
func (c *CB) UnmarshalJSON(b []byte) error {
	var a []interface{}
	if err := json.Unmarshal(b, &a); err != nil {
		return err
	}
	if len(a) != 2 {
		return fmt.Errorf("bad callback %s", b)
	}
	c.K, _ = a[0].(string)
	f, _ := a[1].(float64)
	c.V = int(f)
	return nil
}

type Step struct {
	In
	Ok  bool `json:"ok"`
	Rv  int  `json:"rv"`
	Cbs []CB `json:"cbs"`
	Len int  `json:"len"`
}

type Edge struct {
	Cfg  Cfg  `json:"cfg"`
	Path []In `json:"path"`
	Step Step `json:"step"`
}

var epoch = time.Unix(1_700_000_000, 0)

type clock struct {
	mu  sync.Mutex
	now int
}

func (c *clock) Now() time.Time {
	c.mu.Lock()
	defer c.mu.Unlock()
	return epoch.Add(time.Duration(c.now) * time.Second)
}
func (c *clock) tick(d int) { c.mu.Lock(); c.now += d; c.mu.Unlock() }

// real wraps one real cache plus the callback recorder.
type real struct {
	c   cache.Interface[string, int]
	clk *clock
	mu  sync.Mutex
	cbs []CB
}

func realPolicy(p string) string {
	if p == "any" || p == "tlfu" {
		return "tinylfu"
	}
	return p
}

func newReal(cfg Cfg, isSync bool) *real {
	r := &real{clk: &clock{}}
	b := cache.New[string, int](cfg.Cap).
		WithPolicy(cache.CachePolicy(realPolicy(cfg.Policy))).
		WithClock(r.clk).
		WithEvictFunc(func(k string, v int) {
			r.mu.Lock()
			r.cbs = append(r.cbs, CB{k, v})
			r.mu.Unlock()
		})
	if cfg.Expiry > 0 {
		b.WithExpiry(time.Duration(cfg.Expiry) * time.Second)
	}
	if isSync {
		b.Synchronous()
	}
	r.c = b.Build()
	return r
}

func (r *real) drain() []CB {
	r.mu.Lock()
	defer r.mu.Unlock()
	out := r.cbs
	r.cbs = nil
	return out
}

func (r *real) count() int { r.mu.Lock(); defer r.mu.Unlock(); return len(r.cbs) }

// apply performs one call and returns (ok, rv).
func (r *real) apply(in In) (bool, int) {
	switch in.Op {
	case "Set":
		r.c.Set(in.K, in.V)
		return true, 0
	case "Get":
		v, ok := r.c.Get(in.K)
		if !ok {
			// the zero value must accompany a miss
			return false, v
		}
		return true, v
	case "Delete":
		return r.c.Delete(in.K), 0
	case "Close":
		return r.c.Close() == nil, 0
	case "Tick":
		r.clk.tick(in.V)
		return true, 0
	}
	panic("unknown op " + in.Op)
}

func sortCBs(a []CB) {
	sort.Slice(a, func(i, j int) bool {
		if a[i].K != a[j].K {
			return a[i].K < a[j].K
		}
		return a[i].V < a[j].V
	})
}

func sameCBs(a, b []CB) bool {
	if len(a) != len(b) {
		return false
	}
	x := append([]CB(nil), a...)
	y := append([]CB(nil), b...)
	sortCBs(x)
	sortCBs(y)
	for i := range x {
		if x[i] != y[i] {
			return false
		}
	}
	return true
}

// runEdge executes path then step on a fresh real cache and returns what was observed at the step.
func runEdge(e *Edge, isSync bool) (obs Step, kind, detail string) {
	type res struct {
		obs          Step
		kind, detail string
	}
	done := make(chan res, 1)
	go func() {
		var out res
		defer func() {
			if p := recover(); p != nil {
				out.kind = "panic"
				out.detail = fmt.Sprintf("panic: %v\n%s", p, debug.Stack())
			}
			done <- out
		}()
		r := newReal(e.Cfg, isSync)
		defer func() {
			// stop the event goroutine of asynchronous caches; ignore what it evicts
			defer func() { _ = recover() }()
			r.c.Close()
		}()
		npath := 0
		for _, in := range e.Path {
			r.apply(in)
			npath += in.N
		}
		waitCallbacks(r, npath) // asynchronous delivery: let everything the path evicted arrive first
		r.drain()
		ok, rv := r.apply(e.Step.In)
		waitCallbacks(r, len(e.Step.Cbs))
		out.obs = Step{In: e.Step.In, Ok: ok, Rv: rv, Cbs: r.drain()}
		if e.Step.Op == "Close" {
			out.obs.Len = 0
			if r.c.Len() != 0 {
				out.obs.Len = r.c.Len()
			}
		} else {
			out.obs.Len = r.c.Len()
		}
	}()
	select {
	case o := <-done:
		return o.obs, o.kind, o.detail
	case <-time.After(20 * time.Second):
		return Step{}, "deadlock", "operation sequence did not finish within 20s"
	}
}

// waitCallbacks lets asynchronously delivered callbacks arrive: it waits until at least want are recorded
// (want < 0: just settle), then yields a little so that a surplus callback would be seen as well.
var waitTimeouts int // after a few genuine time-outs (callbacks that never come) stop paying the full grace period

func waitCallbacks(r *real, want int) {
	grace := 20 * time.Second
	if waitTimeouts >= 3 {
		grace = 200 * time.Millisecond
	}
	deadline := time.Now().Add(grace)
	for want > 0 && r.count() < want {
		if !time.Now().Before(deadline) {
			waitTimeouts++
			break
		}
		runtime.Gosched()
	}
	for i := 0; i < 20; i++ {
		runtime.Gosched()
	}
}

func compare(exp, obs Step) (string, string) {
	if exp.Ok != obs.Ok || (exp.Op == "Get" && exp.Rv != obs.Rv) {
		return "result", fmt.Sprintf("%s(%s) returned (ok=%v,v=%d), specification says (ok=%v,v=%d)", exp.Op, exp.K, obs.Ok, obs.Rv, exp.Ok, exp.Rv)
	}
	if !sameCBs(exp.Cbs, obs.Cbs) {
		return "callbacks", fmt.Sprintf("%s(%s,%d) fired evict callbacks %v, specification says %v", exp.Op, exp.K, exp.V, obs.Cbs, exp.Cbs)
	}
	if exp.Len != obs.Len {
		return "size", fmt.Sprintf("Len()=%d after %s, specification says %d", obs.Len, exp.Op, exp.Len)
	}
	return "", ""
}

// Replay runs every edge read from in against the real cache.
func Replay(inPath, outPath string, modes []bool) error {
	in, err := vutil.OpenIn(inPath)
	if err != nil {
		return err
	}
	defer in.Close()
	res := &vutil.Result{Driver: "cache-replay",
		Rule: "one case per transition of the reachable state graph of spec/Cache.tla (source state reached by a witness path, then one call); non-trivial = the call evicts, expires, hits, deletes or closes a non-empty cache; each case is run with synchronous and asynchronous eviction"}
	perPolicy := map[string]int{}
	err = vutil.ReadCases(in, func(raw []byte) error {
		var e Edge
		if err := json.Unmarshal(raw, &e); err != nil {
			return nil
		}
		if e.Cfg.Policy == "" {
			return nil
		}
		res.Evaluations++
		perPolicy[e.Cfg.Policy]++
		if len(e.Step.Cbs) > 0 || (e.Step.Op == "Get" && e.Step.Ok) || (e.Step.Op == "Delete" && e.Step.Ok) {
			res.Nontrivial++
			if len(e.Step.Cbs) > 0 {
				res.Sample(raw, 4)
			}
		}
		for _, m := range modes {
			obs, kind, detail := runEdge(&e, m)
			if kind == "" {
				kind, detail = compare(e.Step, obs)
			}
			if kind != "" {
				res.AddFinding(vutil.Finding{
					Kind:     fmt.Sprintf("%s policy=%s cap=%d sync=%v op=%s", kind, e.Cfg.Policy, e.Cfg.Cap, m, e.Step.Op),
					Detail:   detail,
					Case:     append(json.RawMessage(nil), raw...),
					Observed: obs,
				})
			}
		}
		return nil
	})
	res.Extra = mergeExtra(res.Extra, map[string]interface{}{"per_policy": perPolicy})
	res.Print(outPath)
	return err
}

func mergeExtra(a, b map[string]interface{}) map[string]interface{} {
	if a == nil {
		a = map[string]interface{}{}
	}
	for k, v := range b {
		a[k] = v
	}
	return a
}

// TraceCfg describes one family of recorded runs.
type TraceCfg struct {
	Cfg
	Sync bool `json:"sync"`
	Keys int  `json:"keys"` // size of the key universe
	Len  int  `json:"len"`  // operations per run
	Runs int  `json:"runs"`
}

// event is one ndjson line. "Reset" starts a new run.
type event struct {
	Op     string `json:"op"`
	K      string `json:"k"`
	V      int    `json:"v"`
	Ok     bool   `json:"ok"`
	Rv     int    `json:"rv"`
	Cbs    []CB   `json:"cbs"`
	Cap    int    `json:"cap"`
	Policy string `json:"policy"`
	Expiry int    `json:"expiry"`
	Sync   bool   `json:"sync"`
	Run    int    `json:"run"`
}

// Trace records seeded random runs of the real cache into outTrace.
func Trace(cfgs []TraceCfg, seed int64, outTrace, outPath string) error {
	tw, err := vutil.NewTraceWriter(outTrace)
	if err != nil {
		return err
	}
	res := &vutil.Result{Driver: "cache-trace",
		Rule: "seeded random Set/Get/Delete/Tick/Len sequences on the real cache, skewed key popularity, closed at the end; one trace per run; non-trivial = run with at least one eviction or expiry callback"}
	rng := rand.New(rand.NewSource(seed))
	run := 0
	keyset := map[string]bool{}
	for _, tc := range cfgs {
		for i := 0; i < tc.Runs; i++ {
			run++
			n, kind, detail := traceOne(tw, tc, rng, run, keyset)
			res.Traces++
			res.Evaluations++
			if n > 0 {
				res.Nontrivial++
			}
			if kind != "" {
				b, _ := json.Marshal(tc)
				res.AddFinding(vutil.Finding{Kind: kind + " policy=" + tc.Policy, Detail: detail, Case: b})
			}
		}
	}
	res.Events = tw.N
	ks := make([]string, 0, len(keyset))
	for k := range keyset {
		ks = append(ks, k)
	}
	sort.Strings(ks)
	res.Extra = map[string]interface{}{"keys": ks}
	if err := tw.Close(); err != nil {
		return err
	}
	res.Print(outPath)
	return nil
}

func traceOne(tw *vutil.TraceWriter, tc TraceCfg, rng *rand.Rand, run int, keyset map[string]bool) (ncb int, kind, detail string) {
	defer func() {
		if p := recover(); p != nil {
			kind = "panic"
			detail = fmt.Sprintf("panic: %v\n%s", p, debug.Stack())
			tw.Emit(event{Op: "Abort", Run: run, Cbs: []CB{}}) // the run is cut out before validation
		}
	}()
	r := newReal(tc.Cfg, tc.Sync)
	tw.Emit(event{Op: "Reset", Cap: tc.Cap, Policy: tc.Policy, Expiry: tc.Expiry, Sync: tc.Sync, Run: run, Cbs: []CB{}})
	zipf := rand.NewZipf(rng, 1.2, 4, uint64(tc.Keys-1))
	for i := 0; i < tc.Len; i++ {
		var in In
		k := fmt.Sprintf("k%03d", zipf.Uint64())
		if rng.Intn(4) == 0 {
			k = fmt.Sprintf("k%03d", rng.Intn(tc.Keys))
		}
		keyset[k] = true
		switch x := rng.Intn(100); {
		case x < 45:
			in = In{Op: "Set", K: k, V: 1 + rng.Intn(3)}
		case x < 85:
			in = In{Op: "Get", K: k}
		case x < 92:
			in = In{Op: "Delete", K: k}
		case x < 96 && tc.Expiry > 0:
			in = In{Op: "Tick", V: 1}
		default:
			in = In{Op: "Len"}
		}
		ev := event{Op: in.Op, K: in.K, V: in.V, Run: run}
		if in.Op == "Len" {
			ev.Ok, ev.Rv = true, r.c.Len()
		} else {
			ev.Ok, ev.Rv = r.apply(in)
		}
		if !tc.Sync {
			waitCallbacks(r, -1)
		}
		ev.Cbs = r.drain()
		if ev.Cbs == nil {
			ev.Cbs = []CB{}
		}
		ncb += len(ev.Cbs)
		tw.Emit(ev)
	}
	ok, _ := r.apply(In{Op: "Close"})
	ev := event{Op: "Close", Ok: ok, Run: run, Cbs: r.drain()}
	if ev.Cbs == nil {
		ev.Cbs = []CB{}
	}
	tw.Emit(ev)
	return ncb, "", ""
}
