package msdrv

// A semantic fake of one DynamoDB table, independent of the SDK generation. It encodes the documented backend contract
// (docs/Metastore.md: table EncryptionKey, partition key Id (S), sort key Created (N)) and the DynamoDB API semantics the
// metastores rely on:
//   - PutItem replaces the item with the same primary key unless a ConditionExpression forbids it;
//     attribute_not_exists(a) is evaluated against the existing item with the same primary key
//   - GetItem / Query answer from a replica that LAGS (the table as it was before the most recent write) unless
//     ConsistentRead is true
//   - Query: key condition (hash equality, optional range comparison) resolved through ExpressionAttributeNames/Values,
//     ascending by the numeric sort key unless ScanIndexForward=false, Limit, ProjectionExpression
//   - wrong table name -> ResourceNotFoundException, key attributes of the wrong type -> ValidationException
// The v1 and v2 client fakes (ddbv1.go, ddbv2.go) only translate SDK types to and from this neutral form.

import (
	"fmt"
	"math/big"
	"sort"
	"strings"
)

// av is a neutral DynamoDB attribute value.
type av struct {
	T    string // S N B BOOL NULL M L SS NS BS
	S    string // S, N
	B    []byte
	Bool bool
	M    map[string]*av
	L    []*av
	SS   []string // SS, NS
	BS   [][]byte
}

func (a *av) clone() *av {
	if a == nil {
		return nil
	}
	c := &av{T: a.T, S: a.S, Bool: a.Bool}
	if a.B != nil {
		c.B = append([]byte{}, a.B...)
	}
	if a.M != nil {
		c.M = make(map[string]*av, len(a.M))
		for k, v := range a.M {
			c.M[k] = v.clone()
		}
	}
	for _, v := range a.L {
		c.L = append(c.L, v.clone())
	}
	c.SS = append([]string(nil), a.SS...)
	for _, b := range a.BS {
		c.BS = append(c.BS, append([]byte{}, b...))
	}
	return c
}

type item map[string]*av

func (it item) clone() item {
	if it == nil {
		return nil
	}
	c := make(item, len(it))
	for k, v := range it {
		c[k] = v.clone()
	}
	return c
}

type ddbErr struct{ Code, Msg string }

func (e *ddbErr) Error() string { return e.Code + ": " + e.Msg }

const (
	errValidation = "ValidationException"
	errCondFailed = "ConditionalCheckFailedException"
	errNoTable    = "ResourceNotFoundException"
)

type row struct {
	hash string
	rng  *big.Rat
	it   item
}

type ddbTable struct {
	name      string
	hashKey   string // S
	rangeKey  string // N
	cur, prev map[string]*row
	// statistics for the report
	consistentReads, laggingReads, puts int
}

func newDDBTable(name string) *ddbTable {
	return &ddbTable{name: name, hashKey: "Id", rangeKey: "Created", cur: map[string]*row{}, prev: map[string]*row{}}
}

func parseNum(s string) (*big.Rat, bool) {
	r, ok := new(big.Rat).SetString(strings.TrimSpace(s))
	return r, ok
}

func (t *ddbTable) keyOf(m map[string]*av, exact bool) (string, *big.Rat, *ddbErr) {
	h, r := m[t.hashKey], m[t.rangeKey]
	if h == nil || r == nil || (exact && len(m) != 2) {
		return "", nil, &ddbErr{errValidation, "The provided key element does not match the schema"}
	}
	if h.T != "S" || r.T != "N" {
		return "", nil, &ddbErr{errValidation, "One or more parameter values were invalid: Type mismatch for key"}
	}
	if h.S == "" {
		return "", nil, &ddbErr{errValidation, "One or more parameter values are not valid. The AttributeValue for a key attribute cannot contain an empty string value. Key: " + t.hashKey}
	}
	n, ok := parseNum(r.S)
	if !ok {
		return "", nil, &ddbErr{errValidation, "The parameter cannot be converted to a numeric value: " + r.S}
	}
	return h.S, n, nil
}

func pk(h string, n *big.Rat) string { return h + "\x00" + n.RatString() }

func (t *ddbTable) checkTable(name *string) *ddbErr {
	if name == nil || *name != t.name {
		got := "<nil>"
		if name != nil {
			got = *name
		}
		return &ddbErr{errNoTable, "Requested resource not found: Table: " + got + " not found"}
	}
	return nil
}

func resolveName(tok string, names map[string]string) (string, *ddbErr) {
	if strings.HasPrefix(tok, "#") {
		n, ok := names[tok]
		if !ok {
			return "", &ddbErr{errValidation, "An expression attribute name used in the document path is not defined; attribute name: " + tok}
		}
		return n, nil
	}
	return tok, nil
}

// ---- tiny expression tokenizer

func exprTokens(s string) ([]string, *ddbErr) {
	var out []string
	i := 0
	for i < len(s) {
		c := s[i]
		switch {
		case c == ' ' || c == '\t' || c == '\n':
			i++
		case c == '(' || c == ')' || c == ',' || c == '=':
			out = append(out, string(c))
			i++
		case c == '<' || c == '>':
			if i+1 < len(s) && (s[i+1] == '=' || (c == '<' && s[i+1] == '>')) {
				out = append(out, s[i:i+2])
				i += 2
			} else {
				out = append(out, string(c))
				i++
			}
		case c == '#' || c == ':' || c == '_' || (c >= 'a' && c <= 'z') || (c >= 'A' && c <= 'Z'):
			j := i + 1
			for j < len(s) && (s[j] == '_' || s[j] == '.' || (s[j] >= 'a' && s[j] <= 'z') || (s[j] >= 'A' && s[j] <= 'Z') || (s[j] >= '0' && s[j] <= '9')) {
				j++
			}
			out = append(out, s[i:j])
			i = j
		default:
			return nil, &ddbErr{errValidation, fmt.Sprintf("Invalid expression: syntax error at %q", s[i:])}
		}
	}
	return out, nil
}

// condition expression: conjunction of attribute_not_exists(path) / attribute_exists(path), parentheses allowed
func evalCondition(expr string, names map[string]string, existing item) (bool, *ddbErr) {
	toks, e := exprTokens(expr)
	if e != nil {
		return false, e
	}
	var filtered []string
	depth := 0
	// drop grouping parentheses that are not function-call parentheses
	for i := 0; i < len(toks); i++ {
		tk := toks[i]
		low := strings.ToLower(tk)
		if low == "attribute_not_exists" || low == "attribute_exists" {
			if i+3 >= len(toks) || toks[i+1] != "(" || toks[i+3] != ")" {
				return false, &ddbErr{errValidation, "Invalid ConditionExpression: " + expr}
			}
			filtered = append(filtered, low, toks[i+2])
			i += 3
			continue
		}
		switch {
		case tk == "(":
			depth++
		case tk == ")":
			depth--
		case strings.EqualFold(tk, "AND"):
			filtered = append(filtered, "AND")
		default:
			return false, &ddbErr{errValidation, "Invalid ConditionExpression (not supported by the table fake): " + expr}
		}
	}
	if depth != 0 || len(filtered) == 0 {
		return false, &ddbErr{errValidation, "Invalid ConditionExpression: " + expr}
	}
	res := true
	for i := 0; i < len(filtered); {
		if filtered[i] == "AND" {
			i++
			continue
		}
		if i+1 >= len(filtered) {
			return false, &ddbErr{errValidation, "Invalid ConditionExpression: " + expr}
		}
		name, e := resolveName(filtered[i+1], names)
		if e != nil {
			return false, e
		}
		_, has := existing[name]
		if filtered[i] == "attribute_not_exists" {
			res = res && !has
		} else {
			res = res && has
		}
		i += 2
	}
	return res, nil
}

type keyCond struct {
	attr string
	op   string // = < <= > >= between
	v    []*av
}

func parseKeyCondition(expr string, names map[string]string, values map[string]*av) ([]keyCond, *ddbErr) {
	toks, e := exprTokens(expr)
	if e != nil {
		return nil, e
	}
	var flat []string
	for _, tk := range toks {
		if tk != "(" && tk != ")" {
			flat = append(flat, tk)
		}
	}
	val := func(tok string) (*av, *ddbErr) {
		if !strings.HasPrefix(tok, ":") {
			return nil, &ddbErr{errValidation, "Invalid KeyConditionExpression: literal operands are not allowed: " + tok}
		}
		v, ok := values[tok]
		if !ok || v == nil {
			return nil, &ddbErr{errValidation, "Invalid KeyConditionExpression: An expression attribute value used in expression is not defined; attribute value: " + tok}
		}
		return v, nil
	}
	var out []keyCond
	for i := 0; i < len(flat); {
		if strings.EqualFold(flat[i], "AND") {
			i++
			continue
		}
		if i+2 >= len(flat) {
			return nil, &ddbErr{errValidation, "Invalid KeyConditionExpression: " + expr}
		}
		name, e := resolveName(flat[i], names)
		if e != nil {
			return nil, e
		}
		op := flat[i+1]
		switch {
		case op == "=" || op == "<" || op == "<=" || op == ">" || op == ">=":
			v, e := val(flat[i+2])
			if e != nil {
				return nil, e
			}
			out = append(out, keyCond{name, op, []*av{v}})
			i += 3
		case strings.EqualFold(op, "BETWEEN"):
			if i+4 >= len(flat) || !strings.EqualFold(flat[i+3], "AND") {
				return nil, &ddbErr{errValidation, "Invalid KeyConditionExpression: " + expr}
			}
			a, e := val(flat[i+2])
			if e != nil {
				return nil, e
			}
			b, e := val(flat[i+4])
			if e != nil {
				return nil, e
			}
			out = append(out, keyCond{name, "between", []*av{a, b}})
			i += 5
		default:
			return nil, &ddbErr{errValidation, "Invalid KeyConditionExpression (not supported by the table fake): " + expr}
		}
	}
	return out, nil
}

func project(it item, proj *string, names map[string]string) (item, *ddbErr) {
	if it == nil {
		return nil, nil
	}
	if proj == nil {
		return it.clone(), nil
	}
	out := item{}
	for _, p := range strings.Split(*proj, ",") {
		p = strings.TrimSpace(p)
		if p == "" {
			return nil, &ddbErr{errValidation, "Invalid ProjectionExpression: " + *proj}
		}
		if strings.ContainsAny(p, ".[") && !strings.HasPrefix(p, "#") {
			return nil, &ddbErr{errValidation, "Invalid ProjectionExpression (nested paths are not supported by the table fake): " + *proj}
		}
		name, e := resolveName(p, names)
		if e != nil {
			return nil, e
		}
		if v, ok := it[name]; ok {
			out[name] = v.clone()
		}
	}
	return out, nil
}

func (t *ddbTable) snapshot(consistent bool) map[string]*row {
	if consistent {
		t.consistentReads++
		return t.cur
	}
	t.laggingReads++
	return t.prev
}

// Put implements PutItem.
func (t *ddbTable) Put(table *string, it item, cond *string, names map[string]string) *ddbErr {
	if e := t.checkTable(table); e != nil {
		return e
	}
	h, n, e := t.keyOf(it, false)
	if e != nil {
		return e
	}
	k := pk(h, n)
	if cond != nil {
		var existing item
		if r, ok := t.cur[k]; ok {
			existing = r.it
		}
		ok, e := evalCondition(*cond, names, existing)
		if e != nil {
			return e
		}
		if !ok {
			return &ddbErr{errCondFailed, "The conditional request failed"}
		}
	}
	// the replica now holds what the primary held before this write
	t.prev = make(map[string]*row, len(t.cur))
	for kk, r := range t.cur {
		t.prev[kk] = r
	}
	t.cur[k] = &row{hash: h, rng: n, it: it.clone()}
	t.puts++
	return nil
}

// Get implements GetItem.
func (t *ddbTable) Get(table *string, key map[string]*av, consistent bool, proj *string, names map[string]string) (item, *ddbErr) {
	if e := t.checkTable(table); e != nil {
		return nil, e
	}
	h, n, e := t.keyOf(key, true)
	if e != nil {
		return nil, e
	}
	r, ok := t.snapshot(consistent)[pk(h, n)]
	if !ok {
		return nil, nil
	}
	return project(r.it, proj, names)
}

func cmpOK(c int, op string) bool {
	switch op {
	case "=":
		return c == 0
	case "<":
		return c < 0
	case "<=":
		return c <= 0
	case ">":
		return c > 0
	case ">=":
		return c >= 0
	}
	return false
}

// Query implements Query on the base table.
func (t *ddbTable) Query(table *string, keyCondExpr *string, names map[string]string, values map[string]*av,
	consistent, forward bool, limit int, proj *string) ([]item, *ddbErr) {
	if e := t.checkTable(table); e != nil {
		return nil, e
	}
	if keyCondExpr == nil {
		return nil, &ddbErr{errValidation, "Either the KeyConditions or KeyConditionExpression parameter must be specified in the request."}
	}
	conds, e := parseKeyCondition(*keyCondExpr, names, values)
	if e != nil {
		return nil, e
	}
	var hash *string
	var rc *keyCond
	for i := range conds {
		c := conds[i]
		switch c.attr {
		case t.hashKey:
			if c.op != "=" || hash != nil {
				return nil, &ddbErr{errValidation, "Query key condition not supported"}
			}
			if c.v[0].T != "S" {
				return nil, &ddbErr{errValidation, "One or more parameter values were invalid: Condition parameter type does not match schema type"}
			}
			s := c.v[0].S
			hash = &s
		case t.rangeKey:
			if rc != nil {
				return nil, &ddbErr{errValidation, "Query key condition not supported"}
			}
			for _, v := range c.v {
				if v.T != "N" {
					return nil, &ddbErr{errValidation, "One or more parameter values were invalid: Condition parameter type does not match schema type"}
				}
			}
			rc = &conds[i]
		default:
			return nil, &ddbErr{errValidation, "Query condition missed key schema element: " + c.attr}
		}
	}
	if hash == nil {
		return nil, &ddbErr{errValidation, "Query condition missed key schema element: " + t.hashKey}
	}
	var rows []*row
	for _, r := range t.snapshot(consistent) {
		if r.hash != *hash {
			continue
		}
		if rc != nil {
			a, ok := parseNum(rc.v[0].S)
			if !ok {
				return nil, &ddbErr{errValidation, "The parameter cannot be converted to a numeric value"}
			}
			if rc.op == "between" {
				b, ok := parseNum(rc.v[1].S)
				if !ok {
					return nil, &ddbErr{errValidation, "The parameter cannot be converted to a numeric value"}
				}
				if r.rng.Cmp(a) < 0 || r.rng.Cmp(b) > 0 {
					continue
				}
			} else if !cmpOK(r.rng.Cmp(a), rc.op) {
				continue
			}
		}
		rows = append(rows, r)
	}
	sort.Slice(rows, func(i, j int) bool {
		if forward {
			return rows[i].rng.Cmp(rows[j].rng) < 0
		}
		return rows[i].rng.Cmp(rows[j].rng) > 0
	})
	if limit > 0 && len(rows) > limit {
		rows = rows[:limit]
	}
	out := []item{}
	for _, r := range rows {
		p, e := project(r.it, proj, names)
		if e != nil {
			return nil, e
		}
		out = append(out, p)
	}
	return out, nil
}
