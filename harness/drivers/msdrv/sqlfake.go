package msdrv

// A database/sql driver standing for the RDBMS of docs/Metastore.md:
//
//	CREATE TABLE encryption_key (id VARCHAR(255) NOT NULL, created TIMESTAMP NOT NULL, key_record TEXT NOT NULL,
//	                             PRIMARY KEY (id, created))
//
// It interprets the statement shapes the schema admits for a key table, not the exact strings of sql.go:
//
//	INSERT INTO t (col, ...) VALUES (ph, ...)                                 -> error on PRIMARY KEY conflict
//	SELECT col, ... FROM t [WHERE col = ph [AND col = ph]...] [ORDER BY col [ASC|DESC]] [LIMIT n]
//
// with the placeholder style of ONE vendor per database instance: mysql `?` (positional), postgres `$n`, oracle `:n`.
// A statement using another vendor's placeholders is a syntax error, as it would be on the real server. created is
// compared and ordered as a TIMESTAMP (the driver receives time.Time). A relational primary is strongly consistent, so
// there is no replica here.

import (
	"context"
	"database/sql"
	"database/sql/driver"
	"errors"
	"fmt"
	"io"
	"sort"
	"strconv"
	"strings"
	"sync"
	"time"
)

const sqlFakeDriverName = "verif-msdrv-sqlfake"

type sqlRow struct {
	id      string
	created time.Time
	rec     string
}

type sqlFakeDB struct {
	mu      sync.Mutex
	dialect string // mysql | postgres | oracle
	rows    []sqlRow
	execs   int
	queries int
}

var (
	sqlFakeOnce sync.Once
	sqlFakeMu   sync.Mutex
	sqlFakeDBs  = map[string]*sqlFakeDB{}
)

type sqlFakeDriver struct{}

func (sqlFakeDriver) Open(dsn string) (driver.Conn, error) {
	sqlFakeMu.Lock()
	defer sqlFakeMu.Unlock()
	db, ok := sqlFakeDBs[dsn]
	if !ok {
		return nil, fmt.Errorf("sqlfake: unknown database %q", dsn)
	}
	return &sqlFakeConn{db: db}, nil
}

// openSQLFake returns a database/sql handle on a fresh fake database speaking the given vendor's dialect.
func openSQLFake(dialect string) (*sql.DB, *sqlFakeDB, error) {
	sqlFakeOnce.Do(func() { sql.Register(sqlFakeDriverName, sqlFakeDriver{}) })
	sqlFakeMu.Lock()
	dsn := dialect + "/" + strconv.Itoa(len(sqlFakeDBs))
	fdb := &sqlFakeDB{dialect: dialect}
	sqlFakeDBs[dsn] = fdb
	sqlFakeMu.Unlock()
	h, err := sql.Open(sqlFakeDriverName, dsn)
	return h, fdb, err
}

func (d *sqlFakeDB) reset() {
	d.mu.Lock()
	d.rows = nil
	d.mu.Unlock()
}

type sqlFakeConn struct{ db *sqlFakeDB }

func (c *sqlFakeConn) Prepare(q string) (driver.Stmt, error) { return &sqlFakeStmt{c: c, q: q}, nil }
func (c *sqlFakeConn) Close() error                          { return nil }
func (c *sqlFakeConn) Begin() (driver.Tx, error) {
	return nil, errors.New("sqlfake: transactions are not supported")
}

func (c *sqlFakeConn) ExecContext(_ context.Context, q string, args []driver.NamedValue) (driver.Result, error) {
	return c.db.exec(q, args)
}

func (c *sqlFakeConn) QueryContext(_ context.Context, q string, args []driver.NamedValue) (driver.Rows, error) {
	return c.db.query(q, args)
}

type sqlFakeStmt struct {
	c *sqlFakeConn
	q string
}

func (s *sqlFakeStmt) Close() error  { return nil }
func (s *sqlFakeStmt) NumInput() int { return -1 }
func named(args []driver.Value) []driver.NamedValue {
	out := make([]driver.NamedValue, len(args))
	for i, a := range args {
		out[i] = driver.NamedValue{Ordinal: i + 1, Value: a}
	}
	return out
}
func (s *sqlFakeStmt) Exec(args []driver.Value) (driver.Result, error) {
	return s.c.db.exec(s.q, named(args))
}
func (s *sqlFakeStmt) Query(args []driver.Value) (driver.Rows, error) {
	return s.c.db.query(s.q, named(args))
}

type sqlFakeRows struct {
	cols []string
	data [][]driver.Value
	i    int
}

func (r *sqlFakeRows) Columns() []string { return r.cols }
func (r *sqlFakeRows) Close() error      { return nil }
func (r *sqlFakeRows) Next(dest []driver.Value) error {
	if r.i >= len(r.data) {
		return io.EOF
	}
	copy(dest, r.data[r.i])
	r.i++
	return nil
}

// ---- statement interpretation

type sqlTok struct {
	kind string // word | ph | num | punct
	s    string
	n    int // placeholder index (1-based) or number value
}

func (d *sqlFakeDB) tokenize(q string) ([]sqlTok, error) {
	var out []sqlTok
	positional := 0
	i := 0
	synerr := func(at int) error {
		return fmt.Errorf("sqlfake(%s): syntax error near %q", d.dialect, q[at:])
	}
	for i < len(q) {
		c := q[i]
		switch {
		case c == ' ' || c == '\t' || c == '\n' || c == '\r':
			i++
		case c == '(' || c == ')' || c == ',' || c == '=' || c == '*':
			out = append(out, sqlTok{kind: "punct", s: string(c)})
			i++
		case c == ';':
			if strings.TrimSpace(q[i+1:]) != "" {
				return nil, synerr(i)
			}
			i = len(q)
		case c == '?':
			if d.dialect != "mysql" {
				return nil, synerr(i)
			}
			positional++
			out = append(out, sqlTok{kind: "ph", s: "?", n: positional})
			i++
		case c == '$' || c == ':':
			if (c == '$' && d.dialect != "postgres") || (c == ':' && d.dialect != "oracle") {
				return nil, synerr(i)
			}
			j := i + 1
			for j < len(q) && q[j] >= '0' && q[j] <= '9' {
				j++
			}
			n, err := strconv.Atoi(q[i+1 : j])
			if err != nil || n < 1 {
				return nil, synerr(i)
			}
			out = append(out, sqlTok{kind: "ph", s: q[i:j], n: n})
			i = j
		case c >= '0' && c <= '9':
			j := i
			for j < len(q) && q[j] >= '0' && q[j] <= '9' {
				j++
			}
			n, _ := strconv.Atoi(q[i:j])
			out = append(out, sqlTok{kind: "num", s: q[i:j], n: n})
			i = j
		case c == '_' || (c >= 'a' && c <= 'z') || (c >= 'A' && c <= 'Z'):
			j := i
			for j < len(q) && (q[j] == '_' || (q[j] >= 'a' && q[j] <= 'z') || (q[j] >= 'A' && q[j] <= 'Z') || (q[j] >= '0' && q[j] <= '9')) {
				j++
			}
			out = append(out, sqlTok{kind: "word", s: strings.ToLower(q[i:j])})
			i = j
		default:
			return nil, synerr(i)
		}
	}
	return out, nil
}

type sqlParser struct {
	d    *sqlFakeDB
	q    string
	toks []sqlTok
	p    int
	args []driver.NamedValue
	used map[int]bool
}

func (p *sqlParser) err(what string) error {
	return fmt.Errorf("sqlfake(%s): %s in %q", p.d.dialect, what, p.q)
}
func (p *sqlParser) peek() sqlTok {
	if p.p < len(p.toks) {
		return p.toks[p.p]
	}
	return sqlTok{kind: "eof"}
}
func (p *sqlParser) next() sqlTok { t := p.peek(); p.p++; return t }
func (p *sqlParser) word(w string) bool {
	if t := p.peek(); t.kind == "word" && t.s == w {
		p.p++
		return true
	}
	return false
}
func (p *sqlParser) punct(s string) bool {
	if t := p.peek(); t.kind == "punct" && t.s == s {
		p.p++
		return true
	}
	return false
}
func (p *sqlParser) ident() (string, bool) {
	if t := p.peek(); t.kind == "word" {
		p.p++
		return t.s, true
	}
	return "", false
}
func (p *sqlParser) placeholder() (driver.Value, error) {
	t := p.next()
	if t.kind != "ph" {
		return nil, p.err("expected a bind placeholder")
	}
	for _, a := range p.args {
		if a.Ordinal == t.n {
			p.used[t.n] = true
			return a.Value, nil
		}
	}
	return nil, p.err(fmt.Sprintf("no argument bound for placeholder %s (%d arguments)", t.s, len(p.args)))
}
func (p *sqlParser) finish() error {
	if p.peek().kind != "eof" {
		return p.err("syntax error near " + p.peek().s)
	}
	if len(p.used) != len(p.args) {
		return p.err(fmt.Sprintf("%d arguments bound, %d placeholders", len(p.args), len(p.used)))
	}
	return nil
}

const sqlTable = "encryption_key"

var sqlCols = map[string]bool{"id": true, "created": true, "key_record": true}

func asString(v driver.Value) (string, bool) {
	switch x := v.(type) {
	case string:
		return x, true
	case []byte:
		return string(x), true
	}
	return "", false
}

func (d *sqlFakeDB) exec(q string, args []driver.NamedValue) (driver.Result, error) {
	d.mu.Lock()
	defer d.mu.Unlock()
	d.execs++
	toks, err := d.tokenize(q)
	if err != nil {
		return nil, err
	}
	p := &sqlParser{d: d, q: q, toks: toks, args: args, used: map[int]bool{}}
	if !p.word("insert") || !p.word("into") {
		return nil, p.err("only INSERT is supported by Exec")
	}
	if t, ok := p.ident(); !ok || t != sqlTable {
		return nil, p.err("table does not exist")
	}
	if !p.punct("(") {
		return nil, p.err("expected column list")
	}
	var cols []string
	for {
		c, ok := p.ident()
		if !ok || !sqlCols[c] {
			return nil, p.err("unknown column " + c)
		}
		cols = append(cols, c)
		if p.punct(",") {
			continue
		}
		break
	}
	if !p.punct(")") || !p.word("values") || !p.punct("(") {
		return nil, p.err("expected VALUES (")
	}
	vals := map[string]driver.Value{}
	for i, c := range cols {
		if i > 0 && !p.punct(",") {
			return nil, p.err("column count does not match value count")
		}
		v, err := p.placeholder()
		if err != nil {
			return nil, err
		}
		if _, dup := vals[c]; dup {
			return nil, p.err("column specified twice: " + c)
		}
		vals[c] = v
	}
	if !p.punct(")") {
		return nil, p.err("column count does not match value count")
	}
	if err := p.finish(); err != nil {
		return nil, err
	}
	var r sqlRow
	var ok bool
	if r.id, ok = asString(vals["id"]); !ok {
		return nil, p.err("column id cannot be null / is not a string")
	}
	if len(r.id) > 255 {
		return nil, p.err("data too long for column id")
	}
	t, isTime := vals["created"].(time.Time)
	if !isTime {
		return nil, p.err(fmt.Sprintf("incorrect datetime value for column created: %v", vals["created"]))
	}
	r.created = t.Truncate(time.Second) // TIMESTAMP without fractional seconds
	if r.rec, ok = asString(vals["key_record"]); !ok {
		return nil, p.err("column key_record cannot be null / is not text")
	}
	for _, e := range d.rows {
		if e.id == r.id && e.created.Equal(r.created) {
			return nil, fmt.Errorf("sqlfake(%s): Error 1062 (23000): Duplicate entry '%s-%s' for key 'encryption_key.PRIMARY'",
				d.dialect, r.id, r.created.UTC().Format("2006-01-02 15:04:05"))
		}
	}
	d.rows = append(d.rows, r)
	return driver.RowsAffected(1), nil
}

func (d *sqlFakeDB) query(q string, args []driver.NamedValue) (driver.Rows, error) {
	d.mu.Lock()
	defer d.mu.Unlock()
	d.queries++
	toks, err := d.tokenize(q)
	if err != nil {
		return nil, err
	}
	p := &sqlParser{d: d, q: q, toks: toks, args: args, used: map[int]bool{}}
	if !p.word("select") {
		return nil, p.err("only SELECT is supported by Query")
	}
	var cols []string
	if p.punct("*") {
		cols = []string{"id", "created", "key_record"}
	} else {
		for {
			c, ok := p.ident()
			if !ok || !sqlCols[c] {
				return nil, p.err("unknown column " + c)
			}
			cols = append(cols, c)
			if p.punct(",") {
				continue
			}
			break
		}
	}
	if !p.word("from") {
		return nil, p.err("expected FROM")
	}
	if t, ok := p.ident(); !ok || t != sqlTable {
		return nil, p.err("table does not exist")
	}
	type eq struct {
		col string
		v   driver.Value
	}
	var where []eq
	if p.word("where") {
		for {
			c, ok := p.ident()
			if !ok || !sqlCols[c] {
				return nil, p.err("unknown column in WHERE: " + c)
			}
			if !p.punct("=") {
				return nil, p.err("only equality predicates are supported")
			}
			v, err := p.placeholder()
			if err != nil {
				return nil, err
			}
			where = append(where, eq{c, v})
			if p.word("and") {
				continue
			}
			break
		}
	}
	orderCol, desc := "", false
	if p.word("order") {
		if !p.word("by") {
			return nil, p.err("expected BY")
		}
		c, ok := p.ident()
		if !ok || !sqlCols[c] {
			return nil, p.err("unknown column in ORDER BY: " + c)
		}
		orderCol = c
		if p.word("desc") {
			desc = true
		} else {
			p.word("asc")
		}
	}
	limit := -1
	if p.word("limit") {
		t := p.next()
		switch t.kind {
		case "num":
			limit = t.n
		default:
			return nil, p.err("expected a number after LIMIT")
		}
	}
	if err := p.finish(); err != nil {
		return nil, err
	}
	var sel []sqlRow
	for _, r := range d.rows {
		match := true
		for _, w := range where {
			switch w.col {
			case "id":
				s, ok := asString(w.v)
				if !ok {
					return nil, p.err("id compared with a non-string value")
				}
				match = match && r.id == s
			case "created":
				t, ok := w.v.(time.Time)
				if !ok {
					return nil, p.err(fmt.Sprintf("created compared with a non-timestamp value %v", w.v))
				}
				match = match && r.created.Equal(t)
			case "key_record":
				s, ok := asString(w.v)
				if !ok {
					return nil, p.err("key_record compared with a non-text value")
				}
				match = match && r.rec == s
			}
		}
		if match {
			sel = append(sel, r)
		}
	}
	if orderCol != "" {
		less := func(a, b sqlRow) bool {
			switch orderCol {
			case "id":
				return a.id < b.id
			case "created":
				return a.created.Before(b.created)
			}
			return a.rec < b.rec
		}
		sort.SliceStable(sel, func(i, j int) bool {
			if desc {
				return less(sel[j], sel[i])
			}
			return less(sel[i], sel[j])
		})
	}
	if limit >= 0 && len(sel) > limit {
		sel = sel[:limit]
	}
	out := &sqlFakeRows{cols: cols}
	for _, r := range sel {
		var vals []driver.Value
		for _, c := range cols {
			switch c {
			case "id":
				vals = append(vals, r.id)
			case "created":
				vals = append(vals, r.created)
			default:
				vals = append(vals, []byte(r.rec)) // TEXT comes back as bytes, as with go-sql-driver/mysql
			}
		}
		out.data = append(out.data, vals)
	}
	return out, nil
}
