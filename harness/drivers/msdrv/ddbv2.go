package msdrv

// aws-sdk-go-v2 client fake: implements plugins/aws-v2/dynamodb/metastore.DynamoDBClient over a ddbTable.

import (
	"context"

	"github.com/aws/aws-sdk-go-v2/aws"
	"github.com/aws/aws-sdk-go-v2/service/dynamodb"
	"github.com/aws/aws-sdk-go-v2/service/dynamodb/types"
	"github.com/aws/smithy-go"
)

type v2Client struct {
	t      *ddbTable
	region string
}

func v2In(a types.AttributeValue) *av {
	switch x := a.(type) {
	case *types.AttributeValueMemberS:
		return &av{T: "S", S: x.Value}
	case *types.AttributeValueMemberN:
		return &av{T: "N", S: x.Value}
	case *types.AttributeValueMemberBOOL:
		return &av{T: "BOOL", Bool: x.Value}
	case *types.AttributeValueMemberNULL:
		return &av{T: "NULL", Bool: x.Value}
	case *types.AttributeValueMemberB:
		return &av{T: "B", B: append([]byte{}, x.Value...)}
	case *types.AttributeValueMemberM:
		m := make(map[string]*av, len(x.Value))
		for k, v := range x.Value {
			m[k] = v2In(v)
		}
		return &av{T: "M", M: m}
	case *types.AttributeValueMemberL:
		o := &av{T: "L", L: []*av{}}
		for _, v := range x.Value {
			o.L = append(o.L, v2In(v))
		}
		return o
	case *types.AttributeValueMemberSS:
		return &av{T: "SS", SS: append([]string{}, x.Value...)}
	case *types.AttributeValueMemberNS:
		return &av{T: "NS", SS: append([]string{}, x.Value...)}
	case *types.AttributeValueMemberBS:
		o := &av{T: "BS"}
		for _, b := range x.Value {
			o.BS = append(o.BS, append([]byte{}, b...))
		}
		return o
	}
	return &av{T: "EMPTY"}
}

func v2Out(a *av) types.AttributeValue {
	if a == nil {
		return nil
	}
	switch a.T {
	case "S":
		return &types.AttributeValueMemberS{Value: a.S}
	case "N":
		return &types.AttributeValueMemberN{Value: a.S}
	case "BOOL":
		return &types.AttributeValueMemberBOOL{Value: a.Bool}
	case "NULL":
		return &types.AttributeValueMemberNULL{Value: a.Bool}
	case "B":
		return &types.AttributeValueMemberB{Value: append([]byte{}, a.B...)}
	case "M":
		m := make(map[string]types.AttributeValue, len(a.M))
		for k, v := range a.M {
			m[k] = v2Out(v)
		}
		return &types.AttributeValueMemberM{Value: m}
	case "L":
		l := []types.AttributeValue{}
		for _, v := range a.L {
			l = append(l, v2Out(v))
		}
		return &types.AttributeValueMemberL{Value: l}
	case "SS":
		return &types.AttributeValueMemberSS{Value: append([]string{}, a.SS...)}
	case "NS":
		return &types.AttributeValueMemberNS{Value: append([]string{}, a.SS...)}
	case "BS":
		o := &types.AttributeValueMemberBS{}
		for _, b := range a.BS {
			o.Value = append(o.Value, append([]byte{}, b...))
		}
		return o
	}
	return nil
}

func v2Item(m map[string]types.AttributeValue) (item, *ddbErr) {
	it := make(item, len(m))
	for k, v := range m {
		x := v2In(v)
		if x.T == "EMPTY" {
			return nil, &ddbErr{errValidation, "Supplied AttributeValue is empty, must contain exactly one of the supported datatypes: " + k}
		}
		it[k] = x
	}
	return it, nil
}

func v2ItemOut(it item) map[string]types.AttributeValue {
	if it == nil {
		return nil
	}
	m := make(map[string]types.AttributeValue, len(it))
	for k, v := range it {
		m[k] = v2Out(v)
	}
	return m
}

// v2Err builds the error the SDK would return: the modelled exception inside a smithy OperationError.
func v2Err(op string, e *ddbErr) error {
	if e == nil {
		return nil
	}
	var inner error
	switch e.Code {
	case errCondFailed:
		inner = &types.ConditionalCheckFailedException{Message: aws.String(e.Msg)}
	case errNoTable:
		inner = &types.ResourceNotFoundException{Message: aws.String(e.Msg)}
	default:
		inner = &smithy.GenericAPIError{Code: e.Code, Message: e.Msg, Fault: smithy.FaultClient}
	}
	return &smithy.OperationError{ServiceID: "DynamoDB", OperationName: op, Err: inner}
}

func (c *v2Client) Options() dynamodb.Options { return dynamodb.Options{Region: c.region} }

func (c *v2Client) PutItem(_ context.Context, in *dynamodb.PutItemInput, _ ...func(*dynamodb.Options)) (*dynamodb.PutItemOutput, error) {
	if in.Expected != nil || in.ConditionalOperator != "" {
		return nil, v2Err("PutItem", &ddbErr{errValidation, "legacy conditional parameters are not supported by the table fake"})
	}
	it, e := v2Item(in.Item)
	if e != nil {
		return nil, v2Err("PutItem", e)
	}
	if len(in.ExpressionAttributeValues) > 0 && in.ConditionExpression == nil {
		return nil, v2Err("PutItem", &ddbErr{errValidation, "ExpressionAttributeValues can only be specified when using expressions"})
	}
	names := in.ExpressionAttributeNames
	if names == nil {
		names = map[string]string{}
	}
	if e := c.t.Put(in.TableName, it, in.ConditionExpression, names); e != nil {
		return nil, v2Err("PutItem", e)
	}
	return &dynamodb.PutItemOutput{}, nil
}

func (c *v2Client) GetItem(_ context.Context, in *dynamodb.GetItemInput, _ ...func(*dynamodb.Options)) (*dynamodb.GetItemOutput, error) {
	if in.AttributesToGet != nil {
		return nil, v2Err("GetItem", &ddbErr{errValidation, "AttributesToGet is not supported by the table fake"})
	}
	key, e := v2Item(in.Key)
	if e != nil {
		return nil, v2Err("GetItem", e)
	}
	names := in.ExpressionAttributeNames
	if names == nil {
		names = map[string]string{}
	}
	it, e := c.t.Get(in.TableName, key, aws.ToBool(in.ConsistentRead), in.ProjectionExpression, names)
	if e != nil {
		return nil, v2Err("GetItem", e)
	}
	return &dynamodb.GetItemOutput{Item: v2ItemOut(it)}, nil
}

func (c *v2Client) Query(_ context.Context, in *dynamodb.QueryInput, _ ...func(*dynamodb.Options)) (*dynamodb.QueryOutput, error) {
	if in.IndexName != nil || in.FilterExpression != nil || in.ExclusiveStartKey != nil || in.KeyConditions != nil ||
		in.QueryFilter != nil || in.AttributesToGet != nil || in.Select != "" {
		return nil, v2Err("Query", &ddbErr{errValidation, "query parameter not supported by the table fake"})
	}
	vals, e := v2Item(in.ExpressionAttributeValues)
	if e != nil {
		return nil, v2Err("Query", e)
	}
	fwd := true
	if in.ScanIndexForward != nil {
		fwd = *in.ScanIndexForward
	}
	if in.Limit != nil && *in.Limit < 1 {
		return nil, v2Err("Query", &ddbErr{errValidation, "Limit must be >= 1"})
	}
	names := in.ExpressionAttributeNames
	if names == nil {
		names = map[string]string{}
	}
	items, e := c.t.Query(in.TableName, in.KeyConditionExpression, names, vals,
		aws.ToBool(in.ConsistentRead), fwd, int(aws.ToInt32(in.Limit)), in.ProjectionExpression)
	if e != nil {
		return nil, v2Err("Query", e)
	}
	out := &dynamodb.QueryOutput{Items: []map[string]types.AttributeValue{}, Count: int32(len(items))}
	for _, it := range items {
		out.Items = append(out.Items, v2ItemOut(it))
	}
	return out, nil
}
