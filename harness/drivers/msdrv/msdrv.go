// Package msdrv binds spec/Metastore.tla (property C13) to the four metastore implementations of the repository:
//
//	pkg/persistence.MemoryMetastore
//	pkg/persistence.SQLMetastore                  over a database/sql driver fake (sqlfake.go), 3 placeholder dialects
//	plugins/aws-v1/persistence.DynamoDBMetastore  over a semantic client fake (ddbfake.go, ddbv1.go)
//	plugins/aws-v2/dynamodb/metastore.Metastore   over the same table fake (ddbv2.go)
//
// Every TLC-generated case (a sequence of Store / Load / LoadLatest calls with arguments) is executed on every
// backend x configuration through the public appencryption.Metastore interface; each call, its arguments and every
// field of what it returned are written to an ndjson trace that TLC validates against MetastoreTrace.tla. The driver
// does not know what a metastore should do: the expectation printed by TLC with each case is only compared verbatim
// (field "agree") as a cross-check of the generator against the trace specification.
package msdrv

import (
	"context"
	"database/sql"
	"encoding/hex"
	"encoding/json"
	"fmt"
	"runtime/debug"
	"sort"
	"strings"

	awsv1 "github.com/aws/aws-sdk-go/aws"
	"github.com/aws/aws-sdk-go/aws/session"

	"github.com/godaddy/asherah/go/appencryption"
	"github.com/godaddy/asherah/go/appencryption/pkg/persistence"
	v1ms "github.com/godaddy/asherah/go/appencryption/plugins/aws-v1/persistence"
	v2ms "github.com/godaddy/asherah/go/appencryption/plugins/aws-v2/dynamodb/metastore"

	"verif.local/harness/vutil"
)

// Var is the content of a record handed to Store.
type Var struct {
	Key  string `json:"key"` // EncryptedKey, lower-case hex
	Rev  bool   `json:"rev"`
	Hasp bool   `json:"hasp"` // ParentKeyMeta present
	Pid  string `json:"pid"`
	Pc   int64  `json:"pc"`
}

// Rec is a record as returned by Load / LoadLatest (found=false: nil was returned).
type Rec struct {
	Found   bool   `json:"found"`
	Created int64  `json:"created"`
	Key     string `json:"key"`
	Rev     bool   `json:"rev"`
	Hasp    bool   `json:"hasp"`
	Pid     string `json:"pid"`
	Pc      int64  `json:"pc"`
}

// Op is one call with the result Metastore.tla demands (printed by TLC).
type Op struct {
	Op  string `json:"op"` // store | load | latest
	ID  string `json:"id"`
	C   int64  `json:"c"`
	V   Var    `json:"v"`
	Ok  bool   `json:"ok"`
	Res Rec    `json:"res"`
}

// FinRec is one entry of the table content TLC prints with a case (fin: records present, finl: LoadLatest per id).
type FinRec struct {
	ID  string `json:"id"`
	C   int64  `json:"c"`
	Res Rec    `json:"res"`
}

type Case struct {
	Path  []Op     `json:"path"`
	Step  Op       `json:"step"`
	Stale bool     `json:"stale"`
	Fin   []FinRec `json:"fin"`
	FinL  []FinRec `json:"finl"`
}

// Event is one line of the trace (flat; the same shape for every kind so that TLC sees uniform records).
type Event struct {
	E       string `json:"e"`
	Run     int    `json:"run"`
	ID      string `json:"id"`
	C       int64  `json:"c"`
	Key     string `json:"key"`
	Rev     bool   `json:"rev"`
	Hasp    bool   `json:"hasp"`
	Pid     string `json:"pid"`
	Pc      int64  `json:"pc"`
	Ok      bool   `json:"ok"`
	Found   bool   `json:"found"`
	Created int64  `json:"created"`
	Err     bool   `json:"err"`
	Errs    string `json:"errs,omitempty"`
	Panic   string `json:"panic"`
	Agree   bool   `json:"agree"` // equals the expectation TLC printed with the case (informational)
	Exp     string `json:"exp"`   // that expectation, abbreviated (informational)
	Step    int    `json:"step"`
}

type ResetEvent struct {
	E       string `json:"e"`
	Run     int    `json:"run"`
	Backend string `json:"backend"`
	Config  string `json:"config"`
	Dialect string `json:"dialect"`
	Table   string `json:"table"`
	Suffix  bool   `json:"suffix"`
	RSuffix string `json:"rsuffix"` // what GetRegionSuffix() reports
	Case    int    `json:"case"`
}

type ReadBack struct {
	ID      string `json:"id"`
	C       int64  `json:"c"`
	Found   bool   `json:"found"`
	Created int64  `json:"created"`
	Key     string `json:"key"`
	Rev     bool   `json:"rev"`
	Hasp    bool   `json:"hasp"`
	Pid     string `json:"pid"`
	Pc      int64  `json:"pc"`
	Err     bool   `json:"err"`
	Errs    string `json:"errs,omitempty"`
	Agree   bool   `json:"agree"`
}

type FinalEvent struct {
	E       string     `json:"e"`
	Run     int        `json:"run"`
	Loads   []ReadBack `json:"loads"`
	Latests []ReadBack `json:"latests"`
	Panic   string     `json:"panic"`
	Agree   bool       `json:"agree"`
}

// Backend describes one implementation x configuration.
type Backend struct {
	Name    string // memory | sql | ddbv1 | ddbv2
	Config  string
	Dialect string
	Table   string // "" = default table name
	Suffix  bool
}

func (b Backend) String() string {
	if b.Config == "" {
		return b.Name
	}
	return b.Name + "/" + b.Config
}

const (
	defaultDDBTable = "EncryptionKey" // docs/Metastore.md
	customDDBTable  = "Verif_Custom.Keys-2"
	fakeRegion      = "us-west-2"
)

// Backends is the configuration space of the property's quantifier.
func Backends() []Backend {
	bs := []Backend{{Name: "memory"}}
	for _, d := range []string{"mysql", "postgres", "oracle"} {
		bs = append(bs, Backend{Name: "sql", Config: d, Dialect: d})
	}
	for _, n := range []string{"ddbv1", "ddbv2"} {
		for _, tbl := range []string{"", customDDBTable} {
			for _, sfx := range []bool{false, true} {
				c := "default-table"
				if tbl != "" {
					c = "custom-table"
				}
				if sfx {
					c += "+region-suffix"
				}
				bs = append(bs, Backend{Name: n, Config: c, Table: tbl, Suffix: sfx})
			}
		}
	}
	return bs
}

type env struct {
	sqlH   map[string]*sql.DB
	sqlF   map[string]*sqlFakeDB
	sess   *session.Session
	tables []*ddbTable
	stats  map[string]int
}

func newEnv() (*env, error) {
	e := &env{sqlH: map[string]*sql.DB{}, sqlF: map[string]*sqlFakeDB{}, stats: map[string]int{}}
	for _, d := range []string{"mysql", "postgres", "oracle"} {
		h, f, err := openSQLFake(d)
		if err != nil {
			return nil, err
		}
		e.sqlH[d], e.sqlF[d] = h, f
	}
	// a real (offline) aws-sdk-go session: NewDynamoDBMetastore builds its default client from it before WithClient
	// replaces that client, and WithDynamoDBRegionSuffix reads the region from it
	s, err := session.NewSession(&awsv1.Config{Region: awsv1.String(fakeRegion)})
	if err != nil {
		return nil, err
	}
	e.sess = s
	return e, nil
}

func (e *env) close() {
	for _, h := range e.sqlH {
		h.Close()
	}
}

// open builds a fresh, empty metastore of the given kind.
func (e *env) open(b Backend) (appencryption.Metastore, string, error) {
	switch b.Name {
	case "memory":
		return persistence.NewMemoryMetastore(), "", nil
	case "sql":
		e.sqlF[b.Dialect].reset()
		var t persistence.SQLMetastoreDBType
		switch b.Dialect {
		case "mysql":
			t = persistence.MySQL
		case "postgres":
			t = persistence.Postgres
		case "oracle":
			t = persistence.Oracle
		}
		return persistence.NewSQLMetastore(e.sqlH[b.Dialect], persistence.WithSQLMetastoreDBType(t)), "", nil
	case "ddbv1":
		name := defaultDDBTable
		opts := []v1ms.DynamoDBMetastoreOption{}
		if b.Table != "" {
			name = b.Table
			opts = append(opts, v1ms.WithTableName(b.Table))
		}
		tbl := newDDBTable(name)
		e.tables = append(e.tables[:0], tbl)
		opts = append(opts, v1ms.WithDynamoDBRegionSuffix(b.Suffix), v1ms.WithClient(&v1Client{t: tbl}))
		m := v1ms.NewDynamoDBMetastore(e.sess, opts...)
		return m, m.GetRegionSuffix(), nil
	case "ddbv2":
		name := defaultDDBTable
		opts := []v2ms.Option{}
		if b.Table != "" {
			name = b.Table
			opts = append(opts, v2ms.WithTableName(b.Table))
		}
		tbl := newDDBTable(name)
		e.tables = append(e.tables[:0], tbl)
		opts = append(opts, v2ms.WithRegionSuffix(b.Suffix), v2ms.WithDynamoDBClient(&v2Client{t: tbl, region: fakeRegion}))
		m, err := v2ms.NewDynamoDB(opts...)
		if err != nil {
			return nil, "", err
		}
		return m, m.GetRegionSuffix(), nil
	}
	return nil, "", fmt.Errorf("unknown backend %q", b.Name)
}

func (e *env) collect() {
	for _, t := range e.tables {
		e.stats["ddb_consistent_reads"] += t.consistentReads
		e.stats["ddb_lagging_reads"] += t.laggingReads
		e.stats["ddb_puts"] += t.puts
	}
	e.tables = e.tables[:0]
}

// createdSkew: in every third case the record's OWN Created field differs from the creation time it is stored under by this much
// (the envelope is a value the store keeps intact; the key is the (id, created) pair given to Store). What is read back is
// reported with the skew taken off again, so Metastore.tla's "the record stored under (id, created)" applies unchanged.
var createdSkew int64

func toRec(r *appencryption.EnvelopeKeyRecord) Rec {
	if r == nil {
		return Rec{}
	}
	o := Rec{Found: true, Created: r.Created - createdSkew, Key: hex.EncodeToString(r.EncryptedKey), Rev: r.Revoked}
	if r.ParentKeyMeta != nil {
		o.Hasp, o.Pid, o.Pc = true, r.ParentKeyMeta.ID, r.ParentKeyMeta.Created
	}
	return o
}

// record builds a private EnvelopeKeyRecord (MemoryMetastore keeps the caller's pointer; nothing here touches it again).
func record(id string, c int64, v Var) (*appencryption.EnvelopeKeyRecord, error) {
	kb, err := hex.DecodeString(v.Key)
	if err != nil {
		return nil, err
	}
	r := &appencryption.EnvelopeKeyRecord{ID: id, Created: c + createdSkew, Revoked: v.Rev, EncryptedKey: kb}
	if v.Hasp {
		r.ParentKeyMeta = &appencryption.KeyMeta{ID: v.Pid, Created: v.Pc}
	}
	return r, nil
}

func guard(f func()) (p string) {
	defer func() {
		if r := recover(); r != nil {
			st := string(debug.Stack())
			if len(st) > 1500 {
				st = st[:1500]
			}
			p = fmt.Sprintf("%v\n%s", r, st)
		}
	}()
	f()
	return ""
}

func errStr(err error) string {
	if err == nil {
		return ""
	}
	s := err.Error()
	if len(s) > 300 {
		s = s[:300]
	}
	return s
}

func doLoad(ctx context.Context, m appencryption.Metastore, id string, c int64) (rec Rec, err error, pan string) {
	pan = guard(func() {
		var r *appencryption.EnvelopeKeyRecord
		r, err = m.Load(ctx, id, c)
		rec = toRec(r)
	})
	return
}

func doLatest(ctx context.Context, m appencryption.Metastore, id string) (rec Rec, err error, pan string) {
	pan = guard(func() {
		var r *appencryption.EnvelopeKeyRecord
		r, err = m.LoadLatest(ctx, id)
		rec = toRec(r)
	})
	return
}

func expStr(op Op) string {
	if op.Op == "store" {
		return fmt.Sprintf("ok=%v", op.Ok)
	}
	if !op.Res.Found {
		return "none"
	}
	r := op.Res
	r.Key = ShortKey(r.Key)
	b, _ := json.Marshal(r)
	return string(b)
}

// ShortKey abbreviates long hex keys in informational fields.
func ShortKey(k string) string {
	if len(k) > 32 {
		return fmt.Sprintf("%s..%s(%dB)", k[:12], k[len(k)-8:], len(k)/2)
	}
	return k
}

// Options of a replay.
type Options struct {
	Seed int64
	Only string // substring filter on "backend/config"
	Max  int    // execute at most this many cases (stride sampling, offset from the seed); 0 = all
}

// Replay executes every case on every backend x configuration.
func Replay(inPath, tracePath, outPath string, o Options) error {
	in, err := vutil.OpenIn(inPath)
	if err != nil {
		return err
	}
	defer in.Close()
	var cases [][]byte
	if err := vutil.ReadCases(in, func(raw []byte) error {
		if len(raw) > 0 && raw[0] == '{' && strings.Contains(string(raw[:min(len(raw), 200)]), "\"path\"") {
			cases = append(cases, append([]byte(nil), raw...))
		}
		return nil
	}); err != nil {
		return err
	}
	if o.Max > 0 && len(cases) > o.Max {
		stride := float64(len(cases)) / float64(o.Max)
		off := float64(uint64(o.Seed)%1000) / 1000 * stride
		var pick [][]byte
		for i := 0; i < o.Max; i++ {
			j := int(off + float64(i)*stride)
			if j >= len(cases) {
				j = len(cases) - 1
			}
			pick = append(pick, cases[j])
		}
		cases = pick
	}
	tw, err := vutil.NewTraceWriter(tracePath)
	if err != nil {
		return err
	}
	defer tw.Close()
	e, err := newEnv()
	if err != nil {
		return err
	}
	defer e.close()
	var backends []Backend
	exact := false
	for _, b := range Backends() {
		exact = exact || b.String() == o.Only
	}
	for _, b := range Backends() {
		if o.Only == "" || b.String() == o.Only || (!exact && strings.Contains(b.String(), o.Only)) {
			backends = append(backends, b)
		}
	}
	if len(backends) == 0 {
		return fmt.Errorf("no backend configuration matches %q", o.Only)
	}
	res := &vutil.Result{Driver: "msdrv", Extra: map[string]interface{}{}}
	disagree := map[string]int{}
	perBackend := map[string]int{}
	ids, stamps := map[string]bool{}, map[int64]bool{}
	ctx := context.Background()
	run := 0
	nStale, nDup := 0, 0
	for ci, raw := range cases {
		createdSkew = 0
		if ci%3 == 2 {
			createdSkew = 1000003
		}
		var c Case
		if err := json.Unmarshal(raw, &c); err != nil {
			return fmt.Errorf("case %d: %w", ci, err)
		}
		ops := append(append([]Op{}, c.Path...), c.Step)
		interesting := c.Stale
		for _, op := range ops {
			ids[op.ID] = true
			if op.Op != "latest" {
				stamps[op.C] = true
			}
			if op.Op == "store" && !op.Ok {
				interesting = true
			}
		}
		if c.Stale {
			nStale++
		}
		if c.Step.Op == "store" && !c.Step.Ok {
			nDup++
		}
		if interesting {
			res.Nontrivial++
		}
		res.Evaluations++
		res.Sample(raw, 3)
		for _, b := range backends {
			run++
			perBackend[b.String()]++
			m, rsuffix, err := e.open(b)
			if err != nil {
				return fmt.Errorf("cannot build %s: %w", b, err)
			}
			tw.Emit(ResetEvent{E: "reset", Run: run, Backend: b.Name, Config: b.Config, Dialect: b.Dialect, Table: b.Table,
				Suffix: b.Suffix, RSuffix: rsuffix, Case: ci})
			type pair struct {
				id string
				c  int64
			}
			usedPairs := map[pair]bool{}
			usedIDs := map[string]bool{}
			for si, op := range ops {
				ev := Event{E: op.Op, Run: run, ID: op.ID, C: op.C, Step: si + 1, Exp: expStr(op)}
				usedIDs[op.ID] = true
				switch op.Op {
				case "store":
					usedPairs[pair{op.ID, op.C}] = true
					rec, err := record(op.ID, op.C, op.V)
					if err != nil {
						return fmt.Errorf("case %d: %w", ci, err)
					}
					ev.Key, ev.Rev, ev.Hasp, ev.Pid, ev.Pc = op.V.Key, op.V.Rev, op.V.Hasp, op.V.Pid, op.V.Pc
					var ok bool
					var serr error
					ev.Panic = guard(func() { ok, serr = m.Store(ctx, op.ID, op.C, rec) })
					ev.Ok, ev.Err, ev.Errs = ok, serr != nil, errStr(serr)
					ev.Agree = ev.Panic == "" && ok == op.Ok && !(ok && serr != nil)
				case "load":
					usedPairs[pair{op.ID, op.C}] = true
					r, lerr, pan := doLoad(ctx, m, op.ID, op.C)
					ev.Found, ev.Created, ev.Key, ev.Rev, ev.Hasp, ev.Pid, ev.Pc = r.Found, r.Created, r.Key, r.Rev, r.Hasp, r.Pid, r.Pc
					ev.Err, ev.Errs, ev.Panic = lerr != nil, errStr(lerr), pan
					ev.Agree = pan == "" && lerr == nil && r == op.Res
				case "latest":
					r, lerr, pan := doLatest(ctx, m, op.ID)
					ev.Found, ev.Created, ev.Key, ev.Rev, ev.Hasp, ev.Pid, ev.Pc = r.Found, r.Created, r.Key, r.Rev, r.Hasp, r.Pid, r.Pc
					ev.Err, ev.Errs, ev.Panic = lerr != nil, errStr(lerr), pan
					ev.Agree = pan == "" && lerr == nil && r == op.Res
				default:
					return fmt.Errorf("case %d: unknown op %q", ci, op.Op)
				}
				if !ev.Agree {
					disagree[b.String()+" "+op.Op]++
				}
				tw.Emit(ev)
			}
			// final read-back of everything the run touched
			fin := FinalEvent{E: "final", Run: run, Loads: []ReadBack{}, Latests: []ReadBack{}, Agree: true}
			var ps []pair
			for p := range usedPairs {
				ps = append(ps, p)
			}
			sort.Slice(ps, func(i, j int) bool {
				if ps[i].id != ps[j].id {
					return ps[i].id < ps[j].id
				}
				return ps[i].c < ps[j].c
			})
			var us []string
			for id := range usedIDs {
				us = append(us, id)
			}
			sort.Strings(us)
			for _, p := range ps {
				r, lerr, pan := doLoad(ctx, m, p.id, p.c)
				if pan != "" {
					fin.Panic = pan
				}
				var want Rec // nothing, unless TLC listed a record under this key
				for _, f := range c.Fin {
					if f.ID == p.id && f.C == p.c {
						want = f.Res
					}
				}
				ag := pan == "" && lerr == nil && r == want
				fin.Agree = fin.Agree && ag
				fin.Loads = append(fin.Loads, ReadBack{ID: p.id, C: p.c, Found: r.Found, Created: r.Created, Key: r.Key, Rev: r.Rev,
					Hasp: r.Hasp, Pid: r.Pid, Pc: r.Pc, Err: lerr != nil, Errs: errStr(lerr), Agree: ag})
			}
			for _, id := range us {
				r, lerr, pan := doLatest(ctx, m, id)
				if pan != "" {
					fin.Panic = pan
				}
				ag := false
				for _, f := range c.FinL {
					if f.ID == id {
						ag = pan == "" && lerr == nil && r == f.Res
					}
				}
				fin.Agree = fin.Agree && ag
				fin.Latests = append(fin.Latests, ReadBack{ID: id, Found: r.Found, Created: r.Created, Key: r.Key, Rev: r.Rev,
					Hasp: r.Hasp, Pid: r.Pid, Pc: r.Pc, Err: lerr != nil, Errs: errStr(lerr), Agree: ag})
			}
			if c.FinL == nil {
				fin.Agree = true // a hand-written case without the table content: nothing to compare with
			}
			if !fin.Agree {
				disagree[b.String()+" final"]++
			}
			tw.Emit(fin)
			e.collect()
		}
	}
	res.Traces, res.Events = run, tw.N
	var idl []string
	for id := range ids {
		idl = append(idl, id)
	}
	sort.Strings(idl)
	var stl []int64
	for s := range stamps {
		stl = append(stl, s)
	}
	sort.Slice(stl, func(i, j int) bool { return stl[i] < stl[j] })
	res.Extra["ids"] = idl
	res.Extra["stamps"] = stl
	res.Extra["runs_per_backend"] = perBackend
	res.Extra["disagree"] = disagree
	res.Extra["stale_distinguishing_cases"] = nStale
	res.Extra["duplicate_store_cases"] = nDup
	res.Extra["fake_stats"] = e.stats
	res.Rule = "every case on " + fmt.Sprint(len(backends)) + " backend configurations; verdict by TLC trace validation"
	res.Print(outPath)
	return nil
}
