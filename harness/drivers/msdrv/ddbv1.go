package msdrv

// aws-sdk-go (v1) client fake: implements plugins/aws-v1/persistence.DynamoDBClientAPI over a ddbTable.

import (
	"github.com/aws/aws-sdk-go/aws"
	"github.com/aws/aws-sdk-go/aws/awserr"
	"github.com/aws/aws-sdk-go/aws/request"
	"github.com/aws/aws-sdk-go/service/dynamodb"
)

type v1Client struct{ t *ddbTable }

func v1In(a *dynamodb.AttributeValue) *av {
	if a == nil {
		return nil
	}
	switch {
	case a.S != nil:
		return &av{T: "S", S: *a.S}
	case a.N != nil:
		return &av{T: "N", S: *a.N}
	case a.BOOL != nil:
		return &av{T: "BOOL", Bool: *a.BOOL}
	case a.NULL != nil:
		return &av{T: "NULL", Bool: *a.NULL}
	case a.M != nil:
		m := make(map[string]*av, len(a.M))
		for k, v := range a.M {
			m[k] = v1In(v)
		}
		return &av{T: "M", M: m}
	case a.L != nil:
		o := &av{T: "L", L: []*av{}}
		for _, v := range a.L {
			o.L = append(o.L, v1In(v))
		}
		return o
	case a.SS != nil:
		return &av{T: "SS", SS: aws.StringValueSlice(a.SS)}
	case a.NS != nil:
		return &av{T: "NS", SS: aws.StringValueSlice(a.NS)}
	case a.BS != nil:
		o := &av{T: "BS"}
		for _, b := range a.BS {
			o.BS = append(o.BS, append([]byte{}, b...))
		}
		return o
	case a.B != nil:
		return &av{T: "B", B: append([]byte{}, a.B...)}
	}
	return &av{T: "EMPTY"}
}

func v1Out(a *av) *dynamodb.AttributeValue {
	if a == nil {
		return nil
	}
	switch a.T {
	case "S":
		return &dynamodb.AttributeValue{S: aws.String(a.S)}
	case "N":
		return &dynamodb.AttributeValue{N: aws.String(a.S)}
	case "BOOL":
		return &dynamodb.AttributeValue{BOOL: aws.Bool(a.Bool)}
	case "NULL":
		return &dynamodb.AttributeValue{NULL: aws.Bool(a.Bool)}
	case "M":
		m := make(map[string]*dynamodb.AttributeValue, len(a.M))
		for k, v := range a.M {
			m[k] = v1Out(v)
		}
		return &dynamodb.AttributeValue{M: m}
	case "L":
		l := []*dynamodb.AttributeValue{}
		for _, v := range a.L {
			l = append(l, v1Out(v))
		}
		return &dynamodb.AttributeValue{L: l}
	case "SS":
		return &dynamodb.AttributeValue{SS: aws.StringSlice(a.SS)}
	case "NS":
		return &dynamodb.AttributeValue{NS: aws.StringSlice(a.SS)}
	case "BS":
		o := &dynamodb.AttributeValue{}
		for _, b := range a.BS {
			o.BS = append(o.BS, append([]byte{}, b...))
		}
		return o
	case "B":
		return &dynamodb.AttributeValue{B: append([]byte{}, a.B...)}
	}
	return &dynamodb.AttributeValue{}
}

func v1Item(m map[string]*dynamodb.AttributeValue) (item, *ddbErr) {
	it := make(item, len(m))
	for k, v := range m {
		x := v1In(v)
		if x == nil || x.T == "EMPTY" {
			return nil, &ddbErr{errValidation, "Supplied AttributeValue is empty, must contain exactly one of the supported datatypes: " + k}
		}
		it[k] = x
	}
	return it, nil
}

func v1ItemOut(it item) map[string]*dynamodb.AttributeValue {
	if it == nil {
		return nil
	}
	m := make(map[string]*dynamodb.AttributeValue, len(it))
	for k, v := range it {
		m[k] = v1Out(v)
	}
	return m
}

func v1Names(m map[string]*string) map[string]string {
	o := map[string]string{}
	for k, v := range m {
		if v != nil {
			o[k] = *v
		}
	}
	return o
}

// v1Err builds the error the SDK would return: the modelled exception type where the SDK has one (it implements
// awserr.Error with the service's error code), a plain awserr otherwise.
func v1Err(e *ddbErr) error {
	if e == nil {
		return nil
	}
	switch e.Code {
	case errCondFailed:
		return &dynamodb.ConditionalCheckFailedException{Message_: aws.String(e.Msg)}
	case errNoTable:
		return &dynamodb.ResourceNotFoundException{Message_: aws.String(e.Msg)}
	}
	return awserr.NewRequestFailure(awserr.New(e.Code, e.Msg, nil), 400, "VERIF-FAKE")
}

func (c *v1Client) PutItemWithContext(_ aws.Context, in *dynamodb.PutItemInput, _ ...request.Option) (*dynamodb.PutItemOutput, error) {
	if in.Expected != nil || in.ConditionalOperator != nil {
		return nil, v1Err(&ddbErr{errValidation, "legacy conditional parameters are not supported by the table fake"})
	}
	it, e := v1Item(in.Item)
	if e != nil {
		return nil, v1Err(e)
	}
	if len(in.ExpressionAttributeValues) > 0 && in.ConditionExpression == nil {
		return nil, v1Err(&ddbErr{errValidation, "ExpressionAttributeValues can only be specified when using expressions"})
	}
	if e := c.t.Put(in.TableName, it, in.ConditionExpression, v1Names(in.ExpressionAttributeNames)); e != nil {
		return nil, v1Err(e)
	}
	return &dynamodb.PutItemOutput{}, nil
}

func (c *v1Client) GetItemWithContext(_ aws.Context, in *dynamodb.GetItemInput, _ ...request.Option) (*dynamodb.GetItemOutput, error) {
	if in.AttributesToGet != nil {
		return nil, v1Err(&ddbErr{errValidation, "AttributesToGet is not supported by the table fake"})
	}
	key, e := v1Item(in.Key)
	if e != nil {
		return nil, v1Err(e)
	}
	it, e := c.t.Get(in.TableName, key, aws.BoolValue(in.ConsistentRead), in.ProjectionExpression, v1Names(in.ExpressionAttributeNames))
	if e != nil {
		return nil, v1Err(e)
	}
	return &dynamodb.GetItemOutput{Item: v1ItemOut(it)}, nil
}

func (c *v1Client) QueryWithContext(_ aws.Context, in *dynamodb.QueryInput, _ ...request.Option) (*dynamodb.QueryOutput, error) {
	if in.IndexName != nil || in.FilterExpression != nil || in.ExclusiveStartKey != nil || in.KeyConditions != nil ||
		in.QueryFilter != nil || in.AttributesToGet != nil || in.Select != nil {
		return nil, v1Err(&ddbErr{errValidation, "query parameter not supported by the table fake"})
	}
	vals, e := v1Item(in.ExpressionAttributeValues)
	if e != nil {
		return nil, v1Err(e)
	}
	fwd := true
	if in.ScanIndexForward != nil {
		fwd = *in.ScanIndexForward
	}
	if in.Limit != nil && *in.Limit < 1 {
		return nil, v1Err(&ddbErr{errValidation, "Limit must be >= 1"})
	}
	items, e := c.t.Query(in.TableName, in.KeyConditionExpression, v1Names(in.ExpressionAttributeNames), vals,
		aws.BoolValue(in.ConsistentRead), fwd, int(aws.Int64Value(in.Limit)), in.ProjectionExpression)
	if e != nil {
		return nil, v1Err(e)
	}
	out := &dynamodb.QueryOutput{Items: []map[string]*dynamodb.AttributeValue{}, Count: aws.Int64(int64(len(items)))}
	for _, it := range items {
		out.Items = append(out.Items, v1ItemOut(it))
	}
	return out, nil
}
