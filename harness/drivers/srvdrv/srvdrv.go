// Package srvdrv binds spec/Server.tla to the gRPC sidecar (server/go/pkg/server): TLC-generated request sequences are
// played on the real AppEncryption.Session over an in-memory stream and the observed response classes are recorded
// for TLC (ServerTrace.tla).
package srvdrv

import (
	"bytes"
	"context"
	"encoding/json"
	"fmt"
	"io"
	"math/rand"
	"runtime/debug"
	"sort"
	"sync"
	"time"

	"google.golang.org/grpc/metadata"

	pb "github.com/godaddy/asherah/server/go/api"
	"github.com/godaddy/asherah/server/go/pkg/server"

	"verif.local/harness/vrt"
	"verif.local/harness/vutil"
)

type stream struct {
	ctx  context.Context
	in   []*pb.SessionRequest
	i    int
	out  []*pb.SessionResponse
	hook func(i int, resp *pb.SessionResponse) // called after each Send
}

func (s *stream) Send(r *pb.SessionResponse) error {
	s.out = append(s.out, r)
	return nil
}
func (s *stream) Recv() (*pb.SessionRequest, error) {
	if s.i >= len(s.in) {
		return nil, io.EOF
	}
	r := s.in[s.i]
	s.i++
	return r, nil
}
func (s *stream) SetHeader(metadata.MD) error  { return nil }
func (s *stream) SendHeader(metadata.MD) error { return nil }
func (s *stream) SetTrailer(metadata.MD)       {}
func (s *stream) Context() context.Context     { return s.ctx }
func (s *stream) SendMsg(interface{}) error    { return nil }
func (s *stream) RecvMsg(interface{}) error    { return nil }

type Case struct {
	Reqs []string `json:"reqs"`
}

type Event struct {
	E      string `json:"e"`
	R      string `json:"r,omitempty"`
	Class  string `json:"class,omitempty"`
	Match  bool   `json:"match"`
	NResp  int    `json:"nresp"`
	NReq   int    `json:"nreq"`
	Panic  string `json:"panic"`
	Err    string `json:"err"`
	Run    int    `json:"run"`
	Detail string `json:"detail,omitempty"`
}

func newApp(sessionCache bool) *server.AppEncryption {
	return server.NewAppEncryption(&server.Options{
		ServiceName: "svc", ProductID: "prod", Metastore: "memory", KMS: "static",
		ExpireAfter: 24 * time.Hour, CheckInterval: time.Hour,
		EnableSessionCaching: sessionCache, SessionCacheMaxSize: 4, SessionCacheDuration: time.Hour,
	})
}

// genuine produces a genuine record for partition through its own stream.
func genuine(app *server.AppEncryption, partition string, payload []byte) (*pb.DataRowRecord, error) {
	st := &stream{ctx: context.Background(), in: []*pb.SessionRequest{
		{Request: &pb.SessionRequest_GetSession{GetSession: &pb.GetSession{PartitionId: partition}}},
		{Request: &pb.SessionRequest_Encrypt{Encrypt: &pb.Encrypt{Data: payload}}},
	}}
	if err := app.Session(st); err != nil {
		return nil, err
	}
	if len(st.out) != 2 || st.out[1].GetEncryptResponse() == nil {
		return nil, fmt.Errorf("could not produce a genuine record")
	}
	return st.out[1].GetEncryptResponse().GetDataRowRecord(), nil
}

func cloneDRR(d *pb.DataRowRecord) *pb.DataRowRecord {
	return &pb.DataRowRecord{
		Data: append([]byte(nil), d.GetData()...),
		Key: &pb.EnvelopeKeyRecord{
			Created: d.GetKey().GetCreated(),
			Key:     append([]byte(nil), d.GetKey().GetKey()...),
			ParentKeyMeta: &pb.KeyMeta{
				KeyId:   d.GetKey().GetParentKeyMeta().GetKeyId(),
				Created: d.GetKey().GetParentKeyMeta().GetCreated(),
			},
		},
	}
}

type fixture struct {
	app     *server.AppEncryption
	own     *pb.DataRowRecord
	foreign *pb.DataRowRecord
	payload []byte
}

func newFixture(sessionCache bool) (*fixture, error) {
	f := &fixture{app: newApp(sessionCache), payload: []byte("sidecar payload \x00\x01\x02")}
	var err error
	if f.own, err = genuine(f.app, "tenant-1", f.payload); err != nil {
		return nil, err
	}
	if f.foreign, err = genuine(f.app, "tenant-2", []byte("other tenant's data")); err != nil {
		return nil, err
	}
	return f, nil
}

func (f *fixture) request(r string, lastEnc *pb.DataRowRecord, rng *rand.Rand) *pb.SessionRequest {
	dec := func(d *pb.DataRowRecord) *pb.SessionRequest {
		return &pb.SessionRequest{Request: &pb.SessionRequest_Decrypt{Decrypt: &pb.Decrypt{DataRowRecord: d}}}
	}
	switch r {
	case "gs-valid":
		return &pb.SessionRequest{Request: &pb.SessionRequest_GetSession{GetSession: &pb.GetSession{PartitionId: "tenant-1"}}}
	case "gs-empty":
		return &pb.SessionRequest{Request: &pb.SessionRequest_GetSession{GetSession: &pb.GetSession{PartitionId: ""}}}
	case "enc":
		return &pb.SessionRequest{Request: &pb.SessionRequest_Encrypt{Encrypt: &pb.Encrypt{Data: f.payload}}}
	case "dec-own":
		d := f.own
		if lastEnc != nil && rng.Intn(2) == 0 {
			d = lastEnc
		}
		return dec(cloneDRR(d))
	case "dec-foreign":
		return dec(cloneDRR(f.foreign))
	case "dec-corrupt":
		d := cloneDRR(f.own)
		switch rng.Intn(4) {
		case 0:
			d.Data[rng.Intn(len(d.Data))] ^= 1 << uint(rng.Intn(8))
		case 1:
			d.Key.Key[rng.Intn(len(d.Key.Key))] ^= 1 << uint(rng.Intn(8))
		case 2:
			d.Data = d.Data[:rng.Intn(len(d.Data))]
		default:
			d.Key.Key = d.Key.Key[:rng.Intn(len(d.Key.Key))]
		}
		return dec(d)
	case "dec-empty":
		// an empty or PARTIAL record: every optional sub-message of the protobuf may be missing on its own
		switch rng.Intn(8) {
		case 0:
			return dec(nil)
		case 1:
			return dec(&pb.DataRowRecord{})
		case 2:
			return &pb.SessionRequest{Request: &pb.SessionRequest_Decrypt{}}
		case 3: // key without parent key meta
			d := cloneDRR(f.own)
			d.Key.ParentKeyMeta = nil
			return dec(d)
		case 4: // data without key
			d := cloneDRR(f.own)
			d.Key = nil
			return dec(d)
		case 5: // key without data
			d := cloneDRR(f.own)
			d.Data = nil
			return dec(d)
		case 6: // parent key meta without key id
			d := cloneDRR(f.own)
			d.Key.ParentKeyMeta = &pb.KeyMeta{Created: d.Key.ParentKeyMeta.GetCreated()}
			return dec(d)
		default: // key bytes missing
			d := cloneDRR(f.own)
			d.Key.Key = nil
			return dec(d)
		}
	case "empty":
		return &pb.SessionRequest{}
	}
	panic("unknown request " + r)
}

func classify(resp *pb.SessionResponse) string {
	switch {
	case resp == nil:
		return "empty"
	case resp.GetErrorResponse() != nil:
		return "error"
	case resp.GetEncryptResponse() != nil:
		return "encrypted"
	case resp.GetDecryptResponse() != nil:
		return "decrypted"
	case resp.GetResponse() == nil:
		return "session-ok"
	}
	return "unknown"
}

// runCase plays one request sequence on a new stream and returns the events.
func (f *fixture) runCase(reqs []string, rng *rand.Rand, run int) []Event {
	evs := []Event{{E: "reset", Run: run}}
	st := &stream{ctx: context.Background()}
	// requests are materialised lazily so that dec-own can use the record returned earlier on this very stream
	var lastEnc *pb.DataRowRecord
	kinds := append([]string(nil), reqs...)
	for i, r := range kinds {
		if r == "empty" && rng.Intn(2) == 0 {
			kinds[i] = "empty"
		}
	}
	// every stream of the first 30 000, every tenth afterwards (a long enumeration must stay within the process's locked-memory limits)
	lazy := &lazyStream{stream: st, f: f, kinds: kinds, rng: rng, lastEnc: &lastEnc, jumpy: run <= 30000 || run%10 == 0}
	done := make(chan Event, 1)
	go func() {
		ev := Event{E: "eof", Run: run}
		defer func() {
			if x := recover(); x != nil {
				ev.Panic = fmt.Sprintf("%v\n%s", x, debug.Stack())
			}
			done <- ev
		}()
		if err := f.app.Session(lazy); err != nil {
			ev.Err = err.Error()
		}
	}()
	var fin Event
	select {
	case fin = <-done:
	case <-time.After(20 * time.Second):
		fin = Event{E: "eof", Run: run, Panic: "stream handler did not return within 20s"}
	}
	for i, resp := range st.out {
		if i >= len(kinds) {
			break
		}
		ev := Event{E: "req", R: kinds[i], Class: classify(resp), Run: run, Match: true}
		switch ev.Class {
		case "decrypted":
			ev.Match = bytes.Equal(resp.GetDecryptResponse().GetData(), f.payload)
		case "encrypted":
			d := resp.GetEncryptResponse().GetDataRowRecord()
			ev.Match = d != nil && len(d.GetData()) == len(f.payload)+28 && len(d.GetKey().GetKey()) == 60 && d.GetKey().GetParentKeyMeta().GetKeyId() == "_IK_tenant-1_svc_prod"
		case "error":
			ev.Detail = resp.GetErrorResponse().GetMessage()
		}
		evs = append(evs, ev)
	}
	fin.NResp, fin.NReq = len(st.out), lazy.consumed
	evs = append(evs, fin)
	return evs
}

type lazyStream struct {
	*stream
	f        *fixture
	kinds    []string
	rng      *rand.Rand
	lastEnc  **pb.DataRowRecord
	consumed int
	jumpy    bool // this stream sees the clock jump between its requests
}

func (l *lazyStream) Recv() (*pb.SessionRequest, error) {
	// pick up the record of the previous encrypt response, if any
	if n := len(l.stream.out); n > 0 {
		if er := l.stream.out[n-1].GetEncryptResponse(); er != nil && er.GetDataRowRecord() != nil {
			*l.lastEnc = er.GetDataRowRecord()
		}
	}
	if l.consumed >= len(l.kinds) {
		return nil, io.EOF
	}
	if l.jumpy && l.rng.Intn(4) == 0 {
		// a long-lived stream: more than the key lifetime passes between two requests (the sidecar rotates keys underneath it).
		// Every jump leaves a system key and intermediate keys in the sidecar's caches for good (real locked pages): the number
		// of jumps per driver process is capped so that a long run ends at a verdict, not at the mlock / mapping limits.
		advanceClock(25 * 3600)
	}
	r := l.f.request(l.kinds[l.consumed], *l.lastEnc, l.rng)
	l.consumed++
	return r, nil
}

// the sidecar's SDK reads the harness clock (build overlay): one virtual clock for all streams, moving forward only
var (
	clockMu  sync.Mutex
	modelNow int64
)

const maxJumps = 60000 // (the first thorough run with unlimited jumps ran out of lockable memory after about 200 000)

var jumps int

func advanceClock(sec int64) {
	clockMu.Lock()
	defer clockMu.Unlock()
	if sec > 0 {
		if jumps >= maxJumps {
			return
		}
		jumps++
	}
	modelNow += sec
	vrt.SetModelTime(modelNow)
}

// Replay runs TLC-generated request sequences; concurrent > 1 additionally runs seeded longer sequences on that many
// concurrent streams sharing one AppEncryption.
func Replay(inPath, tracePath, outPath string, seed int64, concurrent, longRuns int) error {
	in, err := vutil.OpenIn(inPath)
	if err != nil {
		return err
	}
	defer in.Close()
	tw, err := vutil.NewTraceWriter(tracePath)
	if err != nil {
		return err
	}
	res := &vutil.Result{Driver: "server-replay",
		Rule: "every request sequence up to the bound over {get-session valid/empty, encrypt, decrypt own/foreign/corrupt/empty, empty request} followed by end-of-stream, enumerated by TLC from Server.tla, played on the real AppEncryption.Session over an in-memory stream (with and without session caching); non-trivial = contains a get-session and at least one later request; plus seeded longer sequences on concurrent streams"}
	advanceClock(0)
	defer vrt.RealTime()
	fixtures := []*fixture{}
	for _, sc := range []bool{false, true} {
		f, err := newFixture(sc)
		if err != nil {
			return err
		}
		fixtures = append(fixtures, f)
	}
	seen := map[string]bool{}
	run := 0
	rng := rand.New(rand.NewSource(seed))
	err = vutil.ReadCases(in, func(raw []byte) error {
		var c Case
		if e := json.Unmarshal(raw, &c); e != nil || c.Reqs == nil {
			return nil
		}
		key := fmt.Sprint(c.Reqs)
		if seen[key] {
			return nil
		}
		seen[key] = true
		res.Evaluations++
		nt := false
		for i, r := range c.Reqs {
			if (r == "gs-valid" || r == "gs-empty") && i < len(c.Reqs)-1 {
				nt = true
			}
		}
		if nt {
			res.Nontrivial++
			res.Sample(raw, 3)
		}
		f := fixtures[res.Evaluations%2]
		run++
		for _, e := range f.runCase(c.Reqs, rng, run) {
			tw.Emit(e)
		}
		res.Traces++
		return nil
	})
	if err != nil {
		return err
	}
	// concurrent longer sequences
	alphabet := []string{"gs-valid", "gs-empty", "enc", "dec-own", "dec-foreign", "dec-corrupt", "dec-empty", "empty"}
	for k := 0; k < longRuns; k++ {
		f := fixtures[k%2]
		var wg sync.WaitGroup
		outs := make([][]Event, concurrent)
		for c := 0; c < concurrent; c++ {
			wg.Add(1)
			run++
			r := rand.New(rand.NewSource(seed*7919 + int64(run)))
			n := 6 + r.Intn(20)
			reqs := make([]string, n)
			for i := range reqs {
				reqs[i] = alphabet[r.Intn(len(alphabet))]
				if i == 0 && r.Intn(3) > 0 {
					reqs[i] = "gs-valid"
				}
			}
			go func(c, run int, reqs []string, r *rand.Rand) {
				defer wg.Done()
				outs[c] = f.runCase(reqs, r, run)
			}(c, run, reqs, r)
		}
		wg.Wait()
		for _, o := range outs {
			for _, e := range o {
				tw.Emit(e)
			}
			res.Traces++
			res.Evaluations++
			res.Nontrivial++
		}
	}
	res.Events = tw.N
	keys := make([]string, 0)
	for k := range seen {
		keys = append(keys, k)
	}
	sort.Strings(keys)
	if err := tw.Close(); err != nil {
		return err
	}
	res.Print(outPath)
	return nil
}
