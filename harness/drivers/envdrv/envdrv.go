// Package envdrv re-enacts behaviours of spec/Envelope.tla against real SessionFactories (one per model process)
// that share the fake metastore / KMS, and records what the real code did as an ndjson trace for the monitor
// specification (EnvelopeObs.tla). Differences from the model's prediction are reported as drift, never as a verdict.
package envdrv

import (
	"bytes"
	"context"
	"encoding/json"
	"fmt"
	"math/rand"
	"runtime/debug"
	"sort"
	"sync"
	"sync/atomic"
	"time"

	"github.com/godaddy/asherah/go/appencryption"
	"github.com/godaddy/asherah/go/appencryption/pkg/persistence"

	"verif.local/harness/fakes"
	"verif.local/harness/vrt"
	"verif.local/harness/vutil"
)

type ProcCfg struct {
	IK   string `json:"ik"` // none | session | shared
	SK   bool   `json:"sk"`
	Sess bool   `json:"sess"`
}

type Params struct {
	E  int64 `json:"E"`
	R  int64 `json:"R"`
	P  int64 `json:"P"`
	T0 int64 `json:"t0"`
	// Frac: the virtual clock reads model time + 150 ms (never a whole second); Envelope.tla's constant of the same name
	Frac bool `json:"frac"`
}

type Rec struct {
	Part      string `json:"part"`
	IKCreated int64  `json:"ikCreated"`
	IKKid     int    `json:"ikKid"`
}

type Step struct {
	T       string `json:"t"`
	Cmd     string `json:"cmd,omitempty"`
	P       string `json:"p,omitempty"`
	Part    string `json:"part,omitempty"`
	Rec     *Rec   `json:"rec,omitempty"`
	D       int64  `json:"d,omitempty"`
	K       string `json:"k,omitempty"`
	Created int64  `json:"created,omitempty"`
	Kind    string `json:"kind,omitempty"`
	Fault   string `json:"fault,omitempty"`
	Res     int64  `json:"res,omitempty"`
	Ok      bool   `json:"ok,omitempty"`
	Calls   int    `json:"calls,omitempty"`
	Faults  int    `json:"faults,omitempty"`
}

type Case struct {
	Params Params             `json:"params"`
	Cfg    map[string]ProcCfg `json:"cfg"`
	Path   []Step             `json:"path"`
}

// Options select how the abstract configuration is made concrete.
type Options struct {
	Variant  string // key cache policy used for "cached": simple | lru | lfu | slru | tinylfu
	Capacity int    // capacity for non-simple policies
	// SKCapacity, if > 0, is a different SystemKeyCacheMaxSize (the two sizes are separate policy fields; every cache must be
	// sized by its own)
	SKCapacity int
	Seed       int64
	Service    string
	Product    string
	Suffix     string // region suffix ("" = none)
	Strict     bool   // compare with the model's predicted calls/outcomes and report drift
	// SharedNoCache: configurations with ik = "shared" are built with CacheIntermediateKeys = false. newSession looks only at
	// SharedIntermediateKeyCache, so the SDK still uses the factory's shared cache and Envelope.tla's "shared" mode describes both.
	SharedNoCache bool
	Cancel        int // per-mille probability that the caller's context is cancelled while a KMS call of the operation returns
	IFail         int // per-mille probability that an operation gets an injected secret-allocation or AEAD failure
}

type opResult struct {
	kind    string
	ok      bool
	err     string
	drr     *appencryption.DataRowRecord
	out     []byte
	payload []byte
	panic   string
}

type proc struct {
	name     string
	cfg      ProcCfg
	gate     *fakes.Gate
	ms       *fakes.Metastore
	kms      *fakes.KMS
	crypto   *fakes.AEAD
	sf       *fakes.SecretFactory
	factory  *appencryption.SessionFactory
	sessions map[string]*appencryption.Session
	sessID   map[string]int
	done     chan opResult
	parked   *fakes.Call // external call the process is parked at (nil: not known yet)
	finished *opResult   // result of the operation if it has already returned
	busy     bool
	opSeq    int
	curOp    string
	curPart  string
	curIKID  string
	gen      int // factory generation (restarts)
}

type runner struct {
	w      *fakes.World
	c      *Case
	opt    Options
	procs  map[string]*proc
	recs   map[Rec]*issuedRec
	rng    *rand.Rand
	drift  []string
	nsess  int
	nencOK int
}

type issuedRec struct {
	drr     appencryption.DataRowRecord
	payload []byte
}

// partID: the second partition's id differs from the first one's by a trailing blank only - distinct partitions all the same
// (ids are opaque strings; nothing may normalise them)
func partID(p string) string {
	if p == "b" {
		return "part-a "
	}
	return "part-" + p
}

func (r *runner) policy(pc ProcCfg) *appencryption.CryptoPolicy {
	pol := appencryption.NewCryptoPolicy(
		appencryption.WithExpireAfterDuration(time.Duration(r.c.Params.E)*time.Second),
		appencryption.WithRevokeCheckInterval(time.Duration(r.c.Params.R)*time.Second),
	)
	pol.CreateDatePrecision = time.Duration(r.c.Params.P) * time.Second
	pol.CacheIntermediateKeys = pc.IK != "none" && !(pc.IK == "shared" && r.opt.SharedNoCache)
	pol.SharedIntermediateKeyCache = pc.IK == "shared"
	pol.CacheSystemKeys = pc.SK
	pol.CacheSessions = pc.Sess
	pol.SessionCacheMaxSize = 1000
	pol.SessionCacheDuration = 1000 * time.Hour
	v := r.opt.Variant
	if v == "" {
		v = "simple"
	}
	pol.IntermediateKeyCacheEvictionPolicy = v
	pol.SystemKeyCacheEvictionPolicy = v
	capa := r.opt.Capacity
	if capa == 0 {
		capa = 1000
	}
	pol.IntermediateKeyCacheMaxSize = capa
	pol.SystemKeyCacheMaxSize = capa
	if r.opt.SKCapacity > 0 {
		pol.SystemKeyCacheMaxSize = r.opt.SKCapacity
	}
	return pol
}

func (r *runner) newFactory(p *proc) {
	p.gen++
	p.factory = appencryption.NewSessionFactory(
		&appencryption.Config{Service: r.opt.Service, Product: r.opt.Product, Policy: r.policy(p.cfg)},
		p.ms.AsSDK(), p.kms, p.crypto, appencryption.WithSecretFactory(p.sf))
	p.sessions = map[string]*appencryption.Session{}
	p.sessID = map[string]int{}
}

func (r *runner) scope(p *proc, part string) string {
	switch p.cfg.IK {
	case "shared":
		return fmt.Sprintf("%s/g%d/shared", p.name, p.gen)
	case "none":
		return "none"
	}
	if p.cfg.Sess {
		return fmt.Sprintf("%s/g%d/cached-%s", p.name, p.gen, part)
	}
	return fmt.Sprintf("%s/s%d", p.name, p.sessID[part])
}

func (r *runner) skScope(p *proc) string {
	if !p.cfg.SK {
		return "none"
	}
	return fmt.Sprintf("%s/g%d/sk", p.name, p.gen)
}

func (r *runner) session(p *proc, part string) (*appencryption.Session, error) {
	if s, ok := p.sessions[part]; ok {
		return s, nil
	}
	s, err := p.factory.GetSession(partID(part))
	if err != nil {
		return nil, err
	}
	r.nsess++
	p.sessions[part] = s
	p.sessID[part] = r.nsess
	r.w.Emit(fakes.Event{"e": "open", "p": p.name, "part": part, "sess": r.nsess})
	return s, nil
}

// apiMix decides (deterministically per operation) whether the Store/Load API is used instead of Encrypt/Decrypt.
func (r *runner) apiMix(p *proc) bool { return (p.opSeq+int(r.opt.Seed))%2 == 0 }

func (r *runner) payload() []byte {
	sizes := []int{0, 1, 15, 16, 17, 31, 33, 100, 1000}
	n := sizes[r.rng.Intn(len(sizes))]
	if r.rng.Intn(200) == 0 {
		n = 1 << 20
	}
	b := make([]byte, n)
	r.rng.Read(b)
	copy(b, []byte("PAYLOAD-MARKER"))
	return b
}

// startOp launches the API call in its own goroutine; external calls park at the process's gate.
func (r *runner) startOp(p *proc, st Step) {
	p.opSeq++
	p.curOp = fmt.Sprintf("%s#%d", p.name, p.opSeq)
	p.curPart = st.Part
	sess, err := r.session(p, st.Part)
	if err != nil {
		p.busy = true
		go func() { p.done <- opResult{kind: st.Cmd, err: err.Error()} }()
		return
	}
	ev := fakes.Event{"e": "start", "p": p.name, "kind": st.Cmd, "part": st.Part, "op": p.curOp,
		"scope": r.scope(p, st.Part), "skscope": r.skScope(p), "ikCreated": int64(0), "recpart": ""}
	var in *issuedRec
	p.curIKID = ""
	if st.Cmd == "Dec" {
		in = r.recs[*st.Rec]
		if in != nil {
			p.curIKID = in.drr.Key.ParentKeyMeta.ID
		}
		ev["ikCreated"] = st.Rec.IKCreated
		ev["recpart"] = st.Rec.Part
		if in == nil {
			ev["e"] = "skip"
			r.w.Emit(ev)
			r.drift = append(r.drift, fmt.Sprintf("model decrypts record %+v which the real run never produced", *st.Rec))
			p.busy = true
			go func() { p.done <- opResult{kind: "skip"} }()
			return
		}
	}
	r.w.Emit(ev)
	if r.opt.IFail > 0 && r.rng.Intn(1000) < r.opt.IFail {
		if r.rng.Intn(2) == 0 {
			p.sf.FailNext = 1 + r.rng.Intn(4)
		} else {
			p.crypto.FailNext = 1 + r.rng.Intn(4)
		}
	}
	ctx := context.Background()
	p.kms.OnReturn = nil
	if r.opt.Cancel > 0 && r.rng.Intn(1000) < r.opt.Cancel {
		// the caller gives up while the operation is in flight: its context is cancelled at the moment the n-th KMS call returns
		// (the SDK may stop early, but not without wiping what it holds; the operation counts as faulted for the other clauses)
		cctx, cancel := context.WithCancel(ctx)
		ctx = cctx
		n := 1 + r.rng.Intn(2)
		w, pn := r.w, p.name
		p.kms.OnReturn = func() {
			if n--; n == 0 {
				w.Emit(fakes.Event{"e": "ifault", "p": pn, "what": "caller-context-cancelled"})
				cancel()
			}
		}
	}
	p.busy = true
	go func() {
		var res opResult
		res.kind = st.Cmd
		defer func() {
			if x := recover(); x != nil {
				res.panic = fmt.Sprintf("%v\n%s", x, debug.Stack())
			}
			p.done <- res
		}()
		switch st.Cmd {
		case "Enc":
			pl := r.payload()
			keep := append([]byte(nil), pl...)
			var d *appencryption.DataRowRecord
			var err error
			if r.apiMix(p) {
				// the Store API: encrypt + hand the record to the caller's Storer
				var stored appencryption.DataRowRecord
				_, err = sess.Store(ctx, pl, persistence.StorerFunc(func(_ context.Context, x appencryption.DataRowRecord) (interface{}, error) {
					stored = x
					return "key", nil
				}))
				if err == nil {
					d = &stored
				}
			} else {
				d, err = sess.Encrypt(ctx, pl)
			}
			res.payload = keep
			if err != nil {
				res.err = err.Error()
			} else {
				res.ok, res.drr = true, d
			}
			if !bytes.Equal(pl, keep) {
				res.err += " [caller payload modified]"
				res.panic = "Encrypt modified the caller's payload"
			}
		case "Dec":
			cp := deepCopy(in.drr)
			var out []byte
			var err error
			if r.apiMix(p) {
				out, err = sess.Load(ctx, "key", persistence.LoaderFunc(func(context.Context, interface{}) (*appencryption.DataRowRecord, error) { return &cp, nil }))
			} else {
				out, err = sess.Decrypt(ctx, cp)
			}
			if err != nil {
				res.err = err.Error()
			} else {
				res.ok, res.out = true, out
			}
			res.payload = in.payload
			if !sameDRR(cp, in.drr) {
				res.panic = "Decrypt modified the caller's record"
			}
		}
	}()
}

// settleProc blocks until the process has reached its next external call or returned, so that everything the real
// code does between two external calls happens before the driver's next action (clock tick, other process, ...).
func (r *runner) settleProc(p *proc) {
	if !p.busy || p.parked != nil || p.finished != nil {
		return
	}
	c, res := r.next(p)
	p.parked, p.finished = c, res
}

// release lets the parked call proceed and waits for the process to settle again.
func (r *runner) release(p *proc, c *fakes.Call, fault string) {
	c.Release(fault)
	r.settleProc(p)
}

func deepCopy(d appencryption.DataRowRecord) appencryption.DataRowRecord {
	c := appencryption.DataRowRecord{Data: append([]byte(nil), d.Data...)}
	if d.Key != nil {
		k := *d.Key
		k.EncryptedKey = append([]byte(nil), d.Key.EncryptedKey...)
		if d.Key.ParentKeyMeta != nil {
			m := *d.Key.ParentKeyMeta
			k.ParentKeyMeta = &m
		}
		c.Key = &k
	}
	return c
}

func sameDRR(a, b appencryption.DataRowRecord) bool {
	x, _ := json.Marshal(a)
	y, _ := json.Marshal(b)
	return bytes.Equal(x, y)
}

// next waits until the process either parks at an external call or finishes its operation.
func (r *runner) next(p *proc) (*fakes.Call, *opResult) {
	if p.parked != nil {
		c := p.parked
		p.parked = nil
		return c, nil
	}
	if p.finished != nil {
		res := p.finished
		p.finished = nil
		return nil, res
	}
	select {
	case c := <-p.gate.Pending:
		return c, nil
	case res := <-p.done:
		return nil, &res
	case <-time.After(30 * time.Second):
		return nil, &opResult{kind: "hang", panic: "operation neither returned nor reached an external call within 30s"}
	}
}

// finishOp records the return of p's operation (running it to completion without faults if it is still parked).
func (r *runner) finishOp(p *proc, exp *Step, first *opResult) {
	res := first
	for res == nil {
		c, rr := r.next(p)
		if c != nil {
			if exp != nil && r.opt.Strict {
				r.drift = append(r.drift, fmt.Sprintf("%s: real code makes an extra external call %s(%s) the model does not", p.curOp, c.Kind, c.ID))
			}
			r.release(p, c, "none")
			continue
		}
		res = rr
	}
	p.busy = false
	if res.kind == "skip" {
		return
	}
	ev := fakes.Event{"e": "ret", "p": p.name, "kind": res.kind, "op": p.curOp, "ok": res.ok, "err": res.err,
		"ikCreated": int64(0), "ikKid": 0, "ikid": p.curIKID, "chain": true, "fresh": true, "payload": true, "panic": res.panic,
		"dirty": []string{}, "drkLive": 0, "opLive": 0, "live": 0, "taint": []string{}}
	if d := r.w.TakeDirty(p.curOp); len(d) > 0 {
		ev["dirty"] = d
	}
	if res.kind == "Enc" && res.ok {
		d := res.drr
		ev["ikCreated"] = d.Key.ParentKeyMeta.Created
		kid := r.w.WrapperOfCiphertext(d.Key.EncryptedKey)
		ev["ikKid"] = kid
		ev["ikid"] = d.Key.ParentKeyMeta.ID
		ev["wantIkid"] = r.keyID("IK", p.curPart) // C03: the data key is wrapped under the IK of THIS partition (documented id)
		// C02 / C14: the chain must be in the authoritative table right now, with the same key bytes
		chain := false
		if row, ok := r.w.Get(d.Key.ParentKeyMeta.ID, d.Key.ParentKeyMeta.Created); ok && r.w.KidOfCiphertext(row.Key) == kid && row.Parent != nil {
			if sk, ok2 := r.w.Get(row.Parent.ID, row.Parent.Created); ok2 && r.w.KidOfCiphertext(sk.Key) == r.w.WrapperOfCiphertext(row.Key) {
				chain = true
			}
		}
		ev["chain"] = chain
		// C02: a brand-new process holding only the metastore contents and the KMS decrypts it
		ev["fresh"] = r.freshDecrypt(p, *d, res.payload)
		// C09: the data key of this call is released
		ev["drkLive"] = r.liveWithKid(p, r.w.KidOfCiphertext(d.Key.EncryptedKey))
	}
	if res.kind == "Dec" && res.ok {
		ev["payload"] = bytes.Equal(res.out, res.payload)
	}
	live := p.sf.Live()
	ev["live"] = len(live)
	n := 0
	dupKids := []int{}
	seen := map[string]int{}
	for _, s := range live {
		if s.Op == p.curOp {
			n++
		}
		seen[s.FP]++
		if seen[s.FP] == 2 {
			dupKids = append(dupKids, r.w.Kid(s.FP))
		}
	}
	ev["opLive"] = n
	ev["dupLive"] = len(dupKids)
	ev["dupKids"] = dupKids
	ev["bound"] = r.liveBound(p)
	r.w.Emit(ev)
	// remember the record under the model's name for it
	if exp != nil && exp.Kind == "Enc" && res.kind == "Enc" && res.ok && exp.Ok && exp.Rec != nil {
		r.recs[*exp.Rec] = &issuedRec{drr: deepCopy(*res.drr), payload: res.payload}
	}
	if exp != nil && r.opt.Strict {
		if exp.Ok != res.ok {
			r.drift = append(r.drift, fmt.Sprintf("%s %s: real ok=%v (%s), model ok=%v", p.curOp, res.kind, res.ok, res.err, exp.Ok))
		} else if res.kind == "Enc" && res.ok && exp.Rec != nil && res.drr.Key.ParentKeyMeta.Created-vrt.Base != exp.Rec.IKCreated {
			r.drift = append(r.drift, fmt.Sprintf("%s Enc: real record names IK created=%d, model %d", p.curOp, res.drr.Key.ParentKeyMeta.Created-vrt.Base, exp.Rec.IKCreated))
		}
	}
}

// liveBound is the number of secrets the process's caches are entitled to hold right now (-1: unbounded policy).
func (r *runner) liveBound(p *proc) int {
	if r.opt.Variant == "" || r.opt.Variant == "simple" || r.opt.Capacity == 0 {
		return -1
	}
	b := 0
	if p.cfg.SK {
		if r.opt.SKCapacity > 0 {
			b += r.opt.SKCapacity
		} else {
			b += r.opt.Capacity
		}
	}
	switch p.cfg.IK {
	case "shared":
		b += r.opt.Capacity
	case "session":
		b += r.opt.Capacity * len(p.sessions)
	}
	return b
}

func (r *runner) liveWithKid(p *proc, kid int) int {
	n := 0
	for _, s := range p.sf.Live() {
		if r.w.Kid(s.FP) == kid {
			n++
		}
	}
	return n
}

// freshDecrypt decrypts d with a new factory that has no caches and only the metastore contents + KMS.
func (r *runner) freshDecrypt(p *proc, d appencryption.DataRowRecord, payload []byte) (ok bool) {
	defer func() {
		if x := recover(); x != nil {
			ok = false
		}
	}()
	ms := &fakes.Metastore{W: r.w, Proc: "fresh", Quiet: true, Suffix: r.opt.Suffix}
	kms := &fakes.KMS{W: r.w, Proc: "fresh", Quiet: true}
	pol := r.policy(ProcCfg{IK: "none"})
	pol.CacheSystemKeys, pol.CacheIntermediateKeys, pol.CacheSessions = false, false, false
	f := appencryption.NewSessionFactory(&appencryption.Config{Service: r.opt.Service, Product: r.opt.Product, Policy: pol},
		ms.AsSDK(), kms, r.w.Real)
	defer f.Close()
	// the partition is recoverable from the op: use the one the record was produced for
	s, err := f.GetSession(r.partOf(d))
	if err != nil {
		return false
	}
	defer s.Close()
	out, err := s.Decrypt(context.Background(), deepCopy(d))
	return err == nil && bytes.Equal(out, payload)
}

// partOf recovers the partition id from the IK id (_IK_<partition>_<service>_<product>[_suffix]).
func (r *runner) partOf(d appencryption.DataRowRecord) string {
	id := d.Key.ParentKeyMeta.ID
	suffix := "_" + r.opt.Service + "_" + r.opt.Product
	if r.opt.Suffix != "" {
		suffix += "_" + r.opt.Suffix
	}
	return id[len("_IK_") : len(id)-len(suffix)]
}

// Run re-enacts one case and returns its events and drift notes.
func Run(c *Case, opt Options) (events []fakes.Event, drift []string, fatal string) {
	if opt.Service == "" {
		opt.Service, opt.Product = "svc", "prod"
	}
	r := &runner{w: fakes.NewWorld(), c: c, opt: opt, procs: map[string]*proc{}, recs: map[Rec]*issuedRec{}, rng: rand.New(rand.NewSource(opt.Seed))}
	now := c.Params.T0
	vrt.SetModelTime(now)
	defer vrt.RealTime()
	if c.Params.Frac {
		vrt.SetFraction(150 * time.Millisecond)
		defer vrt.SetFraction(0)
	}
	names := make([]string, 0, len(c.Cfg))
	for n := range c.Cfg {
		names = append(names, n)
	}
	sort.Strings(names)
	cfgEv := map[string]interface{}{}
	for _, n := range names {
		pc := c.Cfg[n]
		p := &proc{name: n, cfg: pc, gate: fakes.NewGate(), done: make(chan opResult, 1)}
		opf := func() string { return p.curOp }
		p.ms = &fakes.Metastore{W: r.w, Proc: n, Gate: p.gate, Suffix: opt.Suffix}
		p.kms = &fakes.KMS{W: r.w, Proc: n, Gate: p.gate, Op: opf}
		p.crypto = &fakes.AEAD{W: r.w, Proc: n, Op: opf}
		p.sf = &fakes.SecretFactory{W: r.w, Proc: n, Op: opf}
		r.newFactory(p)
		r.procs[n] = p
		cfgEv[n] = pc
	}
	fits := opt.Variant == "" || opt.Variant == "simple" || opt.Capacity == 0 || opt.Capacity >= 50
	r.w.Emit(fakes.Event{"e": "reset", "E": c.Params.E, "R": c.Params.R, "P": c.Params.P, "now": now, "cfg": cfgEv,
		"variant": opt.Variant, "capacity": opt.Capacity, "fits": fits, "skcap": opt.SKCapacity, "sharedNoCache": opt.SharedNoCache, "frac": c.Params.Frac})
	defer func() {
		if x := recover(); x != nil {
			fatal = fmt.Sprintf("driver panic: %v\n%s", x, debug.Stack())
		}
	}()
	for i := range c.Path {
		st := c.Path[i]
		switch st.T {
		case "cmd":
			switch st.Cmd {
			case "Tick":
				now += st.D
				vrt.SetModelTime(now)
				r.w.Emit(fakes.Event{"e": "tick", "d": st.D, "now": now})
			case "Revoke":
				id := r.keyID(st.K, st.Part)
				okr := r.w.Revoke(id, vrt.Base+st.Created)
				r.w.Emit(fakes.Event{"e": "revoke", "k": st.K, "part": st.Part, "id": id, "created": st.Created, "ok": okr})
				if !okr {
					r.drift = append(r.drift, fmt.Sprintf("model revokes %s created=%d which the real table does not hold", id, st.Created))
				}
			case "Enc", "Dec":
				p := r.procs[st.P]
				if p.busy {
					r.finishOp(p, nil, nil)
				}
				r.startOp(p, st)
				r.settleProc(p)
			case "CloseSession":
				p := r.procs[st.P]
				if s, ok := p.sessions[st.Part]; ok {
					s.Close()
					r.w.Emit(fakes.Event{"e": "close", "p": p.name, "part": st.Part, "sess": p.sessID[st.Part], "live": len(p.sf.Live())})
					delete(p.sessions, st.Part)
				}
			case "Restart":
				p := r.procs[st.P]
				r.closeProc(p)
				r.w.Emit(fakes.Event{"e": "restart", "p": p.name, "live": r.settle(p)})
				r.newFactory(p)
			}
		case "call":
			p := r.procs[st.P]
			if !p.busy {
				r.drift = append(r.drift, fmt.Sprintf("model expects %s to make call %s(%s) but no operation is running", st.P, st.Kind, st.K))
				continue
			}
			c, res := r.next(p)
			if c == nil {
				r.drift = append(r.drift, fmt.Sprintf("%s: model expects call %s(%s) but the real operation returned", p.curOp, st.Kind, st.K))
				r.finishOp(p, nil, res)
				continue
			}
			if opt.Strict && c.Kind != st.Kind {
				r.drift = append(r.drift, fmt.Sprintf("%s: real call %s(%s), model %s(%s)", p.curOp, c.Kind, c.ID, st.Kind, st.K))
			}
			r.release(p, c, st.Fault)
		case "ret":
			p := r.procs[st.P]
			if !p.busy {
				continue
			}
			stc := st
			r.finishOp(p, &stc, nil)
		}
	}
	// wind down: finish what is in flight, close everything, check that every secret was released exactly once
	for _, n := range names {
		p := r.procs[n]
		if p.busy {
			r.finishOp(p, nil, nil)
		}
	}
	for _, n := range names {
		p := r.procs[n]
		r.closeProc(p)
		live := r.settle(p)
		r.w.Emit(fakes.Event{"e": "final", "p": n, "live": live, "doubleClose": p.sf.DoubleClose, "useAfterClose": p.sf.UseAfterClose,
			"allocated": p.sf.Count(), "mutated": r.w.Mutate})
	}
	return r.w.Events, r.drift, ""
}

func (r *runner) keyID(k, part string) string {
	suffix := ""
	if r.opt.Suffix != "" {
		suffix = "_" + r.opt.Suffix
	}
	if k == "SK" {
		return "_SK_" + r.opt.Service + "_" + r.opt.Product + suffix
	}
	return "_IK_" + partID(part) + "_" + r.opt.Service + "_" + r.opt.Product + suffix
}

func (r *runner) closeProc(p *proc) {
	for part, s := range p.sessions {
		s.Close()
		delete(p.sessions, part)
	}
	p.factory.Close()
}

// settle waits for asynchronous releases (session-cache removal goroutines) and returns the live-secret count.
func (r *runner) settle(p *proc) int {
	// generous, so that a loaded machine never turns a slow teardown into a "leak"; once three waits of this driver process ran
	// into the deadline the leak is established and the remaining cases wait a second only (a real leak must not turn the whole
	// check into a timeout)
	wait := 20 * time.Second
	if settleExpired.Load() >= 3 {
		wait = time.Second
	}
	deadline := time.Now().Add(wait)
	for {
		n := len(p.sf.Live())
		// only cached sessions are torn down asynchronously (go Remove()); everything else is synchronous
		if n == 0 || !p.cfg.Sess {
			return n
		}
		if time.Now().After(deadline) {
			settleExpired.Add(1)
			return n
		}
		time.Sleep(200 * time.Microsecond)
	}
}

var settleExpired atomic.Int64

// ---------------------------------------------------------------------------------------------- batch entry points

// Replay reads cases (TLC output) and writes the concatenated trace.
func Replay(inPath, tracePath, outPath string, opt Options, variants []string, capacities []int) error {
	in, err := vutil.OpenIn(inPath)
	if err != nil {
		return err
	}
	defer in.Close()
	tw, err := vutil.NewTraceWriter(tracePath)
	if err != nil {
		return err
	}
	res := &vutil.Result{Driver: "env-replay",
		Rule: "one case per operation-return transition of the reachable state graph of Envelope.tla (witness path = commands + external-call schedule + faults), re-enacted on real SessionFactories over the fake metastore/KMS with a virtual clock; non-trivial = the path contains a rotation (>=2 IK stores), a revocation, a fault or a restart"}
	var mu sync.Mutex
	n := 0
	driftN := 0
	var driftS []string
	err = vutil.ReadCases(in, func(raw []byte) error {
		var c Case
		if err := json.Unmarshal(raw, &c); err != nil || len(c.Path) == 0 {
			return nil
		}
		n++
		o := opt
		o.Seed = opt.Seed*1_000_003 + int64(n)
		if len(variants) > 0 {
			o.Variant = variants[n%len(variants)]
		}
		if len(capacities) > 0 {
			o.Capacity = capacities[(n/7)%len(capacities)]
		}
		o.SharedNoCache = (n/2)%2 == 1
		if o.Capacity == 0 && o.Variant != "" && o.Variant != "simple" && (n/5)%2 == 1 {
			o.SKCapacity = 1 // the IK caches keep their large size; the monitor applies the C20 clauses while one system key exists
			o.Strict = false // Envelope.tla models caches that hold everything: no call-by-call prediction once a second SK exists
		}
		if n%3 == 0 {
			o.Suffix = "us-west-2" // region-suffixed key ids (a metastore exposing GetRegionSuffix)
		}
		evs, drift, fatal := Run(&c, o)
		mu.Lock()
		defer mu.Unlock()
		res.Evaluations++
		res.Traces++
		if nontrivial(&c) {
			res.Nontrivial++
			res.Sample(raw, 3)
		}
		for _, e := range evs {
			e["run"] = n
			toModelTime(e)
			tw.Emit(e)
		}
		if fatal != "" {
			res.AddFinding(vutil.Finding{Kind: "driver-fatal", Detail: fatal, Case: append(json.RawMessage(nil), raw...)})
		}
		if len(drift) > 0 {
			driftN++
			if len(driftS) < 8 {
				driftS = append(driftS, fmt.Sprintf("run %d: %s", n, drift[0]))
			}
		}
		return nil
	})
	res.Events = tw.N
	res.Extra = map[string]interface{}{"drift_traces": driftN, "drift_samples": driftS}
	if e := tw.Close(); e != nil {
		return e
	}
	res.Print(outPath)
	return err
}

func nontrivial(c *Case) bool {
	stores := 0
	for _, s := range c.Path {
		if s.T == "call" && s.Kind == "Store" && s.K == "IK" {
			stores++
		}
		if s.T == "call" && s.Fault != "none" {
			return true
		}
		if s.T == "cmd" && (s.Cmd == "Revoke" || s.Cmd == "Restart") {
			return true
		}
	}
	return stores >= 2
}

// toModelTime rewrites unix creation stamps into model seconds.
func toModelTime(e fakes.Event) {
	for _, k := range []string{"created", "found", "parent", "ikCreated"} {
		if v, ok := e[k].(int64); ok && v >= vrt.Base {
			e[k] = v - vrt.Base
		}
	}
}
