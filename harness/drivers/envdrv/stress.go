package envdrv

import (
	"context"
	"crypto/sha256"
	"fmt"
	"sync"
	"time"

	"github.com/godaddy/asherah/go/appencryption"
	"github.com/godaddy/asherah/go/appencryption/pkg/crypto/aead"
	"github.com/godaddy/asherah/go/appencryption/pkg/kms"
	"github.com/godaddy/asherah/go/appencryption/pkg/persistence"

	"verif.local/harness/fakes"
	"verif.local/harness/vutil"
)

// pairSpy records the (key, nonce) pair of every AEAD encryption made by truly parallel goroutines.
type pairSpy struct {
	real   appencryption.AEAD
	mu     sync.Mutex
	seen   map[[44]byte]struct{}
	calls  int
	reused int
}

func (p *pairSpy) Encrypt(data, key []byte) ([]byte, error) {
	ct, err := p.real.Encrypt(data, key)
	if err != nil {
		return nil, err
	}
	var k [44]byte
	h := sha256.Sum256(key)
	copy(k[:32], h[:])
	copy(k[32:], ct[len(ct)-12:])
	p.mu.Lock()
	p.calls++
	if _, dup := p.seen[k]; dup {
		p.reused++
	}
	p.seen[k] = struct{}{}
	p.mu.Unlock()
	return ct, nil
}

func (p *pairSpy) Decrypt(data, key []byte) ([]byte, error) { return p.real.Decrypt(data, key) }

// Stress runs `goroutines` truly parallel goroutines (no scheduler, no gates) encrypting on sessions of one factory and
// reports how many (key, nonce) pairs were used more than once. One summary event per run is written for the monitor.
func Stress(goroutines, perGoroutine, partitions int, seed int64, tracePath, outPath string) error {
	tw, err := vutil.NewTraceWriter(tracePath)
	if err != nil {
		return err
	}
	res := &vutil.Result{Driver: "env-stress",
		Rule: "truly parallel goroutines (real scheduler) encrypting on sessions of one factory with a shared intermediate-key cache; every AEAD encryption's (key, nonce) pair recorded; non-trivial = run with more than one goroutine"}
	spy := &pairSpy{real: aead.NewAES256GCM(), seen: map[[44]byte]struct{}{}}
	km, err := kms.NewStatic("thisIsAStaticMasterKeyForTesting", spy.real)
	if err != nil {
		return err
	}
	pol := appencryption.NewCryptoPolicy(appencryption.WithSharedIntermediateKeyCache(100))
	pol.ExpireKeyAfter, pol.RevokeCheckInterval = 24*time.Hour, time.Hour
	f := appencryption.NewSessionFactory(&appencryption.Config{Service: "svc", Product: "prod", Policy: pol}, persistence.NewMemoryMetastore(), km, spy,
		appencryption.WithSecretFactory(&fakes.SecretFactory{W: fakes.NewWorld(), Proc: "stress"}))
	var wg sync.WaitGroup
	failures := 0
	var fmu sync.Mutex
	for g := 0; g < goroutines; g++ {
		wg.Add(1)
		go func(g int) {
			defer wg.Done()
			s, err := f.GetSession(fmt.Sprintf("part-%d", g%partitions))
			if err != nil {
				return
			}
			defer s.Close()
			pl := []byte("stress payload")
			for i := 0; i < perGoroutine; i++ {
				if _, err := s.Encrypt(context.Background(), pl); err != nil {
					fmu.Lock()
					failures++
					fmu.Unlock()
				}
			}
		}(g)
	}
	wg.Wait()
	f.Close()
	tw.Emit(fakes.Event{"e": "reset", "E": 86400, "R": 3600, "P": 60, "now": 0, "run": 1, "fits": true, "variant": "stress", "capacity": 100,
		"cfg": map[string]interface{}{"stress": ProcCfg{IK: "shared", SK: true}}})
	tw.Emit(fakes.Event{"e": "stress", "run": 1, "aead": spy.calls, "reused": spy.reused, "goroutines": goroutines, "failed": failures, "now": 0})
	res.Evaluations, res.Traces, res.Nontrivial, res.Events = spy.calls, 1, 2, tw.N
	res.Extra = map[string]interface{}{"aead_encryptions": spy.calls, "reused_pairs": spy.reused, "failed_encrypts": failures}
	_ = seed
	if err := tw.Close(); err != nil {
		return err
	}
	res.Print(outPath)
	return nil
}
