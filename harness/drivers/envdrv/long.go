package envdrv

import (
	"bytes"
	"context"
	"encoding/base64"
	"encoding/hex"
	"encoding/json"
	"fmt"
	"math/rand"
	"strings"
	"sync"

	aelog "github.com/godaddy/asherah/go/appencryption/pkg/log"

	"verif.local/harness/fakes"
	"verif.local/harness/vrt"
	"verif.local/harness/vutil"
)

// LongCfg describes seeded long histories (C03: thousands of encrypts per key, many partitions, rotations).
type LongCfg struct {
	Runs       int   `json:"runs"`
	Partitions int   `json:"partitions"`
	Ops        int   `json:"ops"`
	E          int64 `json:"E"`
	R          int64 `json:"R"`
	P          int64 `json:"P"`
	TickEvery  int   `json:"tickEvery"` // one clock tick every n operations
	Tick       int64 `json:"tick"`
}

// taint keeps every plaintext key ever created (test-only copies) and searches emitted artefacts for them.
type taint struct {
	mu     sync.Mutex
	raw    map[[8]byte]string
	text   map[string]string // 12-character prefixes of the hex / base64 forms
	marker []byte
	hits   []string
}

func newTaint() *taint {
	return &taint{raw: map[[8]byte]string{}, text: map[string]string{}, marker: []byte("PAYLOAD-MARKER")}
}

func (t *taint) addKey(b []byte, what string) {
	if len(b) < 16 {
		return
	}
	t.mu.Lock()
	defer t.mu.Unlock()
	var k [8]byte
	copy(k[:], b[:8])
	t.raw[k] = what
	copy(k[:], b[8:16])
	t.raw[k] = what
	t.text[hex.EncodeToString(b)[:12]] = what
	t.text[base64.StdEncoding.EncodeToString(b)[:12]] = what
}

// scan searches an artefact; payloadOK says whether the payload marker may legitimately appear in it.
func (t *taint) scan(where string, b []byte, payloadOK bool) {
	t.mu.Lock()
	defer t.mu.Unlock()
	for i := 0; i+8 <= len(b); i++ {
		var k [8]byte
		copy(k[:], b[i:i+8])
		if w, ok := t.raw[k]; ok {
			t.hits = append(t.hits, fmt.Sprintf("%s contains raw bytes of %s", where, w))
			break
		}
	}
	for i := 0; i+12 <= len(b); i++ {
		if w, ok := t.text[string(b[i:i+12])]; ok {
			t.hits = append(t.hits, fmt.Sprintf("%s contains an encoded form of %s", where, w))
			break
		}
	}
	if !payloadOK && len(t.marker) > 0 && bytes.Contains(b, t.marker) {
		t.hits = append(t.hits, where+" contains payload plaintext")
	}
}

func (t *taint) take() []string {
	t.mu.Lock()
	defer t.mu.Unlock()
	h := t.hits
	t.hits = nil
	if h == nil {
		h = []string{}
	}
	return h
}

type logSink struct{ t *taint }

func (l logSink) Debugf(format string, v ...interface{}) {
	l.t.scan("debug log line", []byte(fmt.Sprintf(format, v...)), false)
}

// taintFactory wraps the tracking factory and hands every new key's bytes to the taint set.
type taintFactory struct {
	*fakes.SecretFactory
	t *taint
}

// Long runs the seeded long histories and writes the trace.
func Long(cfg LongCfg, seed int64, tracePath, outPath string) error {
	tw, err := vutil.NewTraceWriter(tracePath)
	if err != nil {
		return err
	}
	res := &vutil.Result{Driver: "env-long",
		Rule: "seeded long histories on real factories: many encrypts per intermediate key over several partitions with rotations by expiry, interleaved decrypts; every AEAD / KMS / metastore / secret event recorded; every emitted artefact (record JSON, metastore rows, KMS requests, debug log lines) searched for plaintext key and payload bytes; non-trivial = run with at least one rotation"}
	for run := 1; run <= cfg.Runs; run++ {
		evs, rot := longOne(cfg, seed*1000+int64(run))
		for _, e := range evs {
			e["run"] = run
			toModelTime(e)
			tw.Emit(e)
		}
		res.Evaluations++
		res.Traces++
		if rot {
			res.Nontrivial++
		}
	}
	res.Events = tw.N
	if err := tw.Close(); err != nil {
		return err
	}
	res.Print(outPath)
	return nil
}

func longOne(cfg LongCfg, seed int64) ([]fakes.Event, bool) {
	rng := rand.New(rand.NewSource(seed))
	w := fakes.NewWorld()
	t := newTaint()
	aelog.SetLogger(logSink{t})
	defer aelog.SetLogger(nil)
	c := &Case{Params: Params{E: cfg.E, R: cfg.R, P: cfg.P, T0: cfg.P}, Cfg: map[string]ProcCfg{"p1": {IK: []string{"session", "shared"}[rng.Intn(2)], SK: true}}}
	variants := []string{"simple", "lru", "slru", "lfu", "tinylfu"}
	r := &runner{w: w, c: c, opt: Options{Service: "svc", Product: "prod", Seed: seed, Variant: variants[rng.Intn(len(variants))], Capacity: 1000},
		procs: map[string]*proc{}, recs: map[Rec]*issuedRec{}, rng: rng}
	now := c.Params.T0
	vrt.SetModelTime(now)
	defer vrt.RealTime()
	p := &proc{name: "p1", cfg: c.Cfg["p1"], done: make(chan opResult, 1)}
	opf := func() string { return p.curOp }
	p.ms = &fakes.Metastore{W: w, Proc: "p1"}
	kms := &fakes.KMS{W: w, Proc: "p1", Op: opf}
	p.kms = kms
	p.crypto = &fakes.AEAD{W: w, Proc: "p1", Op: opf}
	p.sf = &fakes.SecretFactory{W: w, Proc: "p1", Op: opf}
	p.sf.OnCreate = func(kind string, b []byte) { t.addKey(b, kind+" secret") }
	r.newFactory(p)
	r.procs["p1"] = p
	w.Emit(fakes.Event{"e": "reset", "E": cfg.E, "R": cfg.R, "P": cfg.P, "now": now, "cfg": map[string]interface{}{"p1": p.cfg},
		"variant": r.opt.Variant, "capacity": 1000, "fits": true})
	parts := make([]string, cfg.Partitions)
	for i := range parts {
		parts[i] = fmt.Sprintf("%c", 'a'+i)
	}
	var recs []*issuedRec
	var recPart []string
	rotations := 0
	lastIK := map[string]int64{}
	ctx := context.Background()
	for i := 0; i < cfg.Ops; i++ {
		if cfg.TickEvery > 0 && i > 0 && i%cfg.TickEvery == 0 {
			now += cfg.Tick
			vrt.SetModelTime(now)
			w.Emit(fakes.Event{"e": "tick", "d": cfg.Tick, "now": now})
		}
		part := parts[rng.Intn(len(parts))]
		dec := len(recs) > 0 && rng.Intn(4) == 0
		p.opSeq++
		p.curOp = fmt.Sprintf("p1#%d", p.opSeq)
		sess, err := r.session(p, part)
		if err != nil {
			continue
		}
		ev := fakes.Event{"e": "start", "p": "p1", "kind": "Enc", "part": part, "op": p.curOp, "scope": r.scope(p, part), "skscope": r.skScope(p), "ikCreated": int64(0), "recpart": ""}
		ret := fakes.Event{"e": "ret", "p": "p1", "kind": "Enc", "op": p.curOp, "ok": false, "err": "", "ikCreated": int64(0), "ikKid": 0, "ikid": "",
			"chain": true, "fresh": true, "payload": true, "panic": "", "dirty": []string{}, "drkLive": 0, "opLive": 0, "live": 0, "dupLive": 0, "dupKids": []int{}, "bound": -1}
		if dec {
			k := rng.Intn(len(recs))
			in := recs[k]
			part = recPart[k]
			sess, _ = r.session(p, part)
			ev["kind"], ev["part"], ev["recpart"], ev["ikCreated"] = "Dec", part, part, in.drr.Key.ParentKeyMeta.Created
			ev["scope"] = r.scope(p, part)
			w.Emit(ev)
			out, err := sess.Decrypt(ctx, deepCopy(in.drr))
			ret["kind"], ret["ok"], ret["ikid"] = "Dec", err == nil, in.drr.Key.ParentKeyMeta.ID
			ret["payload"] = err == nil && bytes.Equal(out, in.payload)
			if err != nil {
				ret["err"] = err.Error()
			}
		} else {
			w.Emit(ev)
			pl := r.payload()
			d, err := sess.Encrypt(ctx, pl)
			if err != nil {
				ret["err"] = err.Error()
			} else {
				ret["ok"] = true
				ret["ikCreated"] = d.Key.ParentKeyMeta.Created
				ret["ikKid"] = w.WrapperOfCiphertext(d.Key.EncryptedKey)
				ret["ikid"] = d.Key.ParentKeyMeta.ID
				ret["drkLive"] = r.liveWithKid(p, w.KidOfCiphertext(d.Key.EncryptedKey))
				if row, ok := w.Get(d.Key.ParentKeyMeta.ID, d.Key.ParentKeyMeta.Created); !ok || w.KidOfCiphertext(row.Key) != ret["ikKid"].(int) {
					ret["chain"] = false
				}
				if c0, ok := lastIK[part]; ok && c0 != d.Key.ParentKeyMeta.Created {
					rotations++
				}
				lastIK[part] = d.Key.ParentKeyMeta.Created
				if len(recs) < 200 || rng.Intn(10) == 0 {
					recs = append(recs, &issuedRec{drr: deepCopy(*d), payload: pl})
					recPart = append(recPart, part)
				}
				// C03: nothing the caller receives carries plaintext key or payload bytes
				js, _ := json.Marshal(d)
				t.scan("data row record (json)", js, false)
				t.scan("data row record Data", d.Data, false)
				t.scan("data row record Key", d.Key.EncryptedKey, false)
			}
		}
		ret["live"] = len(p.sf.Live())
		if dd := w.TakeDirty(p.curOp); len(dd) > 0 {
			ret["dirty"] = dd
		}
		// metastore rows and KMS ciphertexts written so far
		for _, row := range w.Rows() {
			t.scan("metastore record "+row.ID, row.Key, false)
		}
		ret["taint"] = t.take()
		w.Emit(ret)
	}
	r.closeProc(p)
	w.Emit(fakes.Event{"e": "final", "p": "p1", "live": r.settle(p), "doubleClose": p.sf.DoubleClose, "useAfterClose": p.sf.UseAfterClose,
		"allocated": p.sf.Count(), "mutated": w.Mutate})
	_ = strings.TrimSpace
	return w.Events, rotations > 0
}
