package partdrv

import (
	"bytes"
	"crypto/rand"
	"errors"
	"io"
	"sync"

	"github.com/godaddy/asherah/go/securememory"
)

// heapFactory keeps secrets on the Go heap. The partition check is about key ids, not about memory protection, and the large
// universes hold thousands of sessions and cached keys at a time: with real locked pages the run would end at the process's
// mapping / mlock limits (which the first thorough run with four cache configurations did), not at a verdict.
type heapFactory struct{}

type heapSecret struct {
	mu     sync.Mutex
	b      []byte
	closed bool
}

var errClosed = errors.New("secret has already been destroyed")

func (heapFactory) New(b []byte) (securememory.Secret, error) {
	s := &heapSecret{b: append([]byte(nil), b...)}
	for i := range b {
		b[i] = 0
	}
	return s, nil
}

func (heapFactory) CreateRandom(size int) (securememory.Secret, error) {
	b := make([]byte, size)
	if _, err := rand.Read(b); err != nil {
		return nil, err
	}
	return &heapSecret{b: b}, nil
}

func (s *heapSecret) get() ([]byte, error) {
	s.mu.Lock()
	defer s.mu.Unlock()
	if s.closed {
		return nil, errClosed
	}
	return s.b, nil
}

func (s *heapSecret) WithBytes(action func([]byte) error) error {
	b, err := s.get()
	if err != nil {
		return err
	}
	return action(b)
}

func (s *heapSecret) WithBytesFunc(action func([]byte) ([]byte, error)) ([]byte, error) {
	b, err := s.get()
	if err != nil {
		return nil, err
	}
	return action(b)
}

func (s *heapSecret) IsClosed() bool { s.mu.Lock(); defer s.mu.Unlock(); return s.closed }

func (s *heapSecret) Close() error {
	s.mu.Lock()
	defer s.mu.Unlock()
	if !s.closed {
		for i := range s.b {
			s.b[i] = 0
		}
		s.closed = true
	}
	return nil
}

func (s *heapSecret) NewReader() io.Reader {
	b, err := s.get()
	if err != nil {
		return bytes.NewReader(nil)
	}
	return bytes.NewReader(append([]byte(nil), b...))
}
