// Package partdrv binds spec/Partition.tla to real sessions: for every (decrypting partition, producing partition,
// naming modes) pair printed by TLC, the producing session encrypts and the other session tries to decrypt.
package partdrv

import (
	"bytes"
	"context"
	"encoding/json"
	"fmt"
	"runtime/debug"
	"strings"

	"github.com/godaddy/asherah/go/appencryption"
	"github.com/godaddy/asherah/go/appencryption/pkg/crypto/aead"
	"github.com/godaddy/asherah/go/appencryption/pkg/kms"
	"github.com/godaddy/asherah/go/appencryption/pkg/persistence"

	"verif.local/harness/vutil"
)

type Case struct {
	P     []string `json:"p"`
	Q     []string `json:"q"`
	MP    []string `json:"mp"`
	MQ    []string `json:"mq"`
	Valid bool     `json:"valid"`
	Close bool     `json:"close"`
}

type suffixMS struct {
	appencryption.Metastore
	suffix string
}

func (s suffixMS) GetRegionSuffix() string { return s.suffix }

type world struct {
	base      *persistence.MemoryMetastore
	km        appencryption.KeyManagementService
	crypto    appencryption.AEAD
	factories map[string]*appencryption.SessionFactory
	sessions  map[string]*appencryption.Session
	records   map[string]*appencryption.DataRowRecord
	payload   []byte
	service   string
	product   string
	flavour   string // cache configuration of the factories used next
}

func newWorld(service, product string) (*world, error) {
	c := aead.NewAES256GCM()
	k, err := kms.NewStatic("thisIsAStaticMasterKeyForTesting", c)
	if err != nil {
		return nil, err
	}
	return &world{base: persistence.NewMemoryMetastore(), km: k, crypto: c, factories: map[string]*appencryption.SessionFactory{},
		sessions: map[string]*appencryption.Session{}, records: map[string]*appencryption.DataRowRecord{},
		payload: []byte("tenant data"), service: service, product: product}, nil
}

// Flavours are the cache configurations every pair is executed under: isolation must not depend on what is cached where.
var Flavours = []string{"default", "shared-ik", "session-cache", "no-cache"}

func (w *world) factory(mode string) *appencryption.SessionFactory {
	key := w.flavour + "\x00" + mode
	if f, ok := w.factories[key]; ok {
		return f
	}
	var ms appencryption.Metastore = w.base
	if mode != "" {
		ms = suffixMS{w.base, mode}
	}
	var pol *appencryption.CryptoPolicy
	switch w.flavour {
	case "shared-ik": // one IK cache for all partitions of the factory: the other partition's key is cached when its record arrives
		pol = appencryption.NewCryptoPolicy(appencryption.WithSharedIntermediateKeyCache(1000))
	case "session-cache":
		pol = appencryption.NewCryptoPolicy(appencryption.WithSessionCache())
	case "no-cache":
		pol = appencryption.NewCryptoPolicy(appencryption.WithNoCache())
	default:
		pol = appencryption.NewCryptoPolicy()
	}
	f := appencryption.NewSessionFactory(&appencryption.Config{Service: w.service, Product: w.product, Policy: pol}, ms, w.km, w.crypto,
		appencryption.WithSecretFactory(heapFactory{}))
	w.factories[key] = f
	return f
}

func (w *world) session(part, mode string) (*appencryption.Session, error) {
	k := w.flavour + "\x00" + mode + "\x00" + part
	if s, ok := w.sessions[k]; ok {
		return s, nil
	}
	s, err := w.factory(mode).GetSession(part)
	if err != nil {
		return nil, err
	}
	w.sessions[k] = s
	return s, nil
}

func (w *world) record(part, mode string) (*appencryption.DataRowRecord, error) {
	k := w.flavour + "\x00" + mode + "\x00" + part
	if d, ok := w.records[k]; ok {
		return d, nil
	}
	s, err := w.session(part, mode)
	if err != nil {
		return nil, err
	}
	d, err := s.Encrypt(context.Background(), w.payload)
	if err != nil {
		return nil, err
	}
	w.records[k] = d
	return d, nil
}

func (w *world) close() {
	for _, s := range w.sessions {
		s.Close()
	}
	for _, f := range w.factories {
		f.Close()
	}
}

type Event struct {
	E        string `json:"e"`
	P        string `json:"p"`
	Q        string `json:"q"`
	MP       string `json:"mp"`
	MQ       string `json:"mq"`
	Same     bool   `json:"same"`     // p = q
	SameMode bool   `json:"samemode"` // mp = mq
	Accepted bool   `json:"accepted"` // decrypt returned plaintext
	Plain    bool   `json:"plain"`    // ... and it is the producer's payload
	Panic    string `json:"panic"`
	Flavour  string `json:"flavour"`
	Run      int    `json:"run"`
}

// Replay runs every case.
func Replay(inPath, tracePath, outPath, service, product string) error {
	in, err := vutil.OpenIn(inPath)
	if err != nil {
		return err
	}
	defer in.Close()
	tw, err := vutil.NewTraceWriter(tracePath)
	if err != nil {
		return err
	}
	res := &vutil.Result{Driver: "part-replay",
		Rule: "every ordered pair (decrypting partition id, producing partition id) of the bounded id universe x naming modes {plain, region r, region q} printed by TLC from Partition.tla: the producer's real session encrypts, the other real session decrypts; non-trivial = pair of distinct ids where one key id is a prefix of the other or one partition id is a prefix of the other"}
	w, err := newWorld(service, product)
	if err != nil {
		return err
	}
	defer w.close()
	tw.Emit(Event{E: "reset", Run: 1})
	drift := 0
	err = vutil.ReadCases(in, func(raw []byte) error {
		var c Case
		if e := json.Unmarshal(raw, &c); e != nil || len(c.P) == 0 {
			return nil
		}
		p, q, mp, mq := strings.Join(c.P, ""), strings.Join(c.Q, ""), strings.Join(c.MP, ""), strings.Join(c.MQ, "")
		res.Evaluations++
		if p != q && c.Close {
			res.Nontrivial++
			res.Sample(raw, 3)
		}
		for _, fl := range Flavours {
			w.flavour = fl
			ev := Event{E: "pair", P: p, Q: q, MP: mp, MQ: mq, Same: p == q, SameMode: mp == mq, Flavour: fl, Run: 1}
			func() {
				defer func() {
					if x := recover(); x != nil {
						ev.Panic = fmt.Sprintf("%v\n%s", x, debug.Stack())
					}
				}()
				d, err := w.record(q, mq)
				if err != nil {
					ev.Panic = "producer could not encrypt: " + err.Error()
					return
				}
				s, err := w.session(p, mp)
				if err != nil {
					ev.Panic = "cannot open session: " + err.Error()
					return
				}
				cp := *d
				k := *d.Key
				pm := *d.Key.ParentKeyMeta
				k.ParentKeyMeta = &pm
				cp.Key = &k
				out, err := s.Decrypt(context.Background(), cp)
				ev.Accepted = err == nil
				ev.Plain = err == nil && bytes.Equal(out, w.payload)
			}()
			if ev.Same && ev.Accepted != c.Valid {
				drift++
			}
			tw.Emit(ev)
		}
		return nil
	})
	// empty partition ids are refused
	for _, fl := range Flavours {
		w.flavour = fl
		for _, mode := range []string{"", "r"} {
			_, e := w.factory(mode).GetSession("")
			tw.Emit(Event{E: "empty", MP: mode, Accepted: e == nil, Flavour: fl, Run: 1})
		}
	}
	res.Events = tw.N
	res.Traces = 1
	res.Extra = map[string]interface{}{"same_partition_drift": drift}
	if e := tw.Close(); e != nil {
		return e
	}
	res.Print(outPath)
	return err
}
