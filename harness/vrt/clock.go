// Package vrt is the verification runtime linked into the harness and - through the build overlay written by
// cmd/vinstr - into the instrumented copies of the repository's packages.
package vrt

import (
	"sync/atomic"
	"time"
)

// Base is the unix time that model time 0 maps to; a multiple of every CreateDatePrecision the harness uses,
// so that time.Truncate(P) equals t - t mod P in model time.
const Base int64 = 1_699_999_200 // multiple of 3600

var clock atomic.Int64 // model seconds + 1 (0 = real time)

// frac is a constant sub-second part (nanoseconds) added to every model second: with it the virtual "now" is never a whole
// second, as in production, while creation stamps (truncated to the creation-date precision) still are. Differences between two
// readings of the clock stay whole seconds.
var frac atomic.Int64

// SetFraction sets the sub-second part of the virtual clock (0 <= d < 1s).
func SetFraction(d time.Duration) { frac.Store(int64(d)) }

// Now replaces time.Now in instrumented packages.
func Now() time.Time {
	if v := clock.Load(); v != 0 {
		return time.Unix(Base+v-1, frac.Load())
	}
	return time.Now()
}

// SetModelTime sets the virtual clock to model second t.
func SetModelTime(t int64) { clock.Store(t + 1) }

// ModelTime returns the current model second (or -1 when running on real time).
func ModelTime() int64 { return clock.Load() - 1 }

// RealTime switches back to the wall clock.
func RealTime() { clock.Store(0) }

// ToModel converts a unix second to model time.
func ToModel(unix int64) int64 { return unix - Base }
