package vrt

import (
	"bytes"
	"fmt"
	"math/rand"
	"runtime"
	"strconv"
	"sync"
	"sync/atomic"
)

// ---------------------------------------------------------------------------------------------------------------
// Cooperative scheduler.
//
// In a controlled run exactly one managed goroutine executes at a time. Every instrumented synchronisation
// operation is a yield point: the goroutine parks there and the scheduler decides who continues. Managed goroutines
// never block in a real primitive (Lock is a TryLock loop, Cond.Wait / channels / WaitGroups are simulated), so the
// running goroutine always reaches its next yield point or terminates: no timeouts are needed, the event log is a
// true total order, and a schedule is just the list of choices made - replayable bit for bit.
//
// Goroutines the scheduler does not know (the test runner, finalizers) fall through to the real primitives.
// ---------------------------------------------------------------------------------------------------------------

type gstate struct {
	id      int // creation order: stable across replays
	name    string
	turn    chan struct{}
	label   string
	blocked bool  // parked because the operation it wants cannot proceed yet (lock held, nothing to receive, ...)
	epoch   int64 // value of the release epoch when it blocked: it is worth retrying only after something was released
	done    bool
}

// Choice is one scheduling decision.
type Choice struct {
	G     int    `json:"g"`
	Label string `json:"at"`
}

// Sched is one controlled run.
type Sched struct {
	mu      sync.Mutex
	gs      []*gstate
	byGoid  map[int64]*gstate
	parked  chan *gstate // a goroutine announces that it parked (or finished)
	Trace   []Choice
	pick    func(s *Sched, runnable []*gstate) *gstate
	rng     *rand.Rand
	replay  []int
	steps   int
	MaxStep int
	Dead    string // set when the run ended in a deadlock / livelock / step overflow
	last    *gstate
	// bounded-preemption DFS support
	Decisions []Decision
	prefix    []int
}

// Decision records, for systematic exploration, what could have been chosen at a step.
type Decision struct {
	Options []int // goroutine ids that were runnable (not blocked), in id order
	Chosen  int
	Last    int // goroutine that ran before this decision (-1: none)
}

var cur atomic.Pointer[Sched]

// relEpoch counts release-type events (unlock, broadcast, channel and wait-group traffic): a blocked goroutine becomes
// a scheduling candidate again only after one of them.
var relEpoch atomic.Int64

// Released replaces the yield after X.Unlock() / X.RUnlock().
func Released(label string) {
	relEpoch.Add(1)
	Yield(label)
}

func goid() int64 {
	var buf [64]byte
	n := runtime.Stack(buf[:], false)
	// "goroutine 123 [running]:..."
	b := buf[10:n]
	i := bytes.IndexByte(b, ' ')
	if i < 0 {
		return -1
	}
	id, _ := strconv.ParseInt(string(b[:i]), 10, 64)
	return id
}

func (s *Sched) me() *gstate {
	if s == nil {
		return nil
	}
	id := goid()
	s.mu.Lock()
	g := s.byGoid[id]
	s.mu.Unlock()
	return g
}

// NewSched creates a scheduler. strategy: "random" (seeded), "replay" (follow choices), "prefix" (follow prefix, then
// run non-preemptively: keep the current goroutine while it is runnable).
func NewSched(seed int64) *Sched {
	s := &Sched{byGoid: map[int64]*gstate{}, parked: make(chan *gstate), rng: rand.New(rand.NewSource(seed)), MaxStep: 200000}
	s.pick = pickRandom
	return s
}

// WithReplay makes the scheduler follow the given goroutine ids, then continue with the default strategy.
func (s *Sched) WithReplay(choices []int) *Sched { s.replay = choices; return s }

// WithPrefix makes the scheduler follow prefix and afterwards never preempt a runnable goroutine (DFS building block).
func (s *Sched) WithPrefix(prefix []int) *Sched {
	s.prefix = prefix
	s.pick = pickNonPreemptive
	return s
}

// WithPCT switches to a priority-based strategy with d change points (probabilistic concurrency testing).
func (s *Sched) WithPCT(depth, estSteps int) *Sched {
	prio := map[int]int{}
	change := map[int]bool{}
	for i := 0; i < depth; i++ {
		change[s.rng.Intn(estSteps+1)] = true
	}
	low := 0
	s.pick = func(s *Sched, runnable []*gstate) *gstate {
		for _, g := range runnable {
			if _, ok := prio[g.id]; !ok {
				prio[g.id] = 1000 + s.rng.Intn(1000)
			}
		}
		best := runnable[0]
		for _, g := range runnable[1:] {
			if prio[g.id] > prio[best.id] {
				best = g
			}
		}
		if change[s.steps] {
			low--
			prio[best.id] = low
		}
		return best
	}
	return s
}

func pickRandom(s *Sched, runnable []*gstate) *gstate { return runnable[s.rng.Intn(len(runnable))] }

func pickNonPreemptive(s *Sched, runnable []*gstate) *gstate {
	if s.last != nil {
		for _, g := range runnable {
			if g == s.last {
				return g
			}
		}
	}
	return runnable[0]
}

// Go starts a managed goroutine (replaces the go statement in instrumented code; also used by drivers).
func Go(name string, f func()) {
	s := cur.Load()
	if s == nil || (s.me() == nil && !s.spawning()) {
		go f()
		return
	}
	s.spawn(name, f)
}

func (s *Sched) spawning() bool { return false }

// Spawn registers and starts a managed goroutine; it does not run until the scheduler picks it.
func (s *Sched) Spawn(name string, f func()) { s.spawn(name, f) }

func (s *Sched) spawn(name string, f func()) {
	g := &gstate{name: name, turn: make(chan struct{}), label: "start"}
	s.mu.Lock()
	g.id = len(s.gs)
	s.gs = append(s.gs, g)
	s.mu.Unlock()
	ready := make(chan struct{})
	go func() {
		s.mu.Lock()
		s.byGoid[goid()] = g
		s.mu.Unlock()
		close(ready)
		<-g.turn
		defer func() {
			g.done = true
			s.parked <- g
		}()
		f()
	}()
	<-ready
}

// Run executes the managed goroutines until all have finished (or a deadlock is detected).
func (s *Sched) Run() {
	cur.Store(s)
	defer cur.Store(nil)
	stuck := 0
	for {
		s.mu.Lock()
		var runnable, blocked []*gstate
		for _, g := range s.gs {
			if g.done {
				continue
			}
			if g.blocked && g.epoch == relEpoch.Load() {
				blocked = append(blocked, g)
			} else {
				runnable = append(runnable, g)
			}
		}
		s.mu.Unlock()
		if len(runnable) == 0 && len(blocked) == 0 {
			return
		}
		var g *gstate
		if len(runnable) == 0 {
			// everyone is waiting for something: let each retry once; if nobody makes progress it is a deadlock
			stuck++
			if stuck > 2*len(blocked)+2 {
				s.Dead = "deadlock: every goroutine is blocked: " + s.describe(blocked)
				s.abandon()
				return
			}
			g = blocked[(stuck-1)%len(blocked)]
		} else {
			opts := make([]int, len(runnable))
			for i, r := range runnable {
				opts[i] = r.id
			}
			switch {
			case s.steps < len(s.replay):
				g = s.find(s.replay[s.steps], runnable, blocked)
			case len(s.Decisions) < len(s.prefix):
				g = s.find(s.prefix[len(s.Decisions)], runnable, blocked)
			}
			if g == nil {
				g = s.pick(s, runnable)
			}
			lastID := -1
			if s.last != nil {
				lastID = s.last.id
			}
			s.Decisions = append(s.Decisions, Decision{Options: opts, Chosen: g.id, Last: lastID})
		}
		s.steps++
		if s.steps > s.MaxStep {
			s.Dead = "livelock: step bound exceeded"
			s.abandon()
			return
		}
		s.Trace = append(s.Trace, Choice{G: g.id, Label: g.label})
		wasBlocked := g.blocked
		g.blocked = false
		s.last = g
		g.turn <- struct{}{}
		p := <-s.parked
		if !(wasBlocked && p.blocked) {
			stuck = 0
		}
	}
}

func (s *Sched) find(id int, a, b []*gstate) *gstate {
	for _, g := range a {
		if g.id == id {
			return g
		}
	}
	return nil
}

func (s *Sched) describe(gs []*gstate) string {
	var b bytes.Buffer
	for _, g := range gs {
		fmt.Fprintf(&b, "[g%d %s at %s] ", g.id, g.name, g.label)
	}
	return b.String()
}

// abandon leaves parked goroutines behind (they are garbage: the run is over) and detaches the scheduler.
func (s *Sched) abandon() { cur.Store(nil) }

// Steps returns the number of scheduling steps taken.
func (s *Sched) Steps() int { return s.steps }

// Choices returns the goroutine ids chosen, for replay.
func (s *Sched) Choices() []int {
	out := make([]int, len(s.Trace))
	for i, c := range s.Trace {
		out[i] = c.G
	}
	return out
}

// ---------------------------------------------------------------------------------------------------------------
// yield points (called from instrumented code)

func (s *Sched) park(g *gstate, label string, blocked bool) {
	g.label = label
	g.blocked = blocked
	g.epoch = relEpoch.Load()
	s.parked <- g
	<-g.turn
}

// Yield is a scheduling point without a wait condition.
func Yield(label string) {
	s := cur.Load()
	if s == nil {
		return
	}
	if g := s.me(); g != nil {
		s.park(g, label, false)
	}
}

// Acquire replaces X.Lock() / X.RLock(): try is X.TryLock (or TryRLock), block the real blocking call.
func Acquire(try func() bool, block func(), label string) {
	s := cur.Load()
	var g *gstate
	if s != nil {
		g = s.me()
	}
	if g == nil {
		block()
		return
	}
	s.park(g, label, false)
	for !try() {
		s.park(g, label, true)
	}
}

// WaitUntil parks until cond() holds (used by the simulated Cond / channel / WaitGroup).
func waitUntil(label string, cond func() bool) bool {
	s := cur.Load()
	var g *gstate
	if s != nil {
		g = s.me()
	}
	if g == nil {
		return false
	}
	s.park(g, label, false)
	for !cond() {
		s.park(g, label, true)
	}
	return true
}

// ---- sync.Cond

var condGen sync.Map // *sync.Cond -> *atomic.Int64

func gen(c *sync.Cond) *atomic.Int64 {
	v, _ := condGen.LoadOrStore(c, new(atomic.Int64))
	return v.(*atomic.Int64)
}

// CondWait replaces c.Wait().
func CondWait(c *sync.Cond, label string) {
	s := cur.Load()
	if s == nil || s.me() == nil {
		c.Wait()
		return
	}
	g0 := gen(c).Load()
	c.L.Unlock()
	waitUntil(label, func() bool { return gen(c).Load() != g0 })
	tl := c.L.(interface{ TryLock() bool })
	Acquire(tl.TryLock, c.L.Lock, label+"#relock")
}

// CondBroadcast replaces c.Broadcast() and c.Signal().
func CondBroadcast(c *sync.Cond) {
	relEpoch.Add(1)
	gen(c).Add(1)
	c.Broadcast()
}

// ---- channels (unbuffered rendezvous semantics, as used by the cache's event loop)

type simChan struct {
	mu     sync.Mutex
	q      []interface{}
	taken  int64
	sent   int64
	closed bool
}

var chans sync.Map // channel value -> *simChan

func sim(ch interface{}) *simChan {
	v, _ := chans.LoadOrStore(ch, &simChan{})
	return v.(*simChan)
}

// ChanSend replaces ch <- v.
func ChanSend[T any](ch chan T, v T, label string) {
	s := cur.Load()
	if s == nil || s.me() == nil {
		ch <- v
		return
	}
	c := sim(ch)
	c.mu.Lock()
	c.q = append(c.q, v)
	relEpoch.Add(1)
	c.sent++
	my := c.sent
	c.mu.Unlock()
	// an unbuffered send completes when the receiver has taken the value
	waitUntil(label, func() bool { c.mu.Lock(); defer c.mu.Unlock(); return c.taken >= my })
}

// ChanRecv replaces v, ok := <-ch and one iteration of for v := range ch.
func ChanRecv[T any](ch chan T, label string) (T, bool) {
	s := cur.Load()
	if s == nil || s.me() == nil {
		v, ok := <-ch
		return v, ok
	}
	c := sim(ch)
	var out T
	ok := true
	waitUntil(label, func() bool {
		c.mu.Lock()
		defer c.mu.Unlock()
		if len(c.q) > 0 {
			out = c.q[0].(T)
			c.q = c.q[1:]
			relEpoch.Add(1)
			c.taken++
			return true
		}
		if c.closed {
			ok = false
			return true
		}
		return false
	})
	return out, ok
}

// ChanClose replaces close(ch).
func ChanClose[T any](ch chan T) {
	s := cur.Load()
	if s == nil || s.me() == nil {
		close(ch)
		return
	}
	c := sim(ch)
	c.mu.Lock()
	c.closed = true
	relEpoch.Add(1)
	c.mu.Unlock()
}

// ---- sync.WaitGroup

var wgs sync.Map // *sync.WaitGroup -> *atomic.Int64

func wgc(w *sync.WaitGroup) *atomic.Int64 {
	v, _ := wgs.LoadOrStore(w, new(atomic.Int64))
	return v.(*atomic.Int64)
}

func WGAdd(w *sync.WaitGroup, n int) { wgc(w).Add(int64(n)); w.Add(n) }
func WGDone(w *sync.WaitGroup)       { relEpoch.Add(1); wgc(w).Add(-1); w.Done() }
func WGWait(w *sync.WaitGroup, label string) {
	s := cur.Load()
	if s == nil || s.me() == nil {
		w.Wait()
		return
	}
	waitUntil(label, func() bool { return wgc(w).Load() <= 0 })
}

// WaitUntil parks the calling managed goroutine until cond holds (drivers use it to join workers).
func WaitUntil(label string, cond func() bool) {
	if !waitUntil(label, cond) {
		for !cond() {
			runtime.Gosched()
		}
	}
}

// GID returns the scheduler's id of the calling goroutine (-1: unmanaged).
func GID() int {
	s := cur.Load()
	if s == nil {
		return -1
	}
	if g := s.me(); g != nil {
		return g.id
	}
	return -1
}

// Controlled reports whether the calling goroutine runs under the cooperative scheduler.
func Controlled() bool {
	s := cur.Load()
	return s != nil && s.me() != nil
}
