#!/bin/sh
# Runs the repository's own pinned test suite with the `verif` build tag OFF (same command as /root/.vp/BASELINE.json).
. /w/out/goenv.sh 2>/dev/null || gomodflag() { gw=$(go env GOWORK 2>/dev/null); if [ -z "$gw" ] || [ "$gw" = off ]; then echo "-mod=mod"; fi; }
MODS=$(cat /w/out/gomods.txt 2>/dev/null || echo "./go/appencryption ./go/appencryption/integrationtest ./go/securememory ./server/go ./tests/cross-language/go")
rc=0
for m in $MODS; do
  MF=$(cd /repo/$m && gomodflag)
  (cd /repo/$m && go test $MF -json -vet=off -count=1 -timeout 25m ./...) || rc=1
done
exit $rc
