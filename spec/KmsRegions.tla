----------------------------- MODULE KmsRegions -----------------------------
(***************************************************************************)
(* Multi-region fail-over of the two AWS KMS plugins, property C17.        *)
(*   go/appencryption/plugins/aws-v1/kms/aws.go   (SDK v1: AWSKMS.Clients, *)
(*        sortClients, generateDataKey, encryptAllRegions, DecryptKey)     *)
(*   go/appencryption/plugins/aws-v2/kms/kms.go, builder.go  (SDK v2:      *)
(*        Builder.Build puts the preferred region first, generateDataKey,  *)
(*        encryptAllRegions, DecryptKey)                                   *)
(* Both plugins write the same envelope                                    *)
(*   {encryptedKey, kmsKeks: [{region, arn, encryptedKek}]}                *)
(* so an envelope written by one can be read by the other.                 *)
(*                                                                         *)
(* One case = one system key that is wrapped once (EncryptKey) by a plugin *)
(* configured with the regions wcfg / preferred wpref while the regional   *)
(* GenerateDataKey / Encrypt operations in genUp / encUp are available,    *)
(* and then unwrapped once (DecryptKey) by a possibly different plugin     *)
(* with its own region set ucfg / preferred upref while the regional       *)
(* Decrypt operations in decUp are available - and, the outage over, once  *)
(* more by that same plugin instance with every region available (the      *)
(* plugins are long-lived: an earlier fail-over must leave no trace).       *)
(*                                                                         *)
(* The module has two layers:                                              *)
(*  - the DESIGN (actions Wrap / Unwrap): the algorithm of the code, a     *)
(*    client list with the preferred region first and the others in any    *)
(*    order (Go map iteration), walked until the first success;            *)
(*  - the PROPERTY (WrapAllowed / UnwrapAllowed): what C17 demands of an   *)
(*    observed outcome, nothing about the mechanism.  The invariants say   *)
(*    the design meets the property; KmsRegionsTrace.tla applies the very  *)
(*    same predicates to outcomes recorded from the real plugins.          *)
(***************************************************************************)
EXTENDS Integers, Sequences, FiniteSets, TLC

CONSTANTS Regions,    \* universe of region names; every non-empty subset is a configuration
          Plugins,    \* {"v1", "v2"}
          Family      \* which unwrap-side configurations are explored:
                      \*   "same": same regions and preferred region as the wrapping side
                      \*   "pref": same regions, any preferred region
                      \*   "any" : any non-empty region set, any preferred region in it

VARIABLES phase,      \* "idle" -> "configured" -> "wrapped" -> "done" -> "redone"
          c,          \* the case (configuration + availability)
          w,          \* outcome of the wrap
          u,          \* outcome of the unwrap
          u2          \* outcome of the second unwrap by the same instance after every region has recovered

vars == <<phase, c, w, u, u2>>

NE(S) == SUBSET S \ {{}}
Range(s) == {s[i] : i \in 1..Len(s)}

NoCase == [wplug |-> "", uplug |-> "", wcfg |-> {}, wpref |-> "", genUp |-> {}, encUp |-> {},
           ucfg |-> {}, upref |-> "", decUp |-> {}]
NoWrap == [ok |-> FALSE, entries |-> {}, genOrder |-> <<>>, wiped |-> TRUE]
NoUnwrap == [ok |-> FALSE, same |-> FALSE, order |-> <<>>]

\* a well-formed case (the quantifier of C17)
IsCase(k) ==
  /\ k.wplug \in Plugins /\ k.uplug \in Plugins
  /\ k.wcfg \in NE(Regions) /\ k.wpref \in k.wcfg
  /\ k.genUp \subseteq k.wcfg /\ k.encUp \subseteq k.wcfg
  /\ k.ucfg \in NE(Regions) /\ k.upref \in k.ucfg
  /\ k.decUp \subseteq k.ucfg

---------------------------------------------------------------------------
(* PROPERTY C17, as predicates over an observed outcome.                   *)

\* Wrapping succeeds as long as one region can generate a data key, includes an entry for every region that
\* succeeded (the region g that generated the data key, plus every other region whose Encrypt is available - nothing
\* else can have an entry), and wipes the plaintext data key.  The clauses are named so that a rejected observation
\* can be reported with the clause it breaks.
WrapClause(n, k, o) ==
  CASE n = "wrap-failed-although-a-region-can-generate-a-data-key" -> (k.genUp # {}) => o.ok
    [] n = "wrap-succeeded-although-no-region-can-generate-a-data-key" -> o.ok => (k.genUp # {})
    [] n = "envelope-entries-are-not-exactly-the-regions-that-succeeded" ->
         IF o.ok THEN \E g \in k.genUp \cap Range(o.genOrder) : o.entries = {g} \cup k.encUp
                 ELSE o.entries = {}
    [] n = "plaintext-data-key-not-wiped-after-wrap" -> o.wiped
WrapClauses == {"wrap-failed-although-a-region-can-generate-a-data-key",
                "wrap-succeeded-although-no-region-can-generate-a-data-key",
                "envelope-entries-are-not-exactly-the-regions-that-succeeded",
                "plaintext-data-key-not-wiped-after-wrap"}
WrapWhy(k, o) == {n \in WrapClauses : ~WrapClause(n, k, o)}
WrapAllowed(k, o) == WrapWhy(k, o) = {}

\* not demanded by the property text (which orders the unwrap only) but it is what the code documents: GenerateDataKey
\* is tried in client order, preferred region first.  Checked as conformance (drift), not as a verdict.
GenPreferredFirst(k, o) == o.genOrder # <<>> /\ o.genOrder[1] = k.wpref

\* Unwrapping succeeds exactly when at least one configured region that has an entry is able to decrypt, returns the
\* identical bytes, and is attempted in preferred-region-first order (the order of the other regions is unspecified).
UnwrapClause(n, k, entries, o) ==
  LET cand == k.ucfg \cap entries IN
  CASE n = "unwrap-failed-although-a-configured-region-with-an-entry-can-decrypt" -> (cand \cap k.decUp # {}) => o.ok
    [] n = "unwrap-succeeded-although-no-configured-region-with-an-entry-can-decrypt" -> o.ok => (cand \cap k.decUp # {})
    [] n = "unwrap-returned-different-key-bytes" -> o.ok => o.same
    [] n = "preferred-region-has-an-entry-but-was-not-tried-first" ->
         k.upref \in cand => (o.order # <<>> /\ o.order[1] = k.upref)
UnwrapClauses == {"unwrap-failed-although-a-configured-region-with-an-entry-can-decrypt",
                  "unwrap-succeeded-although-no-configured-region-with-an-entry-can-decrypt",
                  "unwrap-returned-different-key-bytes",
                  "preferred-region-has-an-entry-but-was-not-tried-first"}
UnwrapWhy(k, entries, o) == {n \in UnwrapClauses : ~UnwrapClause(n, k, entries, o)}
UnwrapAllowed(k, entries, o) == UnwrapWhy(k, entries, o) = {}

---------------------------------------------------------------------------
(* DESIGN: the algorithm shared by both plugins.                           *)

\* client lists: the preferred region first (v1 sortClients, v2 Builder.Build), the rest in map-iteration order
Orders(S, p) == {f \in [1..Cardinality(S) -> S] : /\ f[1] = p
                                                   /\ \A i, j \in 1..Cardinality(S) : i # j => f[i] # f[j]}

FirstIn(s, S) == LET I == {i \in 1..Len(s) : s[i] \in S} IN
                 IF I = {} THEN 0 ELSE CHOOSE i \in I : \A j \in I : i <= j

\* generateDataKey walks the clients until one succeeds; encryptAllRegions re-uses the generator's blob and calls
\* Encrypt everywhere else, silently dropping the regions that fail; the deferred MemClr wipes the data key
WrapResult(k, ord) ==
  LET i == FirstIn(ord, k.genUp) IN
  IF i = 0 THEN [ok |-> FALSE, entries |-> {}, genOrder |-> ord, wiped |-> TRUE]
  ELSE [ok |-> TRUE, entries |-> {ord[i]} \cup (k.encUp \ {ord[i]}), genOrder |-> SubSeq(ord, 1, i), wiped |-> TRUE]

\* DecryptKey walks the clients, skips regions without an entry, returns on the first Decrypt that succeeds
UnwrapResult(k, entries, ord) ==
  LET att == SelectSeq(ord, LAMBDA r : r \in entries)
      i == FirstIn(att, k.decUp) IN
  IF i = 0 THEN [ok |-> FALSE, same |-> FALSE, order |-> att]
  ELSE [ok |-> TRUE, same |-> TRUE, order |-> SubSeq(att, 1, i)]

UCfgs(wr) == IF Family = "any" THEN NE(Regions) ELSE {wr}
UPrefs(ur, pr) == IF Family = "same" THEN {pr} ELSE ur

Init == phase = "idle" /\ c = NoCase /\ w = NoWrap /\ u = NoUnwrap /\ u2 = NoUnwrap

\* the case as it stands for the second unwrap: the unwrapping side's regions are all available again
Recovered(k) == [k EXCEPT !.decUp = k.ucfg]

\* Decrypt availability is only varied for regions that can have an entry at all (those the wrapping side knows)
ConfigureWith(Emit(_)) ==
  /\ phase = "idle"
  /\ \E wp \in Plugins, up \in Plugins, wr \in NE(Regions) :
       \E pr \in wr, g \in SUBSET wr, e \in SUBSET wr, ur \in UCfgs(wr) :
         \E upf \in UPrefs(ur, pr), d \in SUBSET (ur \cap wr) :
           LET k == [wplug |-> wp, uplug |-> up, wcfg |-> wr, wpref |-> pr, genUp |-> g, encUp |-> e,
                     ucfg |-> ur, upref |-> upf, decUp |-> d] IN
           /\ c' = k /\ Emit(k)
  /\ phase' = "configured" /\ UNCHANGED <<w, u, u2>>

Configure == ConfigureWith(LAMBDA k : TRUE)

Wrap == /\ phase = "configured"
        /\ \E ord \in Orders(c.wcfg, c.wpref) : w' = WrapResult(c, ord)
        /\ phase' = "wrapped" /\ UNCHANGED <<c, u, u2>>

Unwrap == /\ phase = "wrapped" /\ w.ok
          /\ \E ord \in Orders(c.ucfg, c.upref) : u' = UnwrapResult(c, w.entries, ord)
          /\ phase' = "done" /\ UNCHANGED <<c, w, u2>>

\* the same instance again, outage over: DecryptKey keeps no state, so this is simply UnwrapResult on the recovered case
Reunwrap == /\ phase = "done"
            /\ \E ord \in Orders(c.ucfg, c.upref) : u2' = UnwrapResult(Recovered(c), w.entries, ord)
            /\ phase' = "redone" /\ UNCHANGED <<c, w, u>>

Next == Configure \/ Wrap \/ Unwrap \/ Reunwrap
Spec == Init /\ [][Next]_vars

---------------------------------------------------------------------------
(* The design meets the property.                                          *)
TypeOK == /\ phase \in {"idle", "configured", "wrapped", "done", "redone"}
          /\ phase # "idle" => IsCase(c)
          /\ w.entries \subseteq c.wcfg
WrapMeetsC17 == phase \in {"wrapped", "done", "redone"} => WrapAllowed(c, w) /\ GenPreferredFirst(c, w)
UnwrapMeetsC17 == phase \in {"done", "redone"} => UnwrapAllowed(c, w.entries, u)
\* ... and the instance behaves like a fresh one afterwards (preferred region first again)
ReunwrapMeetsC17 == phase = "redone" => UnwrapAllowed(Recovered(c), w.entries, u2)
\* the headline, spelled out once more without the helper predicates: any surviving region can unwrap
AnySurvivorUnwraps == phase \in {"done", "redone"} =>
   (u.ok <=> \E r \in c.ucfg : r \in w.entries /\ r \in c.decUp)
\* same configuration on both sides, nothing failed at wrap time: every single region on its own is enough
EveryRegionSuffices == (phase \in {"done", "redone"} /\ c.ucfg = c.wcfg /\ c.encUp = c.wcfg /\ c.decUp # {}) => u.ok
=============================================================================
