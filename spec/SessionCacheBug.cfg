SPECIFICATION Spec
CONSTANTS
  G = {"g1", "g2"}
  Parts = {"a", "b"}
  Cap = 1
  MaxOps = 2
  WaitLoop = FALSE
INVARIANTS HeldSessionNeverTornDown UsersMatchHolders OnePerPartition Bounded AtMostOnce NotWhileCached
CHECK_DEADLOCK FALSE
