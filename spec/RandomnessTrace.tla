--------------------------- MODULE RandomnessTrace ---------------------------
(* C03: every key is a newly generated random 256-bit key and every nonce a fresh random nonce - also when the operating      *)
(* system's random source hands its bytes out in small pieces (crypto/rand.Reader is an io.Reader: a Read may return fewer      *)
(* bytes than asked for).  The driver generates 32-byte keys with SecretFactory.CreateRandom of both secure-memory              *)
(* implementations (the source of every DRK, IK and SK) and AES-256-GCM nonces with the SDK's AEAD, once with the reader as     *)
(* it is and once with a reader that returns at most chunk bytes per Read, and logs for each value what a partially filled      *)
(* buffer would show.  Chances of a false rejection: an all-zero aligned 8-byte block or two keys sharing one, 2^-64 each;      *)
(* a nonce whose last 4 bytes are zero or repeat an earlier one is counted and only MORE THAN ONE per run is rejected           *)
(* (2^-32 each, independent).                                                                                                     *)
EXTENDS Integers, Sequences, TLC, Json
TraceLog == ndJsonDeserialize("trace.ndjson")
VARIABLES l, what, odd
ev == TraceLog[l]
IsEv(e) == l <= Len(TraceLog) /\ ev.e = e /\ l' = l + 1
TInit == l = 1 /\ what = "" /\ odd = 0
TReset == IsEv("reset") /\ what' = ev.what /\ odd' = 0
\* a generated key: creation works, all 32 bytes are there, no 8-byte block was left unfilled, none repeats an earlier key's
TKey == IsEv("key") /\ what = "key" /\ ev.ok /\ ev.len = 32 /\ ev.zeroBlocks = 0 /\ ~ev.seenBefore /\ UNCHANGED <<what, odd>>
\* a nonce: at most one per run may look unfilled / repeated by chance
TNonce == IsEv("nonce") /\ what = "nonce" /\ ev.ok
          /\ odd' = odd + (IF ev.zeroTail \/ ev.seenBefore THEN 1 ELSE 0) /\ odd' <= 1 /\ UNCHANGED what
TNext == TReset \/ TKey \/ TNonce
TSpec == TInit /\ [][TNext]_<<l, what, odd>>
TraceAccepted == LET d == TLCGet("stats").diameter IN
                 IF d - 1 = Len(TraceLog) THEN TRUE ELSE Print(<<"TRACE-REJECTED-AT-LINE", d>>, FALSE)
=============================================================================
