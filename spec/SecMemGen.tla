------------------------------ MODULE SecMemGen ------------------------------
(* every transition of SecMem.tla's state graph is printed once with a witness path: {impl, path:[{op,F}], step:{op,F}} *)
EXTENDS SecMem, Json
VARIABLE hist
gvars == <<vars, hist>>
GenView == <<impl, pg, created, readers, closing, closed, inuse, stuckRO, nfaults>>
SetToSeq(S) == CHOOSE s \in [1..Cardinality(S) -> S] : \A i, j \in 1..Cardinality(S) : i < j => s[i] < s[j]
C(l) == [op |-> l.op, F |-> SetToSeq(l.F)]
GInit == Init /\ hist = <<>>
GNext == /\ Next
         /\ hist' = Append(hist, C(last'))
         /\ PrintT(ToJson([impl |-> impl, path |-> hist, step |-> C(last')]))
GSpec == GInit /\ [][GNext]_gvars
=============================================================================
