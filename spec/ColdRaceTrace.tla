----------------------------- MODULE ColdRaceTrace -----------------------------
(* C14 / C02 on the SDK's own in-memory metastore: cold processes (session factories with caches of their own) race to create *)
(* the system key and the intermediate key of one partition in the same timestamp window (schedules of the real code under the  *)
(* cooperative scheduler; no faults). Every racer must get a record (the loser of an insert adopts the stored key), and every  *)
(* record handed out must decrypt, to the bytes that were encrypted, in a process that starts afterwards with empty caches:    *)
(* the racers converged on keys that are in the store.                                                                          *)
EXTENDS Integers, Sequences, FiniteSets, TLC, Json
TraceLog == ndJsonDeserialize("trace.ndjson")
VARIABLES l, issued, stamps
ev == TraceLog[l]
IsEv(e) == l <= Len(TraceLog) /\ ev.e = e /\ l' = l + 1
TInit == l = 1 /\ issued = {} /\ stamps = {}
TReset == IsEv("reset") /\ issued' = {} /\ stamps' = {}
\* an encrypt in the race: succeeds (nothing fails in this workload) and names an intermediate key
TEnc == IsEv("enc") /\ ev.ok /\ ev.ik > 0 /\ issued' = issued \cup {ev.g} /\ stamps' = stamps \cup {ev.ik}
\* the late, cold process: decrypts exactly what was handed out; the clock stands still, so all racers named one key stamp
TFresh == IsEv("fresh") /\ ev.issued = (ev.g \in issued) /\ (ev.issued => ev.ok /\ ev.match) /\ Cardinality(stamps) <= 1
          /\ UNCHANGED <<issued, stamps>>
TFinal == IsEv("final") /\ ev.dead = "" /\ ev.panic = "" /\ UNCHANGED <<issued, stamps>>
TNext == TReset \/ TEnc \/ TFresh \/ TFinal
TSpec == TInit /\ [][TNext]_<<l, issued, stamps>>
TraceAccepted == LET d == TLCGet("stats").diameter IN
                 IF d - 1 = Len(TraceLog) THEN TRUE ELSE Print(<<"TRACE-REJECTED-AT-LINE", d>>, FALSE)
=============================================================================
