----------------------------- MODULE TamperGen -----------------------------
(* prints every case of Tamper.tla (or a 1/SampleEvery sample of the far-from-genuine ones) with the model's outcome *)
EXTENDS Tamper, Json
CONSTANT SampleEvery
VARIABLE done
Near(c) == Cardinality({f \in {"data", "key", "meta"} : c[f] \in {"own", "same", "old"}}) >= 2 \/ (c.ik # "intact" /\ c.data = c.key /\ c.data \in {"own","old"})
GInit == done = FALSE
GNext == /\ ~done /\ done' = TRUE
         /\ \A c \in Cases : (Near(c) \/ SampleEvery = 1 \/ RandomElement(1..SampleEvery) = 1) =>
               PrintT(ToJson([data |-> c.data, key |-> c.key, meta |-> c.meta, ik |-> c.ik, sk |-> c.sk, expect |-> Outcome(c)[1]]))
GSpec == GInit /\ [][GNext]_done
=============================================================================
