----------------------------- MODULE SessionCache -----------------------------
(***************************************************************************)
(* Design model of the session cache (go/appencryption/session_cache.go on *)
(* top of pkg/cache): cacheWrapper.Get under its mutex, the usage counter  *)
(* of sharedEncryption, eviction callbacks that spawn one Remove goroutine *)
(* per evicted session, Remove waiting on the condition variable until the *)
(* last holder has closed, SessionFactory.Close.  Property C16.            *)
(*                                                                         *)
(* WaitLoop = TRUE is the code as written (for accessCounter > 0 { Wait }). *)
(* FALSE models a single wake-up (if instead of for): TLC must then find a *)
(* held session being torn down - the check runs both, so the model cannot *)
(* be vacuous.                                                             *)
(***************************************************************************)
EXTENDS Integers, Sequences, FiniteSets, TLC

CONSTANTS G, Parts, Cap, MaxOps, WaitLoop

VARIABLES cache,      \* sequence of session ids, most recently used first
          sess,       \* id -> [part, users, rm ("none" | "check" | "waiting" | "woken" | "done"), closed, teardowns]
          nextId,
          pc, held, ops,
          factoryClosed

vars == <<cache, sess, nextId, pc, held, ops, factoryClosed>>

Init == /\ cache = <<>> /\ sess = <<>> /\ nextId = 1 /\ factoryClosed = FALSE
        /\ pc = [g \in G |-> "idle"] /\ held = [g \in G |-> 0] /\ ops = [g \in G |-> 0]

InCache(p) == {i \in 1..Len(cache) : sess[cache[i]].part = p}
Touch(i) == <<cache[i]>> \o SubSeq(cache, 1, i - 1) \o SubSeq(cache, i + 1, Len(cache))

\* cacheWrapper.Get: everything happens under cacheWrapper.mu, so it is one step:
\* hit -> that session; miss -> new session, cache.Set (evicting the LRU session: its Remove goroutine is spawned); usage++
Get(g) == /\ pc[g] = "idle" /\ ops[g] < MaxOps /\ ~factoryClosed
          /\ \E p \in Parts :
               IF InCache(p) # {}
               THEN LET i == CHOOSE i \in InCache(p) : TRUE
                        s == cache[i] IN
                    /\ cache' = Touch(i) /\ sess' = [sess EXCEPT ![s].users = @ + 1]
                    /\ held' = [held EXCEPT ![g] = s] /\ UNCHANGED nextId
               ELSE LET s == nextId
                        full == Len(cache) >= Cap
                        v == cache[Len(cache)]
                        kept == IF full THEN SubSeq(cache, 1, Len(cache) - 1) ELSE cache
                        s1 == (s :> [part |-> p, users |-> 1, rm |-> "none", closed |-> FALSE, teardowns |-> 0]) @@ sess IN
                    /\ cache' = <<s>> \o kept
                    /\ sess' = IF full THEN [s1 EXCEPT ![v].rm = "check"] ELSE s1
                    /\ held' = [held EXCEPT ![g] = s] /\ nextId' = nextId + 1
          /\ pc' = [pc EXCEPT ![g] = "use"] /\ ops' = [ops EXCEPT ![g] = @ + 1]
          /\ UNCHANGED factoryClosed

\* Encrypt / Decrypt through the held session
Use(g) == /\ pc[g] = "use" /\ pc' = [pc EXCEPT ![g] = "close"]
          /\ UNCHANGED <<cache, sess, nextId, held, ops, factoryClosed>>

\* Session.Close -> sharedEncryption.Close: usage--, Broadcast (wakes every Remove waiting on this session)
Close(g) == /\ pc[g] = "close"
            /\ LET s == held[g] IN
               sess' = [sess EXCEPT ![s].users = @ - 1, ![s].rm = IF @ = "waiting" THEN "woken" ELSE @]
            /\ held' = [held EXCEPT ![g] = 0] /\ pc' = [pc EXCEPT ![g] = "idle"]
            /\ UNCHANGED <<cache, nextId, ops, factoryClosed>>

\* the Remove goroutine of an evicted session
RemoveCheck(s) == /\ sess[s].rm = "check"
                  /\ sess' = IF sess[s].users > 0 THEN [sess EXCEPT ![s].rm = "waiting"]
                             ELSE [sess EXCEPT ![s].rm = "done", ![s].closed = TRUE, ![s].teardowns = @ + 1]
                  /\ UNCHANGED <<cache, nextId, pc, held, ops, factoryClosed>>
RemoveWoken(s) == /\ sess[s].rm = "woken"
                  /\ sess' = IF WaitLoop THEN [sess EXCEPT ![s].rm = "check"]
                             ELSE [sess EXCEPT ![s].rm = "done", ![s].closed = TRUE, ![s].teardowns = @ + 1]
                  /\ UNCHANGED <<cache, nextId, pc, held, ops, factoryClosed>>

\* SessionFactory.Close: the cache is closed, every cached session is evicted
FactoryClose == /\ ~factoryClosed /\ \A g \in G : ops[g] = MaxOps \/ pc[g] # "idle" \/ TRUE
                /\ factoryClosed' = TRUE
                /\ sess' = [s \in DOMAIN sess |-> IF \E i \in 1..Len(cache) : cache[i] = s THEN [sess[s] EXCEPT !.rm = "check"] ELSE sess[s]]
                /\ cache' = <<>>
                /\ UNCHANGED <<nextId, pc, held, ops>>

Next == \/ \E g \in G : Get(g) \/ Use(g) \/ Close(g)
        \/ \E s \in DOMAIN sess : RemoveCheck(s) \/ RemoveWoken(s)
        \/ FactoryClose
Fair == /\ \A g \in G : WF_vars(Use(g)) /\ WF_vars(Close(g))
        /\ \A s \in 1..(Cardinality(G) * MaxOps + 1) : WF_vars(s \in DOMAIN sess /\ RemoveCheck(s)) /\ WF_vars(s \in DOMAIN sess /\ RemoveWoken(s))
Spec == Init /\ [][Next]_vars /\ Fair

\* C16: a session somebody holds is never torn down
HeldSessionNeverTornDown == \A g \in G : held[g] # 0 => ~sess[held[g]].closed
UsersMatchHolders == \A s \in DOMAIN sess : sess[s].users = Cardinality({g \in G : held[g] = s})
\* C16: callers of a cached partition share one session; at most one cached session per partition; bounded
OnePerPartition == \A i, j \in 1..Len(cache) : i # j => sess[cache[i]].part # sess[cache[j]].part
Bounded == Len(cache) <= Cap
\* C16: resources released at most once, and only after the session left the cache
AtMostOnce == \A s \in DOMAIN sess : sess[s].teardowns <= 1
NotWhileCached == \A i \in 1..Len(cache) : ~sess[cache[i]].closed
\* C16 (liveness): once a session has left the cache and its last holder has closed it, it is torn down
Evicted(s) == s \in DOMAIN sess /\ sess[s].rm # "none"
EventuallyTornDown == \A s \in 1..(Cardinality(G) * MaxOps + 1) : (Evicted(s) /\ sess[s].users = 0) ~> (s \in DOMAIN sess /\ sess[s].closed)
=============================================================================
