----------------------------- MODULE WireFormat -----------------------------
(***************************************************************************)
(* Stored and wire formats of the SDK (property C18), written down from    *)
(* the documentation only: docs/DesignAndArchitecture.md (envelope key     *)
(* record, data row record, key ids), docs/Metastore.md (RDBMS row,        *)
(* DynamoDB item), server/protos/appencryption.proto (sidecar messages)    *)
(* and the property statement (AES-256-GCM output = ciphertext, 16 byte    *)
(* tag, 12 byte nonce).                                                    *)
(*                                                                         *)
(* The layout is a set of FUNCTIONS from an abstract record to             *)
(*   - a document tree: a set of  path , primitive type  leaves, per       *)
(*     serialisation format (JSON text, DynamoDB attribute map, protobuf   *)
(*     message),                                                           *)
(*   - the segment list of an encrypted blob  ct(n) , tag(16) , nonce(12), *)
(*   - the key id strings  _SK_service_product[_region]  and               *)
(*     _IK_partition_service_product[_region].                             *)
(* TLC checks that these functions are uniquely parseable (LayoutUnique)   *)
(* and it enumerates the structural cases of the little exchange protocol  *)
(* below: a WRITER (the SDK or an implementation written from the          *)
(* documentation) lays the key hierarchy out on a channel, the other side  *)
(* parses it and walks the chain master key, system key, intermediate key, *)
(* data row key, payload in an ideal-AEAD term algebra (a blob opens under *)
(* exactly the key it was sealed with and only if it has the documented    *)
(* three segments).                                                        *)
(*                                                                         *)
(* Byte arithmetic (base64, AES-GCM) is NOT modelled: it is done by the    *)
(* documentation-derived reference codec of the harness                    *)
(* (harness/drivers/wiredrv/refcodec), which reports what it parsed; this  *)
(* module says which tree, lengths, ids and links it has to find.          *)
(*                                                                         *)
(* Code this is bound to (through the recorded events, never by import):   *)
(*   go/appencryption/envelope.go   DataRowRecord, EnvelopeKeyRecord,      *)
(*                                  KeyMeta json tags; EncryptPayload      *)
(*   go/appencryption/partition.go  SystemKeyID, IntermediateKeyID         *)
(*   go/appencryption/pkg/crypto/aead  ct, tag, nonce appended             *)
(*   go/appencryption/pkg/persistence/sql.go   key_record TEXT column      *)
(*   go/appencryption/plugins/aws-v1/persistence/dynamodb.go, plugins/     *)
(*   aws-v2/dynamodb/metastore/metastore.go    Id, Created, KeyRecord map  *)
(*   server/go/pkg/server/server.go   toProtobufDRR, fromProtobufDRR       *)
(***************************************************************************)
EXTENDS Integers, Sequences, FiniteSets, TLC

CONSTANTS PayloadLens,   \* payload lengths explored
          Parts,         \* partition ids (strings)
          Services,      \* service ids
          Products,      \* product ids
          Underscored,   \* those of the above strings that contain the separator "_" (TLC cannot look inside a string)
          Regions,       \* region suffixes; "" = naming without suffix
          Stamps,        \* creation-time classes, as decimal literals (strings: they exceed TLC's 32 bit integers)
          Channels,      \* subset of AllChannels
          Directions     \* subset of AllDirections

AllChannels == {"json", "sql", "ddbv1", "ddbv2", "grpc"}
AllDirections == {"sdk-to-ref", "ref-to-sdk"}

TagLen == 16
NonceLen == 12
KeyLen == 32      \* AES-256 keys: system, intermediate and data row keys

----------------------------------------------------------------------------
(* 1. encrypted blobs:  ciphertext (as long as the plaintext) , tag , nonce *)

Segs(n) == << [seg |-> "ct", len |-> n], [seg |-> "tag", len |-> TagLen], [seg |-> "nonce", len |-> NonceLen] >>
BlobLen(n) == n + TagLen + NonceLen
\* how a reader cuts a blob of total length t: fixed-size tail segments, the rest is ciphertext
Slice(t) == IF t < TagLen + NonceLen THEN <<>> ELSE Segs(t - TagLen - NonceLen)
SegTotal(s) == IF s = <<>> THEN 0 ELSE s[1].len + s[2].len + s[3].len
WellFormed(s) == Len(s) = 3 /\ s[1].seg = "ct" /\ s[2] = [seg |-> "tag", len |-> TagLen] /\ s[3] = [seg |-> "nonce", len |-> NonceLen]

----------------------------------------------------------------------------
(* 2. key ids *)

Suffix(r) == IF r = "" THEN "" ELSE "_" \o r
SKId(svc, prod, r) == "_SK_" \o svc \o "_" \o prod \o Suffix(r)
IKId(part, svc, prod, r) == "_IK_" \o part \o "_" \o svc \o "_" \o prod \o Suffix(r)

----------------------------------------------------------------------------
(* 3. document trees.  Formats: "json" (JSON text: the DRR as the user stores it, the key_record column, encoding/json   *)
(* of the Go structs), "ddb" (DynamoDB attribute map), "proto" (appencryption.proto DataRowRecord message).              *)

RowFormat(ch) == IF ch \in {"json", "sql"} THEN "json" ELSE "ddb"     \* the sidecar of the grpc channel keeps its key rows in DynamoDB
DRRFormat(ch) == IF ch = "grpc" THEN "proto" ELSE "json"
SuffixAllowed(ch) == ch \in {"ddbv1", "ddbv2", "grpc"}                \* only the DynamoDB metastores offer region suffixes

\* field names per format
Name(f, x) ==
  IF f = "proto"
  THEN CASE x = "Key" -> "key" [] x = "Data" -> "data" [] x = "Created" -> "created" [] x = "EncKey" -> "key"
         [] x = "Parent" -> "parent_key_meta" [] x = "KeyId" -> "key_id"
  ELSE CASE x = "Key" -> "Key" [] x = "Data" -> "Data" [] x = "Created" -> "Created" [] x = "EncKey" -> "Key"
         [] x = "Parent" -> "ParentKeyMeta" [] x = "KeyId" -> "KeyId" [] x = "Revoked" -> "Revoked"
         [] x = "Id" -> "Id" [] x = "KeyRecord" -> "KeyRecord"

\* primitive type per format.  bytes: base64 text in JSON and DynamoDB (type S), raw bytes in protobuf.
Prim(f, t) ==
  CASE f = "json"  -> (CASE t = "int" -> "number" [] t = "bytes" -> "string" [] t = "str" -> "string" [] t = "obj" -> "object" [] t = "true" -> "true")
    [] f = "ddb"   -> (CASE t = "int" -> "N" [] t = "bytes" -> "S" [] t = "str" -> "S" [] t = "obj" -> "M" [] t = "true" -> "BOOL:true")
    [] f = "proto" -> (CASE t = "int" -> "varint" [] t = "bytes" -> "len" [] t = "str" -> "len" [] t = "obj" -> "len")

Path(pfx, n) == IF pfx = "" THEN n ELSE pfx \o "." \o n
Leaf(f, pfx, x, t) == << Path(pfx, Name(f, x)), Prim(f, t) >>

MetaDoc(f, pfx) == { Leaf(f, pfx, "KeyId", "str"), Leaf(f, pfx, "Created", "int") }

\* envelope key record: Created, Key, ParentKeyMeta only when the key has a parent row, Revoked only when true
EKRDoc(f, pfx, hasParent, revoked) ==
  { Leaf(f, pfx, "Created", "int"), Leaf(f, pfx, "EncKey", "bytes") }
  \cup (IF hasParent THEN { Leaf(f, pfx, "Parent", "obj") } \cup MetaDoc(f, Path(pfx, Name(f, "Parent"))) ELSE {})
  \cup (IF revoked THEN { Leaf(f, pfx, "Revoked", "true") } ELSE {})

\* data row record: Key = the data row key's record (always with its parent, never revoked), Data
DRRDoc(f) == { Leaf(f, "", "Key", "obj"), Leaf(f, "", "Data", "bytes") } \cup EKRDoc(f, Name(f, "Key"), TRUE, FALSE)

\* a key row as the metastore keeps it: the JSON text of the record (id and created are the row's own columns), or the
\* DynamoDB item  Id S, Created N, KeyRecord M
RowDoc(f, hasParent, revoked) ==
  IF f = "ddb"
  THEN { Leaf(f, "", "Id", "str"), Leaf(f, "", "Created", "int"), Leaf(f, "", "KeyRecord", "obj") }
       \cup EKRDoc(f, Name(f, "KeyRecord"), hasParent, revoked)
  ELSE EKRDoc(f, "", hasParent, revoked)

Render(doc) == { d[1] \o ":" \o d[2] : d \in doc }
Paths(doc) == { d[1] : d \in doc }

\* what a reader recovers from a key row document
ParseRow(f, doc) ==
  LET pfx == IF f = "ddb" THEN Name(f, "KeyRecord") ELSE "" IN
  [ hasParent |-> Leaf(f, pfx, "Parent", "obj") \in doc, revoked |-> Leaf(f, pfx, "Revoked", "true") \in doc ]

----------------------------------------------------------------------------
(* 4. the exchange *)

Cases == { c \in [ ch : Channels, dir : Directions, len : PayloadLens, part : Parts, svc : Services, prod : Products,
                   region : Regions, skrev : BOOLEAN, ikrev : BOOLEAN, stamp : Stamps ] :
           c.region = "" \/ SuffixAllowed(c.ch) }

NoCase == [ ch |-> "none" ]

\* ideal AEAD: a blob remembers the key it was sealed under and its plaintext term
Blob(k, pt, n) == [ under |-> k, pt |-> pt, segs |-> Segs(n) ]
Open(b, k) == IF k # "error" /\ b.under = k /\ WellFormed(b.segs) THEN b.pt ELSE "error"

SKRowOf(c) == [ id |-> SKId(c.svc, c.prod, c.region), created |-> "t-sk", parent |-> <<>>, revoked |-> c.skrev,
                doc |-> RowDoc(RowFormat(c.ch), FALSE, c.skrev), key |-> Blob("mk", "sk", KeyLen) ]
IKRowOf(c) == [ id |-> IKId(c.part, c.svc, c.prod, c.region), created |-> "t-ik",
                parent |-> << SKId(c.svc, c.prod, c.region), "t-sk" >>, revoked |-> c.ikrev,
                doc |-> RowDoc(RowFormat(c.ch), TRUE, c.ikrev), key |-> Blob("sk", "ik", KeyLen) ]
DRROf(c) == [ doc |-> DRRDoc(DRRFormat(c.ch)), parent |-> << IKId(c.part, c.svc, c.prod, c.region), "t-ik" >>,
              key |-> Blob("ik", "drk", KeyLen), data |-> Blob("drk", "payload", c.len) ]

Lookup(st, ref) == { r \in st : ref # <<>> /\ r.id = ref[1] /\ r.created = ref[2] }

\* the reader: key rows are found by (id, created), each key opens the next one, the data row key opens the payload
ReadResult(st, d) ==
  LET iks == Lookup(st, d.parent) IN
  IF Cardinality(iks) # 1 THEN "error" ELSE
  LET ik == CHOOSE r \in iks : TRUE
      sks == Lookup(st, ik.parent) IN
  IF Cardinality(sks) # 1 THEN "error" ELSE
  LET sk == CHOOSE r \in sks : TRUE
      skKey == Open(sk.key, "mk")          \* the KMS (static master key) unwraps the system key
      ikKey == Open(ik.key, skKey)
      drk == Open(d.key, ikKey)
  IN Open(d.data, drk)

VARIABLES phase,    \* "idle", "picked", "keys", "drr", "read"
          case,     \* the structural case being exchanged
          store,    \* key rows laid out on the channel
          drr,      \* the data row record laid out on the channel
          result    \* what the reader recovered

vars == << phase, case, store, drr, result >>

Init == phase = "idle" /\ case = NoCase /\ store = {} /\ drr = <<>> /\ result = "none"

Pick(c) == phase = "idle" /\ phase' = "picked" /\ case' = c /\ UNCHANGED << store, drr, result >>
\* the writer stores the system key row and the intermediate key row
WriteKeys == phase = "picked" /\ phase' = "keys" /\ store' = { SKRowOf(case), IKRowOf(case) } /\ UNCHANGED << case, drr, result >>
\* the writer hands out the data row record
WriteDRR == phase = "keys" /\ phase' = "drr" /\ drr' = DRROf(case) /\ UNCHANGED << case, store, result >>
\* the other side reads
Read == phase = "drr" /\ phase' = "read" /\ result' = ReadResult(store, drr) /\ UNCHANGED << case, store, drr >>

\* (the guard stands in front of the quantifier so that TLC enumerates Cases in the idle state only)
Next == (phase = "idle" /\ \E c \in Cases : Pick(c)) \/ WriteKeys \/ WriteDRR \/ Read
Spec == Init /\ [][Next]_vars

----------------------------------------------------------------------------
(* 5. properties *)

\* C18 on the model: whatever was laid out as documented is recovered by a reader that knows only the documentation
ReaderRecovers == phase = "read" => result = "payload"

\* what the reader parses from the stored rows is what the writer meant (presence rules included)
RowsParseBack == \A r \in store : ParseRow(RowFormat(case.ch), r.doc) = [ hasParent |-> r.parent # <<>>, revoked |-> r.revoked ]

Formats == {"json", "ddb", "proto"}
Shapes == [ hasParent : BOOLEAN, revoked : BOOLEAN ]
Plain(S) == S \ Underscored

\* the layout functions are uniquely parseable (evaluated once, in the initial state)
BlobUnique == \A n \in PayloadLens \cup {KeyLen} :
                 /\ Slice(BlobLen(n)) = Segs(n) /\ SegTotal(Segs(n)) = BlobLen(n) /\ WellFormed(Segs(n))
                 /\ \A m \in PayloadLens \cup {KeyLen} : BlobLen(m) = BlobLen(n) => m = n
DocsUnique == /\ \A f \in {"json", "ddb"} : \A s, t \in Shapes :
                    /\ ParseRow(f, RowDoc(f, s.hasParent, s.revoked)) = s
                    /\ (RowDoc(f, s.hasParent, s.revoked) = RowDoc(f, t.hasParent, t.revoked) => s = t)
                    /\ Cardinality(Paths(RowDoc(f, s.hasParent, s.revoked))) = Cardinality(RowDoc(f, s.hasParent, s.revoked))
              /\ \A f \in Formats : Cardinality(Paths(DRRDoc(f))) = Cardinality(DRRDoc(f)) /\ Cardinality(DRRDoc(f)) = 7
\* ids: system and intermediate key ids never collide; on components without the separator the id determines its parts
IdsUnique == /\ \A p \in Parts : \A s, s2 \in Services : \A q, q2 \in Products : \A r, r2 \in Regions :
                    IKId(p, s, q, r) # SKId(s2, q2, r2)
             /\ \A p, p2 \in Plain(Parts) : \A s, s2 \in Plain(Services) : \A q, q2 \in Plain(Products) : \A r \in Regions :
                    /\ (IKId(p, s, q, r) = IKId(p2, s2, q2, r) => (p = p2 /\ s = s2 /\ q = q2))
                    /\ (SKId(s, q, r) = SKId(s2, q2, r) => (s = s2 /\ q = q2))
LayoutUnique == phase = "idle" => (BlobUnique /\ DocsUnique /\ IdsUnique)

\* Revoked appears only when true, ParentKeyMeta only on rows that have a parent
PresenceRules == \A r \in store :
   LET f == RowFormat(case.ch)
       pfx == IF f = "ddb" THEN Name(f, "KeyRecord") ELSE "" IN
   /\ (Path(pfx, "Revoked") \in Paths(r.doc)) = r.revoked
   /\ (Path(pfx, "ParentKeyMeta") \in Paths(r.doc)) = (r.parent # <<>>)
=============================================================================
