------------------------------- MODULE Server -------------------------------
(***************************************************************************)
(* The gRPC sidecar's per-stream protocol (server/go/pkg/server/server.go, *)
(* AppEncryption.Session -> streamer.Stream -> defaultHandler), property   *)
(* C19.  One action per request received on the stream; the model says     *)
(* which response classes the property allows for it.                      *)
(*                                                                         *)
(* Stream state h: "uninit" (no handler), "ready" (get-session succeeded), *)
(* "rejected" (a get-session was answered with an error).  After a         *)
(* rejected get-session the property allows the stream to be treated as    *)
(* still uninitialised or as initialised-but-unusable: every later encrypt *)
(* / decrypt is an error response either way, and a further get-session    *)
(* may be refused or may succeed.  What is never allowed: a panic, a       *)
(* missing or extra response.                                              *)
(***************************************************************************)
EXTENDS Integers, Sequences, FiniteSets, TLC

CONSTANTS Requests,   \* request alphabet explored
          MaxLen      \* requests per stream (EOF excluded)

VARIABLES h,          \* stream state
          reqs,       \* requests received so far
          allowed,    \* allowed[i] = set of response classes for request i
          nresp,      \* responses sent
          closed      \* EOF seen, handler returned

vars == <<h, reqs, allowed, nresp, closed>>

Classes == {"session-ok", "error", "encrypted", "decrypted", "empty"}

\* response classes allowed for request r in state s, and the possible next states
Allowed(s, r) ==
  CASE r = "gs-valid"    -> IF s = "uninit" THEN {"session-ok"} ELSE IF s = "ready" THEN {"error"} ELSE {"error", "session-ok"}
    [] r = "gs-empty"    -> {"error"}
    [] r = "enc"         -> IF s = "ready" THEN {"encrypted"} ELSE {"error"}
    [] r = "dec-own"     -> IF s = "ready" THEN {"decrypted"} ELSE {"error"}
    [] r \in {"dec-foreign", "dec-corrupt", "dec-empty"} -> {"error"}
    [] r = "empty"       -> {"empty", "error"}        \* a request with no body still gets exactly one reply
    [] OTHER             -> {"error"}

\* next stream state given the response class actually produced
NextState(s, r, c) ==
  IF r = "gs-valid" /\ c = "session-ok" THEN "ready"
  ELSE IF r \in {"gs-valid", "gs-empty"} /\ s = "uninit" /\ c = "error" THEN "rejected"
  ELSE s

Init == h = "uninit" /\ reqs = <<>> /\ allowed = <<>> /\ nresp = 0 /\ closed = FALSE

Recv(r) == /\ ~closed /\ Len(reqs) < MaxLen
           /\ \E c \in Allowed(h, r) :
                 /\ h' = NextState(h, r, c)
           /\ reqs' = Append(reqs, r)
           /\ allowed' = Append(allowed, Allowed(h, r))
           /\ nresp' = nresp + 1
           /\ UNCHANGED closed

EOF == /\ ~closed /\ closed' = TRUE /\ UNCHANGED <<h, reqs, allowed, nresp>>

Next == (\E r \in Requests : Recv(r)) \/ EOF
Spec == Init /\ [][Next]_vars

\* C19: exactly one response per request at every prefix; every request has at least one allowed class
OneReplyPerRequest == nresp = Len(reqs)
AlwaysAnswerable == \A i \in 1..Len(allowed) : allowed[i] # {} /\ allowed[i] \subseteq Classes
\* encrypt / decrypt are never served without a successful get-session
NoServiceBeforeSession == \A i \in 1..Len(reqs) :
   (reqs[i] \in {"enc", "dec-own"} /\ ~\E j \in 1..(i - 1) : reqs[j] = "gs-valid") => allowed[i] = {"error"}
=============================================================================
