--------------------------- MODULE WireFormatGen ---------------------------
(* Every structural case of WireFormat.tla is printed once, when its exchange reaches the Read step, as one JSON test   *)
(* case: the shape, the key ids the documentation gives for it, and the document trees and blob lengths a conforming     *)
(* writer produces (informative for the driver: the verdict is taken by WireFormatTrace on what was really observed).    *)
EXTENDS WireFormat, Json

GRead == /\ Read
         /\ LET c == case IN
            PrintT(ToJson([ ch |-> c.ch, dir |-> c.dir, len |-> c.len, part |-> c.part, svc |-> c.svc, prod |-> c.prod,
                            region |-> c.region, skrev |-> c.skrev, ikrev |-> c.ikrev, stamp |-> c.stamp,
                            skid |-> SKId(c.svc, c.prod, c.region), ikid |-> IKId(c.part, c.svc, c.prod, c.region),
                            skdoc |-> Render(SKRowOf(c).doc), ikdoc |-> Render(IKRowOf(c).doc), drrdoc |-> Render(DRROf(c).doc),
                            datalen |-> BlobLen(c.len), keybloblen |-> BlobLen(KeyLen),
                            expect |-> ReadResult(store, drr) ]))
GNext == (phase = "idle" /\ \E c \in Cases : Pick(c)) \/ WriteKeys \/ WriteDRR \/ GRead
GSpec == Init /\ [][GNext]_vars
=============================================================================
