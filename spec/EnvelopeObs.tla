---------------------------- MODULE EnvelopeObs ----------------------------
(***************************************************************************)
(* Property monitor for the envelope-encryption protocol.  It is           *)
(* deliberately implementation-agnostic: its variables are only what a     *)
(* user (or operator) can observe at the SDK's boundaries - the clock, the *)
(* metastore contents, operator revocations, external calls made per       *)
(* operation, records handed out, results, secrets allocated / released -  *)
(* and its clauses ARE the property statements (C01 C02 C03 C04 C05 C06    *)
(* C09 C10 C14 C20).  Every trace recorded from real SessionFactories      *)
(* (harness/drivers/envdrv) is run through it by TLC; a clause that fails  *)
(* is printed as  <<"MONITOR-VIOLATION", clause, run, line>>  and is a     *)
(* property violation witnessed by real code.                              *)
(*                                                                         *)
(* Time bounds are stated against the START time of an operation           *)
(* (DESIGN.md section 8) and copy the code's strictness: expired <=>       *)
(* t > created + E ; a key fetched at f must be re-read when t > f + R.    *)
(***************************************************************************)
EXTENDS Integers, Sequences, FiniteSets, TLC, Json

TraceLog == ndJsonDeserialize("trace.ndjson")

VARIABLES l,        \* next line
          par,      \* the reset event of the current run (E, R, P, cfg, fits, run)
          now,
          store,    \* set of [id, created, kid, parent, pkid, revoked]
          revAt,    \* set of <<id, created, time>>
          ops,      \* p -> operation in flight
          fet,      \* <<scope, id, created>> -> [at, revoked] : when that cache scope last (re)loaded that key
          lat,      \* <<scope, id>> -> created : the key the scope's "latest" alias was last seen to resolve to
          kdec,     \* <<skscope, kid>> -> time of the last KMS unwrap of that system key by a fault-free operation
          lv,       \* live secrets: set of [p, sid, op, kid, kind]
          role,     \* kid -> "SK" | "IK" | "DRK"
          pairs,    \* (key, nonce) pairs used by AEAD encryptions of this run
          leaked,   \* <<p, kid>>: system keys whose reference count is known to be leaked by the pinned implementation (known finding)
          sft,      \* p -> time of the last injected Store fault seen by that process
          nviol     \* number of violations reported so far (keeps reporting going without stopping TLC)

mvars == <<l, par, now, store, revAt, ops, fet, lat, kdec, lv, role, pairs, sft, leaked, nviol>>

ev == TraceLog[l]
IsEv(e) == l <= Len(TraceLog) /\ ev.e = e /\ l' = l + 1

E == par.E
R == par.R
P == par.P
Stamp(t) == t - (t % P)
\* frac: the run's clock is model time plus a constant fraction of a second, creation stamps are whole seconds
Frac == "frac" \in DOMAIN par /\ par.frac
ExpiredAt(cr, t) == IF Frac THEN t >= cr + E ELSE t > cr + E
\* the system key cache has a size of its own (skcap, 0 = as large as the others): the caching clauses apply while it can hold
\* every system key that exists
SkFits == ~("skcap" \in DOMAIN par) \/ par.skcap = 0 \/ Cardinality({s \in store : SubSeq(s.id, 1, 4) # "_IK_"}) <= par.skcap

NoOp == [kind |-> "none", part |-> "", start |-> 0, calls |-> 0, faults |-> 0, sfault |-> FALSE, scope |-> "", skscope |-> "",
         ikCreated |-> 0, recpart |-> "", op |-> "", reads |-> {}, ikid |-> "", kdecs |-> {}, ikreads |-> 0, ikstores |-> 0, ticked |-> FALSE, refusedParent |-> -1]

Get(id, cr) == {r \in store : r.id = id /\ r.created = cr}
IsIK(id) == SubSeq(id, 1, 4) = "_IK_"

\* Report(S): print every clause in S (a set of strings) and count them
Report(S) == /\ \A c \in S : PrintT(<<"MONITOR-VIOLATION", c, par.run, l>>)
             /\ nviol' = nviol + Cardinality(S)

Dom(f) == DOMAIN f
Has(f, k) == k \in DOMAIN f

-----------------------------------------------------------------------------
MInit == /\ l = 1 /\ now = 0 /\ store = {} /\ revAt = {} /\ ops = <<>> /\ fet = <<>> /\ lat = <<>> /\ kdec = <<>>
         /\ lv = {} /\ role = <<>> /\ pairs = {} /\ nviol = 0 /\ sft = <<>> /\ leaked = {}
         /\ par = [E |-> 1, R |-> 1, P |-> 1, run |-> 0, fits |-> TRUE, cfg |-> <<>>]

Reset == /\ IsEv("reset")
         /\ par' = ev /\ now' = ev.now /\ store' = {} /\ revAt' = {} /\ fet' = <<>> /\ lat' = <<>> /\ kdec' = <<>>
         /\ ops' = [p \in DOMAIN ev.cfg |-> NoOp]
         /\ lv' = {} /\ role' = <<>> /\ pairs' = {} /\ sft' = [p \in DOMAIN ev.cfg |-> -1] /\ leaked' = {} /\ UNCHANGED nviol

\* the clock moves; operations in flight are marked so that the interval clauses (C20), which compare an operation's
\* START time with fetch times, are not applied to an operation during which time passed
Tick == /\ IsEv("tick") /\ now' = ev.now
        /\ ops' = [p \in DOMAIN ops |-> IF ops[p].kind # "none" THEN [ops[p] EXCEPT !.ticked = TRUE] ELSE ops[p]]
        /\ UNCHANGED <<par, store, revAt, fet, lat, kdec, lv, role, pairs, nviol, sft, leaked>>

Revoke == /\ IsEv("revoke")
          /\ store' = {IF r.id = ev.id /\ r.created = ev.created THEN [r EXCEPT !.revoked = TRUE] ELSE r : r \in store}
          /\ revAt' = revAt \cup {<<ev.id, ev.created, now>>}
          /\ UNCHANGED <<par, now, ops, fet, lat, kdec, lv, role, pairs, nviol, sft, leaked>>

Bookkeeping == /\ (IsEv("open") \/ IsEv("close") \/ IsEv("skip"))
               /\ UNCHANGED <<par, now, store, revAt, ops, fet, lat, kdec, lv, role, pairs, nviol, sft, leaked>>

\* a fault the harness injected inside the process (secret allocation / AEAD failure): the operation counts as faulted
IFault == /\ IsEv("ifault")
          /\ ops' = [ops EXCEPT ![ev.p] = [@ EXCEPT !.faults = @ + 1]]
          /\ UNCHANGED <<par, now, store, revAt, fet, lat, kdec, lv, role, pairs, nviol, sft, leaked>>

\* SessionFactory.Close: every secret of that factory is released; its caches are gone
Restart == /\ IsEv("restart")
           /\ Report(IF ev.live > 0
                     THEN {IF Cardinality({x \in lv : x.p = ev.p}) = ev.live /\ \A s \in {x \in lv : x.p = ev.p} : <<ev.p, s.kid>> \in leaked
                           THEN "C09.ReleasedOnFactoryClose/sk-ref-leak" ELSE "C09.ReleasedOnFactoryClose"} ELSE {})
           /\ lv' = lv      \* whatever was not freed before this event is really still live
           /\ UNCHANGED <<par, now, store, revAt, ops, fet, lat, kdec, role, pairs, sft, leaked>>

Start == /\ IsEv("start")
         /\ ops' = [ops EXCEPT ![ev.p] = [NoOp EXCEPT !.kind = ev.kind, !.part = ev.part, !.start = now, !.scope = ev.scope,
                                                    !.skscope = ev.skscope, !.ikCreated = ev.ikCreated, !.recpart = ev.recpart, !.op = ev.op]]
         /\ UNCHANGED <<par, now, store, revAt, fet, lat, kdec, lv, role, pairs, nviol, sft, leaked>>

-----------------------------------------------------------------------------
(* metastore calls                                                          *)
Ms == /\ IsEv("ms")
      /\ LET o == ops[ev.p]
             flt == ev.fault # "none"
             rd == IF ev.found >= 0 /\ ~flt /\ ev.call # "Store" THEN {[id |-> ev.id, created |-> ev.found, revoked |-> ev.revoked, kid |-> ev.kid]}
                   ELSE IF ev.call = "Store" /\ ev.ok THEN {[id |-> ev.id, created |-> ev.created, revoked |-> FALSE, kid |-> ev.kid]} ELSE {}
             o2 == [o EXCEPT !.calls = @ + 1, !.faults = @ + (IF flt THEN 1 ELSE 0), !.sfault = @ \/ (flt /\ ev.call = "Store"),
                             !.reads = @ \cup rd,
                             !.ikreads = @ + (IF IsIK(ev.id) /\ ev.call # "Store" THEN 1 ELSE 0),
                             !.ikstores = @ + (IF IsIK(ev.id) /\ ev.call = "Store" THEN 1 ELSE 0),
                             \* an IK insert that was refused (or failed): the parent SK the process was holding
                             !.refusedParent = IF IsIK(ev.id) /\ ev.call = "Store" /\ ~ev.ok THEN ev.parent ELSE @]
             \* KNOWN FINDING (C09, envelope.go intermediateKeyFromEKR): after a refused IK insert the process adopts the stored IK;
             \* if that IK names another parent SK than the one at hand, the SK looked up for it keeps a counted reference forever
             skOf(cr) == {r.kid : r \in {x \in store : ~IsIK(x.id) /\ x.created = cr}}
             leak == IF IsIK(ev.id) /\ ev.call = "LoadLatest" /\ ~flt /\ ev.found >= 0 /\ o.refusedParent >= 0 /\ ev.parent # o.refusedParent
                     THEN {<<ev.p, k>> : k \in skOf(ev.parent)} ELSE {}
             wrote == ev.call = "Store" /\ ev.wrote
             dup == wrote /\ Get(ev.id, ev.created) # {}
             \* C04: no IK is created under an SK that was already expired when the creating operation began
             c04 == IF wrote /\ IsIK(ev.id) /\ ~o.sfault /\ ExpiredAt(ev.parent, o.start) THEN {"C04.NoIKUnderExpiredSK"} ELSE {}
             \* C03: an IK is wrapped only by a system key; an SK only by the KMS
             c03 == IF wrote /\ IsIK(ev.id) /\ ~(Has(role, ev.pkid) /\ role[ev.pkid] = "SK") THEN {"C03.IKWrappedOnlyBySK"} ELSE {}
             c14 == IF dup THEN {"C14.RecordOverwritten"} ELSE {}
         IN /\ ops' = [ops EXCEPT ![ev.p] = o2]
            /\ store' = IF wrote /\ ~dup THEN store \cup {[id |-> ev.id, created |-> ev.created, kid |-> ev.kid, parent |-> ev.parent, pkid |-> ev.pkid, revoked |-> FALSE]} ELSE store
            /\ role' = IF ev.kid > 0 /\ (wrote \/ rd # {}) THEN (ev.kid :> (IF IsIK(ev.id) THEN "IK" ELSE "SK")) @@ role ELSE role
            /\ Report(c04 \cup c03 \cup c14)
            /\ leaked' = leaked \cup leak
      /\ sft' = IF ev.fault # "none" /\ ev.call = "Store" THEN [sft EXCEPT ![ev.p] = now] ELSE sft
      /\ UNCHANGED <<par, now, revAt, fet, lat, kdec, lv, pairs>>

Kms == /\ IsEv("kms")
       /\ LET o == ops[ev.p]
              flt == ev.fault # "none"
              key == <<o.skscope, ev.kid>>
              skrec == {r \in store : r.kid = ev.kid /\ ~IsIK(r.id)}
              valid == \E r \in skrec : ~r.revoked /\ ~ExpiredAt(r.created, now)
              \* C20: a system key is unwrapped by the KMS at most once per factory per revoke-check interval
              c20 == IF ev.call = "Dec" /\ ~flt /\ o.skscope # "none" /\ par.fits /\ SkFits /\ ~o.ticked /\ valid /\ Has(kdec, key) /\ now <= kdec[key] + R
                     THEN {"C20.KmsUnwrapOncePerInterval"} ELSE {}
          IN /\ ops' = [ops EXCEPT ![ev.p] = [o EXCEPT !.calls = @ + 1, !.faults = @ + (IF flt THEN 1 ELSE 0),
                                                      !.kdecs = @ \cup (IF ev.call = "Dec" /\ ~flt THEN {ev.kid} ELSE {})]]
             /\ role' = IF ev.kid > 0 THEN (ev.kid :> "SK") @@ role ELSE role
             /\ Report(c20)
       /\ UNCHANGED <<par, now, store, revAt, fet, lat, kdec, lv, pairs, sft, leaked>>

-----------------------------------------------------------------------------
(* C03: envelope discipline at the AEAD                                     *)
Aead == /\ IsEv("aead")
        /\ LET o == ops[ev.p]
               enc == ev.call = "Enc"
               payloadEnc == enc /\ ev.pt = 0
               keyWrap == enc /\ ev.pt > 0
               fresh == \E s \in lv : s.kid = ev.key /\ s.kind = "random" /\ s.op = o.op
               c1 == IF payloadEnc /\ ~fresh THEN {"C03.PayloadUnderFreshRandomKey"} ELSE {}
               c2 == IF payloadEnc /\ Has(role, ev.key) THEN {"C03.DataKeyReused"} ELSE {}
               c3 == IF enc /\ <<ev.key, ev.nonce>> \in pairs THEN {"C03.KeyNonceReused"} ELSE {}
               \* a data key is wrapped only by an intermediate key
               c4 == IF keyWrap /\ Has(role, ev.pt) /\ role[ev.pt] = "DRK" /\ ~(Has(role, ev.key) /\ role[ev.key] = "IK") THEN {"C03.DRKWrappedOnlyByIK"} ELSE {}
           IN /\ role' = IF payloadEnc THEN (ev.key :> "DRK") @@ role ELSE role
              /\ pairs' = IF enc THEN pairs \cup {<<ev.key, ev.nonce>>} ELSE pairs
              /\ Report(c1 \cup c2 \cup c3 \cup c4)
        /\ UNCHANGED <<par, now, store, revAt, ops, fet, lat, kdec, lv, sft, leaked>>

-----------------------------------------------------------------------------
(* C09: secrets                                                             *)
Alloc == /\ IsEv("alloc")
         /\ lv' = lv \cup {[p |-> ev.p, sid |-> ev.sid, op |-> ev.op, kid |-> ev.kid, kind |-> ev.kind]}
         /\ UNCHANGED <<par, now, store, revAt, ops, fet, lat, kdec, role, pairs, nviol, sft, leaked>>
Free == /\ IsEv("free")
        /\ lv' = {s \in lv : ~(s.p = ev.p /\ s.sid = ev.sid)}
        /\ Report(IF ~\E s \in lv : s.p = ev.p /\ s.sid = ev.sid THEN {"C09.ReleasedTwice"} ELSE {})
        /\ UNCHANGED <<par, now, store, revAt, ops, fet, lat, kdec, role, pairs, sft, leaked>>
Misuse == /\ (IsEv("double-close") \/ IsEv("use-after-close"))
          /\ Report({IF ev.e = "double-close" THEN "C09.ReleasedTwice" ELSE "C09.TouchedAfterRelease"})
          /\ UNCHANGED <<par, now, store, revAt, ops, fet, lat, kdec, lv, role, pairs, sft, leaked>>

-----------------------------------------------------------------------------
(* operation return: the per-operation clauses                              *)
RevTimes(id, cr) == {x[3] : x \in {y \in revAt : y[1] = id /\ y[2] = cr}}

Ret == /\ IsEv("ret")
       /\ LET o == ops[ev.p]
              t == o.start
              pc == par.cfg[ev.p]
              nocache == pc.ik = "none" /\ ~pc.sk
              cached == o.scope # "none" /\ par.fits /\ ~o.ticked /\ SkFits
              common ==
                 (IF ev.panic # "" THEN {"C01/C07.NoPanicNoInputMutation"} ELSE {})
                 \cup (IF Len(ev.dirty) > 0 THEN {"C10.PlaintextKeyCopiesWiped"} ELSE {})
                 \cup (IF Len(ev.taint) > 0 THEN {"C03.NoPlaintextInOutputs"} ELSE {})
                 \cup (IF nocache /\ (\E s \in lv : s.p = ev.p)
                       THEN {IF \A s \in {x \in lv : x.p = ev.p} : <<ev.p, s.kid>> \in leaked THEN "C09.NoCacheNothingRetained/sk-ref-leak" ELSE "C09.NoCacheNothingRetained"} ELSE {})
                 \cup (IF Len(ev.dupKids) > 0
                       THEN {IF \A i \in 1..Len(ev.dupKids) : <<ev.p, ev.dupKids[i]>> \in leaked THEN "C09.AtMostOneSecretPerKey/sk-ref-leak" ELSE "C09.AtMostOneSecretPerKey"} ELSE {})
                 \cup (IF ev.bound >= 0 /\ ev.live - Cardinality({x \in lv : x.p = ev.p /\ <<ev.p, x.kid>> \in leaked}) > ev.bound THEN {"C09.LiveWithinCacheCapacity"} ELSE {})
              encC ==
                 IF ev.kind # "Enc" THEN {} ELSE
                 IF ~ev.ok THEN (IF o.faults = 0 THEN {"C02.RecoversWhenFaultsStop"} ELSE {}) ELSE
                 LET c == ev.ikCreated
                     ikr == {r \in Get(ev.ikid, c) : r.kid = ev.ikKid}
                     chainOK == ev.chain /\ \E r \in ikr : \E s \in store : ~IsIK(s.id) /\ s.created = r.parent /\ s.kid = r.pkid
                     par0 == IF ikr = {} THEN 0 ELSE (CHOOSE r \in ikr : TRUE).parent
                     skid == LET S == {x \in store : ~IsIK(x.id)} IN IF S = {} THEN "" ELSE (CHOOSE s \in S : TRUE).id
                     fk == <<o.scope, ev.ikid, c>>
                     lk == <<o.scope, ev.ikid>>
                     \* the freshness of this key in this scope was last renewed by a decrypt (Load by created), not by the encrypt path
                     \* (the recorded finding), and this scope has not already encrypted under a newer key of the partition: going BACK to an
                     \* older key is not what the finding describes (keyCache.write moves the latest alias forward only)
                     dref == Has(fet, fk) /\ fet[fk].dref /\ (~Has(lat, lk) \/ lat[lk] <= c)
                     warm == cached /\ Has(lat, lk) /\ Has(fet, <<o.scope, ev.ikid, lat[lk]>>)
                     f == fet[<<o.scope, ev.ikid, lat[lk]>>]
                 IN (IF ~chainOK THEN {"C02.ChainDurableAtReturn"} ELSE {})
                    \* C03: the data key of this record was wrapped under the intermediate key of the partition the session was opened for
                    \cup (IF "wantIkid" \in DOMAIN ev /\ ev.ikid # ev.wantIkid THEN {"C03.DataKeyUnderOwnPartitionIK"} ELSE {})
                    \cup (IF ~ev.fresh THEN {"C02.FreshProcessDecrypts"} ELSE {})
                    \cup (IF ev.drkLive > 0 THEN {"C09.DataKeyReleasedBeforeReturn"} ELSE {})
                    \cup (IF ~o.sfault /\ ExpiredAt(c, t) THEN {"C04.NoExpiredIK"} ELSE {})
                    \cup (IF ~o.sfault /\ sft[ev.p] < par0 + E /\ ikr # {} /\ ExpiredAt(par0 + R, t)
                          THEN {IF dref THEN "C04.ParentExpiryBounded/decrypt-refresh" ELSE "C04.ParentExpiryBounded"} ELSE {})
                    \cup (IF o.faults = 0 /\ Stamp(t) > c /\ \E tr \in RevTimes(ev.ikid, c) : t > tr + R /\ sft[ev.p] < tr THEN {"C05.RevokedIKBounded"} ELSE {})
                    \cup (IF o.faults = 0 /\ ikr # {} /\ Stamp(t) > c /\ Stamp(t) > par0 /\ \E tr \in RevTimes(skid, par0) : t > tr + 2 * R /\ sft[ev.p] < tr
                          THEN {IF dref THEN "C05.RevokedSKBounded/decrypt-refresh" ELSE "C05.RevokedSKBounded"} ELSE {})
                    \* C20: latest key of this scope fetched within the interval, not known revoked, not expired => no external call
                    \cup (IF warm /\ t <= f.at + R /\ ~f.revoked /\ ~ExpiredAt(lat[lk], t) /\ o.calls # 0 THEN {"C20.NoCallsWithinInterval"} ELSE {})
                    \* C20: a key that this scope never fetched, or fetched longer ago than the interval, is re-read before use
                    \cup (IF cached /\ o.faults = 0 /\ o.ikreads = 0 /\ (~Has(fet, fk) \/ (~fet[fk].revoked /\ t > fet[fk].at + R))
                          THEN {"C20.RereadAfterInterval"} ELSE {})
                    \cup (IF ~cached /\ o.scope = "none" /\ o.ikreads = 0 THEN {"C20.NoCacheAlwaysReads"} ELSE {})
              decC ==
                 IF ev.kind # "Dec" THEN {} ELSE
                 LET fk == <<o.scope, ev.ikid, o.ikCreated>>
                     warm == cached /\ Has(fet, fk)
                     f == fet[fk]
                 IN (IF o.faults = 0 /\ o.recpart = o.part /\ ~ev.ok THEN {"C01.DecryptsBack"} ELSE {})
                    \cup (IF ev.ok /\ ~ev.payload THEN {"C01/C07.DecryptReturnedOtherBytes"} ELSE {})
                    \cup (IF o.recpart # o.part /\ ev.ok THEN {"C06.ForeignRecordDecrypted"} ELSE {})
                    \cup (IF warm /\ (f.revoked \/ t <= f.at + R) /\ o.calls # 0 THEN {"C20.NoCallsWithinInterval"} ELSE {})
                    \cup (IF warm /\ ~f.revoked /\ t > f.at + R /\ o.faults = 0 /\ o.recpart = o.part /\ o.ikreads # 1 THEN {"C20.RereadOnceAfterInterval"} ELSE {})
                    \cup (IF ~cached /\ o.scope = "none" /\ o.recpart = o.part /\ o.faults = 0 /\ o.ikreads = 0 THEN {"C20.NoCacheAlwaysReads"} ELSE {})
              \* freshness bookkeeping: what this (successful) operation is known to have (re)loaded into its cache scopes
              ikKey == IF ev.kind = "Enc" THEN ev.ikCreated ELSE o.ikCreated
              ikId == IF ev.kind = "Enc" THEN ev.ikid ELSE ev.ikid
              ikRead == {r \in o.reads : r.id = ikId /\ r.created = ikKey}
              newFet == IF ev.ok /\ ikRead # {}
                        THEN (<<o.scope, ikId, ikKey>> :> [at |-> now, revoked |-> (CHOOSE r \in ikRead : TRUE).revoked /\ \A r \in ikRead : r.revoked,
                                                          dref |-> ev.kind = "Dec"]) @@ fet
                        ELSE fet
          IN /\ Report(common \cup encC \cup decC)
             /\ fet' = newFet
             /\ lat' = IF ev.kind = "Enc" /\ ev.ok THEN (<<o.scope, ev.ikid>> :> ev.ikCreated) @@ lat ELSE lat
             /\ kdec' = IF o.faults = 0 /\ o.skscope # "none" THEN [k \in {<<o.skscope, kd>> : kd \in o.kdecs} |-> now] @@ kdec ELSE kdec
             /\ ops' = [ops EXCEPT ![ev.p] = NoOp]
       /\ UNCHANGED <<par, now, store, revAt, lv, role, pairs, sft, leaked>>

Final == /\ IsEv("final")
         /\ Report((IF ev.live > 0 \/ (\E s \in lv : s.p = ev.p)
                     THEN {IF Cardinality({x \in lv : x.p = ev.p}) = ev.live /\ \A s \in {x \in lv : x.p = ev.p} : <<ev.p, s.kid>> \in leaked
                           THEN "C09.ReleasedOnClose/sk-ref-leak" ELSE "C09.ReleasedOnClose"} ELSE {})
                   \cup (IF ev.doubleClose > 0 THEN {"C09.ReleasedTwice"} ELSE {})
                   \cup (IF ev.useAfterClose > 0 THEN {"C09.TouchedAfterRelease"} ELSE {})
                   \cup (IF ev.mutated > 0 THEN {"C14.RecordOverwritten"} ELSE {}))
         /\ lv' = lv
         /\ UNCHANGED <<par, now, store, revAt, ops, fet, lat, kdec, role, pairs, sft, leaked>>

\* summary of a truly parallel stress run (harness counts the pairs; the clause is judged here): no (key, nonce) pair twice,
\* and no encrypt failed
Stress == /\ IsEv("stress")
          /\ Report((IF ev.reused > 0 THEN {"C03.KeyNonceReused"} ELSE {}) \cup (IF ev.failed > 0 THEN {"C08.OperationFailedUnderConcurrency"} ELSE {}))
          /\ UNCHANGED <<par, now, store, revAt, ops, fet, lat, kdec, lv, role, pairs, sft, leaked>>

MNext == Stress \/ Reset \/ Tick \/ Revoke \/ Bookkeeping \/ IFault \/ Restart \/ Start \/ Ms \/ Kms \/ Aead \/ Alloc \/ Free \/ Misuse \/ Ret \/ Final
MSpec == MInit /\ [][MNext]_mvars

\* sanity of the monitor's own state
StoreUnique == \A r, s \in store : (r.id = s.id /\ r.created = s.created) => r = s

TraceAccepted ==
  LET d == TLCGet("stats").diameter IN
  IF d - 1 = Len(TraceLog) THEN TRUE ELSE Print(<<"TRACE-REJECTED-AT-LINE", d>>, FALSE)
=============================================================================
