----------------------------- MODULE ServerGen -----------------------------
(* every request sequence (history is part of the state) ending in EOF is printed once as a test case *)
EXTENDS Server, Json
GEOF == /\ EOF
        /\ PrintT(ToJson([reqs |-> reqs, allowed |-> [i \in 1..Len(allowed) |-> allowed[i]]]))
GNext == (\E r \in Requests : Recv(r)) \/ GEOF
GSpec == Init /\ [][GNext]_vars
=============================================================================
