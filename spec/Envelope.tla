------------------------------ MODULE Envelope ------------------------------
(***************************************************************************)
(* Implementation-shaped model of the key hierarchy protocol of            *)
(* go/appencryption: envelope.go (EncryptPayload / DecryptDataRowRecord    *)
(* and the load-or-create paths for IK and SK), key_cache.go (getFresh /   *)
(* load / write / GetOrLoad / GetOrLoadLatest, neverCache), policy.go      *)
(* (creation-stamp truncation) and internal/key.go (expiry).               *)
(*                                                                         *)
(* A process is one SessionFactory driven by one goroutine; processes share *)
(* only the metastore (and the stateless KMS).  One labelled step per       *)
(* external call (Metastore.Load / LoadLatest / Store, KMS encrypt /        *)
(* decrypt); everything between two external calls is local and folded      *)
(* into the step that ends at the later call.  Faults are alternative       *)
(* outcomes of the external-call steps.                                     *)
(*                                                                         *)
(* Comparisons are copied from the code:                                    *)
(*   stale   <=> ~revoked /\ loadedAt + R < now        key_cache.go:234-241 *)
(*   expired <=> now > created + E                     internal/key.go:161  *)
(*   stamp    =  now - now % P                         policy.go:147-154    *)
(***************************************************************************)
EXTENDS Integers, Sequences, FiniteSets, TLC

CONSTANTS Procs,        \* processes (factories)
          Parts,        \* partition ids
          E, R, P,      \* ExpireKeyAfter, RevokeCheckInterval, CreateDatePrecision (seconds)
          MaxT,         \* clock bound
          MaxKids,      \* bound on generated keys per behaviour
          MaxRecs,      \* bound on distinct data row records remembered
          MaxFaults,    \* bound on injected faults per behaviour
          MaxOpFaults,  \* bound on injected faults per operation
          MaxRevokes,   \* bound on operator revocations
          RevokeKinds,  \* kinds of key records the operator may revoke: subset of {"SK", "IK"}
          CfgSet,       \* set of functions Procs -> [ik: {"none","session","shared"}, sk: BOOLEAN, sess: BOOLEAN]
                        \* ("shared" = Policy.SharedIntermediateKeyCache; newSession consults only that flag, so the mode stands for
                        \*  both values of Policy.CacheIntermediateKeys and the driver alternates them)
          OpKinds,      \* API calls explored: subset of {"Enc", "Dec", "CloseSession", "Restart"}
          Ticks,        \* clock increments the environment may choose
          MidOpTicks,   \* TRUE: the clock may advance while operations are in flight
          Frac          \* TRUE: "now" is model time plus a constant fraction of a second (never a whole second, as in production);
                        \* creation stamps are whole seconds, so a key is expired AT model time created + E already

NoKey == [created |-> -1, revoked |-> FALSE, kid |-> 0, loadedAt |-> 0, parent |-> 0, pkid |-> 0, dref |-> FALSE]
ErrKey == [NoKey EXCEPT !.created = -2]
IsKey(k) == k.created >= 0

Stamp(t) == t - (t % P)
ExpiredAt(cr, t) == IF Frac THEN t >= cr + E ELSE t > cr + E

Scopes == {"SK", "shared"} \cup Parts
EmptyCache == [ent |-> <<>>, latest |-> <<>>]       \* ent : <<id, created>> -> entry ; latest : id -> created

KeyOfRec(r) == [created |-> r.created, revoked |-> r.revoked, kid |-> r.kid, loadedAt |-> 0, parent |-> r.parent, pkid |-> r.pkid, dref |-> FALSE]

\* keyCache.read
CRead(c, id, cr) == LET r == IF cr = 0 /\ id \in DOMAIN c.latest THEN c.latest[id] ELSE cr
                    IN IF <<id, r>> \in DOMAIN c.ent THEN c.ent[<<id, r>>] ELSE NoKey
\* keyCache.write (key_cache.go:360-377)
CWrite(c, id, cr, e) ==
  LET key == IF cr = 0 THEN e.created ELSE cr
      lat == IF cr = 0 THEN e.created
             ELSE IF id \notin DOMAIN c.latest \/ c.latest[id] < e.created THEN cr ELSE c.latest[id]
  IN [ent |-> (<<id, key>> :> e) @@ c.ent, latest |-> (id :> lat) @@ c.latest]

NoOp   == [kind |-> "none", part |-> "", start |-> 0, faults |-> 0, sfault |-> FALSE, calls |-> 0, rec |-> 0]
NoRec  == [part |-> "", ikCreated |-> 0, ikKid |-> 0]
NoRet  == [n |-> 0, kind |-> "none", ok |-> FALSE, part |-> "", rec |-> NoRec, faults |-> 0, calls |-> 0, start |-> 0]
NoCall == [n |-> 0, kind |-> "", k |-> "", part |-> "", created |-> 0, fault |-> "none", res |-> 0]
NoCmd  == [n |-> 0, cmd |-> "", p |-> "", part |-> "", rec |-> NoRec, d |-> 0, k |-> "", created |-> 0]

(* --algorithm Envelope {
variables
  now = P;                 \* starts at P so that no creation stamp is 0 (0 means "latest" in KeyMeta)
  store = {};              \* metastore: set of [k, part, created, kid, parent, pkid, revoked, at (ghost: start of the creating operation)]
  nextKid = 1;             \* identity of freshly generated key bytes
  issued = {};             \* records handed out: [part, ikCreated, ikKid]
  revAt = {};              \* operator revocations: <<k, part, created, time>>
  cfg \in CfgSet;
  kc = [p \in Procs |-> [s \in Scopes |-> EmptyCache]];   \* key caches of each process by scope
  open = [p \in Procs |-> {}];                           \* partitions with an open session
  op = [p \in Procs |-> NoOp];                           \* operation in flight
  ret = [p \in Procs |-> NoRet];                         \* last operation result
  rv = [p \in Procs |-> NoKey];                          \* return value of the last procedure
  xc = [p \in Procs |-> NoCall];                         \* last external call
  cmd = NoCmd;                                           \* last command (API call or environment action)
  nfaults = 0; nrev = 0;
  sft = [p \in Procs |-> -1];                          \* time of the last injected Store fault seen by each process
  viol = {};                                             \* names of property clauses violated by a completed operation

define {
  Recs(k, part) == {r \in store : r.k = k /\ r.part = part}
  MSGet(k, part, cr) == IF \E r \in Recs(k, part) : r.created = cr
                        THEN KeyOfRec(CHOOSE r \in Recs(k, part) : r.created = cr) ELSE NoKey
  MSLatest(k, part) == IF Recs(k, part) = {} THEN NoKey
                       ELSE KeyOfRec(CHOOSE r \in Recs(k, part) : \A q \in Recs(k, part) : q.created <= r.created)
  Absent(k, part, cr) == ~\E r \in Recs(k, part) : r.created = cr

  Stale(e)   == ~e.revoked /\ e.loadedAt + R < now
  Invalid(k) == k.revoked \/ ExpiredAt(k.created, now)

  Cached(p, kind) == IF kind = "SK" THEN cfg[p].sk ELSE cfg[p].ik # "none"
  Scope(p, kind, part) == IF kind = "SK" THEN "SK" ELSE IF cfg[p].ik = "shared" THEN "shared" ELSE part
  Id(kind, part) == IF kind = "SK" THEN "SK" ELSE part
  Cache(p, kind, part) == kc[p][Scope(p, kind, part)]
  Rd(p, kind, part, cr) == CRead(Cache(p, kind, part), Id(kind, part), cr)
  FreshHit(p, kind, part, cr) == Cached(p, kind) /\ IsKey(Rd(p, kind, part, cr)) /\ ~Stale(Rd(p, kind, part, cr))

  \* keyCache.load after the loader returned k (key_cache.go:300-325, with the merge restricted to the same key)
  \* dref (ghost): the entry's freshness was last renewed by the decrypt path (GetOrLoad), which does not look at the parent
  LoadMerge(c, id, cr, k, dref) ==
    LET e == CRead(c, id, cr) IN
    IF IsKey(e) /\ e.created = k.created
    THEN LET e2 == [e EXCEPT !.revoked = k.revoked, !.loadedAt = now, !.dref = dref] IN [cache |-> CWrite(c, id, cr, e2), key |-> e2]
    ELSE LET e2 == [k EXCEPT !.loadedAt = now, !.dref = dref] IN [cache |-> CWrite(c, id, cr, e2), key |-> e2]

  \* ---- the property clauses, evaluated when an operation returns (t = START time of the operation, DESIGN.md section 8)
  RevokedAtOf(k, part, cr) == {x[4] : x \in {y \in revAt : y[1] = k /\ y[2] = part /\ y[3] = cr}}
  EncViolations(k, o, part, lastSF) ==
    LET t == o.start IN
    (IF o.faults = 0 /\ ~IsKey(k) THEN {"C02.Recovers"} ELSE {})
    \cup (IF o.rec = 1 /\ o.calls # 0 THEN {"C20.ZeroCallsWhenFresh"} ELSE {})
    \cup (IF ~IsKey(k) THEN {} ELSE
          \* C04: the IK was already expired when the operation began although the store accepted every write
          (IF ~o.sfault /\ ExpiredAt(k.created, t) THEN {"C04.NoExpiredIK"} ELSE {})
          \* C04: IK whose parent SK expired more than R ago (the store having accepted every write of this process since that expiry:
          \* a refused system key insert leaves only the old key to work under, and the IK created then lives on in the cache)
     \cup (IF ~o.sfault /\ lastSF < k.parent + E /\ ExpiredAt(k.parent + R, t) THEN {IF k.dref THEN "C04.ParentExpiryBounded/decrypt-refresh" ELSE "C04.ParentExpiryBounded"} ELSE {})
          \* C05: IK revoked more than R ago and a later stamp exists
          \* (a replacement could be persisted: no Store fault hit this process since the revocation)
     \cup (IF o.faults = 0 /\ Stamp(t) > k.created /\ \E tr \in RevokedAtOf("IK", part, k.created) : t > tr + R /\ lastSF < tr
           THEN {"C05.RevokedIKBounded"} ELSE {})
          \* C05: parent SK revoked more than 2R ago and later stamps exist for both
     \cup (IF o.faults = 0 /\ Stamp(t) > k.created /\ Stamp(t) > k.parent /\ \E tr \in RevokedAtOf("SK", "-", k.parent) : t > tr + 2 * R /\ lastSF < tr
           THEN {IF k.dref THEN "C05.RevokedSKBounded/decrypt-refresh" ELSE "C05.RevokedSKBounded"} ELSE {}))
  DecViolations(ok, o, part, d) ==
    (IF o.faults = 0 /\ d.part = part /\ ~ok THEN {"C01.RoundTrip"} ELSE {})
    \cup (IF d.part # part /\ ok THEN {"C06.ForeignRefused"} ELSE {})
    \cup (IF o.rec = 1 /\ o.calls # 0 THEN {"C20.ZeroCallsWhenFresh"} ELSE {})

  FaultOpts(p, kinds) == {"none"} \cup (IF nfaults < MaxFaults /\ op[p].faults < MaxOpFaults THEN kinds ELSE {})
  Idle(p) == pc[p] = "idle"
  \* labels whose step begins with an external call: the only points (besides idle) where the real code can be
  \* observed / delayed from outside, hence the only points where the clock may advance inside an operation
  CallLabels == {"gL", "gK", "s0", "sD", "sE", "sS", "sR", "sD2", "cS", "cR", "i0"}
  AtCall(p) == pc[p] \in CallLabels \cup {"idle"}
}

macro Ext(kind, k, part, cr, f, res) {
  xc[self] := [n |-> 1 - xc[self].n, kind |-> kind, k |-> k, part |-> part, created |-> cr, fault |-> f, res |-> res];
  if (f # "none") {
    nfaults := nfaults + 1;
    op[self] := [op[self] EXCEPT !.faults = @ + 1, !.calls = @ + 1, !.sfault = @ \/ kind = "Store"];
    if (kind = "Store") { sft[self] := now; };
  } else {
    op[self] := [op[self] EXCEPT !.calls = @ + 1];
  }
}

\* keyCache.GetOrLoad(meta{id, cr}, loader) with loader = loadSystemKey / loadIntermediateKey ; neverCache: loader only
procedure GetOrLoad(gk, gp, gcr)
  variable ekr = NoKey;
{
g0:  if (FreshHit(self, gk, gp, gcr)) { rv[self] := Rd(self, gk, gp, gcr); return; };
gL:  with (f \in FaultOpts(self, {"err"})) {                          \* Metastore.Load
       ekr := IF f = "none" THEN MSGet(gk, IF gk = "SK" THEN "-" ELSE gp, gcr) ELSE ErrKey;
       Ext("Load", gk, gp, gcr, f, IF f = "none" THEN MSGet(gk, IF gk = "SK" THEN "-" ELSE gp, gcr).created ELSE -2);
     };
gL2: if (~IsKey(ekr)) { rv[self] := ErrKey; return; };
g1:  if (gk = "SK") {
gK:    with (f \in FaultOpts(self, {"err"})) {                        \* KMS.DecryptKey
         rv[self] := IF f = "none" THEN ekr ELSE ErrKey;
         Ext("KmsDec", "SK", "-", ekr.created, f, 0);
       };
     } else {
       call GetOrLoad("SK", "-", ekr.parent);                         \* getOrLoadSystemKey of ekr.ParentKeyMeta
g2:    if (~IsKey(rv[self])) { return; };
g2b:   call IKFromEKR(rv[self], ekr);
     };
g3:  if (IsKey(rv[self]) /\ Cached(self, gk)) {                     \* keyCache.load: merge / insert
       with (m = LoadMerge(Cache(self, gk, gp), Id(gk, gp), gcr, rv[self], TRUE)) {
         kc[self][Scope(self, gk, gp)] := m.cache;
         rv[self] := m.key;
       };
     };
     return;
}

\* intermediateKeyFromEKR(sk, ekr)
procedure IKFromEKR(sk, ikr)
{
f0:  if (sk.created # ikr.parent) {
       call GetOrLoad("SK", "-", ikr.parent);
f1:    if (~IsKey(rv[self])) { return; } else { sk := rv[self]; };
     };
f2:  rv[self] := IF sk.kid = ikr.pkid THEN ikr ELSE ErrKey;            \* AEAD unwrap succeeds only under the wrapping key
     return;
}

\* loadLatestOrCreateSystemKey
procedure LoaderSK()
  variables skr = NoKey; nsk = NoKey;
{
s0:  with (f \in FaultOpts(self, {"err"})) {                          \* Metastore.LoadLatest(SK)
       skr := IF f = "none" THEN MSLatest("SK", "-") ELSE ErrKey;
       Ext("LoadLatest", "SK", "-", 0, f, IF f = "none" THEN MSLatest("SK", "-").created ELSE -2);
     };
s0b: if (skr.created = -2) { rv[self] := ErrKey; return; };
s1:  if (IsKey(skr) /\ ~Invalid(skr)) {
sD:    with (f \in FaultOpts(self, {"err"})) {                        \* KMS.DecryptKey
         rv[self] := IF f = "none" THEN skr ELSE ErrKey;
         Ext("KmsDec", "SK", "-", skr.created, f, 0);
       };
       return;
     };
sE:  await nextKid <= MaxKids;
     with (f \in FaultOpts(self, {"err"})) {                          \* generateKey ; KMS.EncryptKey
       nsk := [NoKey EXCEPT !.created = Stamp(now), !.kid = nextKid];
       nextKid := nextKid + 1;
       Ext("KmsEnc", "SK", "-", Stamp(now), f, 0);
       if (f # "none") { rv[self] := ErrKey; };
     };
sE2: if (xc[self].fault # "none") { return; };
sS:  with (f \in FaultOpts(self, {"notWritten", "writtenFalse"})) {   \* Metastore.Store(SK)
       if (Absent("SK", "-", nsk.created) /\ f # "notWritten") {
         store := store \cup {[k |-> "SK", part |-> "-", created |-> nsk.created, kid |-> nsk.kid, parent |-> 0, pkid |-> 0, revoked |-> FALSE, at |-> op[self].start, sf |-> op[self].sfault]};
       };
       Ext("Store", "SK", "-", nsk.created, f, IF Absent("SK", "-", nsk.created) /\ f = "none" THEN 1 ELSE 0);
     };
sS2: if (xc[self].res = 1) { rv[self] := nsk; return; };
sR:  with (f \in FaultOpts(self, {"err"})) {                          \* mustLoadLatest(SK)
       skr := IF f = "none" THEN MSLatest("SK", "-") ELSE ErrKey;
       Ext("LoadLatest", "SK", "-", 0, f, IF f = "none" THEN MSLatest("SK", "-").created ELSE -2);
     };
sR2: if (~IsKey(skr)) { rv[self] := ErrKey; return; };
sD2: with (f \in FaultOpts(self, {"err"})) {                          \* KMS.DecryptKey
       rv[self] := IF f = "none" THEN skr ELSE ErrKey;
       Ext("KmsDec", "SK", "-", skr.created, f, 0);
     };
     return;
}

\* createIntermediateKey
procedure CreateIK(cp)
  variables csk = NoKey; nik = NoKey; cikr = NoKey;
{
c0:  call Latest("SK", "-");                                          \* skCache.GetOrLoadLatest(SKid, loadLatestOrCreateSystemKey)
c1:  if (~IsKey(rv[self])) { return; };
c2:  await nextKid <= MaxKids;
     csk := rv[self];
     nik := [NoKey EXCEPT !.created = Stamp(now), !.kid = nextKid, !.parent = rv[self].created, !.pkid = rv[self].kid];
     nextKid := nextKid + 1;
cS:  with (f \in FaultOpts(self, {"notWritten", "writtenFalse"})) {   \* Metastore.Store(IK)
       if (Absent("IK", cp, nik.created) /\ f # "notWritten") {
         store := store \cup {[k |-> "IK", part |-> cp, created |-> nik.created, kid |-> nik.kid, parent |-> nik.parent, pkid |-> nik.pkid, revoked |-> FALSE, at |-> op[self].start, sf |-> op[self].sfault]};
       };
       Ext("Store", "IK", cp, nik.created, f, IF Absent("IK", cp, nik.created) /\ f = "none" THEN 1 ELSE 0);
     };
cS2: if (xc[self].res = 1) { rv[self] := nik; return; };
cR:  with (f \in FaultOpts(self, {"err"})) {                          \* mustLoadLatest(IK)
       cikr := IF f = "none" THEN MSLatest("IK", cp) ELSE ErrKey;
       Ext("LoadLatest", "IK", cp, 0, f, IF f = "none" THEN MSLatest("IK", cp).created ELSE -2);
     };
cR2: if (~IsKey(cikr)) { rv[self] := ErrKey; return; };
c3:  call IKFromEKR(csk, cikr);
     return;
}

\* loadLatestOrCreateIntermediateKey
procedure LoaderIK(ip)
  variables likr = NoKey;
{
i0:  with (f \in FaultOpts(self, {"err"})) {                          \* Metastore.LoadLatest(IK)
       likr := IF f = "none" THEN MSLatest("IK", ip) ELSE ErrKey;
       Ext("LoadLatest", "IK", ip, 0, f, IF f = "none" THEN MSLatest("IK", ip).created ELSE -2);
     };
i0b: if (likr.created = -2) { rv[self] := ErrKey; return; };
i1:  if (~IsKey(likr) \/ Invalid(likr)) { call CreateIK(ip); return; };
i2:  call GetOrLoad("SK", "-", likr.parent);                          \* getOrLoadSystemKey(parent)
i3:  if (~IsKey(rv[self]) \/ Invalid(rv[self])) { call CreateIK(ip); return; };
i4:  call IKFromEKR(rv[self], likr);                                  \* getValidIntermediateKey
i5:  if (~IsKey(rv[self])) { call CreateIK(ip); return; };
i6:  return;
}

\* keyCache.GetOrLoadLatest(id, loader) ; neverCache.GetOrLoadLatest: loader only
procedure Latest(lkind, lp)
  variable lk = NoKey;
{
l0:  if (FreshHit(self, lkind, lp, 0)) { lk := Rd(self, lkind, lp, 0); goto lInv; };
l1:  if (lkind = "SK") { call LoaderSK(); } else { call LoaderIK(lp); };
l2:  if (~IsKey(rv[self]) \/ ~Cached(self, lkind)) { return; };
l3:  with (m = LoadMerge(Cache(self, lkind, lp), Id(lkind, lp), 0, rv[self], FALSE)) {
       kc[self][Scope(self, lkind, lp)] := m.cache;
       lk := m.key;
     };
lInv: if (~Invalid(lk)) { rv[self] := lk; return; };
l4:  if (lkind = "SK") { call LoaderSK(); } else { call LoaderIK(lp); };   \* reload
l5:  if (IsKey(rv[self])) {
       with (e = [rv[self] EXCEPT !.loadedAt = now, !.dref = FALSE]) {
         kc[self][Scope(self, lkind, lp)] := CWrite(Cache(self, lkind, lp), Id(lkind, lp), e.created, e);
         rv[self] := e;
       };
     };
     return;
}

procedure Encrypt(ep)
{
e0:  call Latest("IK", ep);
e1:  with (k = rv[self], o = op[self], d = [part |-> ep, ikCreated |-> rv[self].created, ikKid |-> rv[self].kid]) {
       if (IsKey(k) /\ (d \in issued \/ Cardinality(issued) < MaxRecs)) { issued := issued \cup {d}; };
       ret[self] := [n |-> 1 - ret[self].n, kind |-> "Enc", ok |-> IsKey(k), part |-> ep, rec |-> d,
                     faults |-> o.faults, calls |-> o.calls, start |-> o.start];
       viol := viol \cup EncViolations(k, o, ep, sft[self]);
     };
     op[self] := NoOp;
     return;
}

procedure Decrypt(dp, dr)
{
d0:  if (dr.part # dp) { rv[self] := ErrKey; goto d1; };            \* IsValidIntermediateKeyID
d0b: call GetOrLoad("IK", dp, dr.ikCreated);
d1:  with (ok = IsKey(rv[self]) /\ rv[self].kid = dr.ikKid, o = op[self]) {
       ret[self] := [n |-> 1 - ret[self].n, kind |-> "Dec", ok |-> ok, part |-> dp, rec |-> dr,
                     faults |-> o.faults, calls |-> o.calls, start |-> o.start];
       viol := viol \cup DecViolations(ok, o, dp, dr);
     };
     op[self] := NoOp;
     return;
}

process (p \in Procs)
{
idle: while (TRUE) {
        either {
          await "Enc" \in OpKinds;
          with (pt \in Parts) {
            op[self] := [NoOp EXCEPT !.kind = "Enc", !.part = pt, !.start = now,
                             !.rec = IF ~MidOpTicks /\ FreshHit(self, "IK", pt, 0) /\ ~Invalid(Rd(self, "IK", pt, 0)) THEN 1 ELSE 0];
            cmd := [NoCmd EXCEPT !.n = 1 - cmd.n, !.cmd = "Enc", !.p = self, !.part = pt];
            open[self] := open[self] \cup {pt};
            call Encrypt(pt);
          };
        } or {
          await "Dec" \in OpKinds;
          with (pt \in Parts, ix \in issued) {
            op[self] := [NoOp EXCEPT !.kind = "Dec", !.part = pt, !.start = now,
                             !.rec = IF ~MidOpTicks /\ ix.part = pt /\ FreshHit(self, "IK", pt, ix.ikCreated) THEN 1 ELSE 0];
            cmd := [NoCmd EXCEPT !.n = 1 - cmd.n, !.cmd = "Dec", !.p = self, !.part = pt, !.rec = ix];
            open[self] := open[self] \cup {pt};
            call Decrypt(pt, ix);
          };
        } or {
          \* Session.Close: a per-session IK cache dies with its session unless the session itself is cached
          await "CloseSession" \in OpKinds;
          with (pt \in open[self]) {
            open[self] := open[self] \ {pt};
            cmd := [NoCmd EXCEPT !.n = 1 - cmd.n, !.cmd = "CloseSession", !.p = self, !.part = pt];
            if (cfg[self].ik = "session" /\ ~cfg[self].sess) { kc[self][pt] := EmptyCache; };
          };
        } or {
          \* SessionFactory.Close + NewSessionFactory: every cache is gone
          await "Restart" \in OpKinds /\ \E s \in Scopes : kc[self][s] # EmptyCache;
          kc[self] := [s \in Scopes |-> EmptyCache];
          open[self] := {};
          cmd := [NoCmd EXCEPT !.n = 1 - cmd.n, !.cmd = "Restart", !.p = self];
        };
      };
}

process (env = "env")
{
ev:   while (TRUE) {
        either {
          await (MidOpTicks /\ \A q \in Procs : AtCall(q)) \/ \A q \in Procs : Idle(q);
          with (d \in Ticks) {
            await now + d <= MaxT;
            now := now + d;
            cmd := [NoCmd EXCEPT !.n = 1 - cmd.n, !.cmd = "Tick", !.d = d];
          };
        } or {
          \* the operator flags a key record revoked in the metastore
          await (\A q \in Procs : Idle(q)) /\ nrev < MaxRevokes;
          with (r \in {x \in store : ~x.revoked /\ x.k \in RevokeKinds}) {
            store := (store \ {r}) \cup {[r EXCEPT !.revoked = TRUE]};
            revAt := revAt \cup {<<r.k, r.part, r.created, now>>};
            nrev := nrev + 1;
            cmd := [NoCmd EXCEPT !.n = 1 - cmd.n, !.cmd = "Revoke", !.k = r.k, !.part = r.part, !.created = r.created];
          };
        };
      };
}
} *)
\* BEGIN TRANSLATION
CONSTANT defaultInitValue
VARIABLES pc, now, store, nextKid, issued, revAt, cfg, kc, open, op, ret, rv, 
          xc, cmd, nfaults, nrev, sft, viol, stack

(* define statement *)
Recs(k, part) == {r \in store : r.k = k /\ r.part = part}
MSGet(k, part, cr) == IF \E r \in Recs(k, part) : r.created = cr
                      THEN KeyOfRec(CHOOSE r \in Recs(k, part) : r.created = cr) ELSE NoKey
MSLatest(k, part) == IF Recs(k, part) = {} THEN NoKey
                     ELSE KeyOfRec(CHOOSE r \in Recs(k, part) : \A q \in Recs(k, part) : q.created <= r.created)
Absent(k, part, cr) == ~\E r \in Recs(k, part) : r.created = cr

Stale(e)   == ~e.revoked /\ e.loadedAt + R < now
Invalid(k) == k.revoked \/ ExpiredAt(k.created, now)

Cached(p, kind) == IF kind = "SK" THEN cfg[p].sk ELSE cfg[p].ik # "none"
Scope(p, kind, part) == IF kind = "SK" THEN "SK" ELSE IF cfg[p].ik = "shared" THEN "shared" ELSE part
Id(kind, part) == IF kind = "SK" THEN "SK" ELSE part
Cache(p, kind, part) == kc[p][Scope(p, kind, part)]
Rd(p, kind, part, cr) == CRead(Cache(p, kind, part), Id(kind, part), cr)
FreshHit(p, kind, part, cr) == Cached(p, kind) /\ IsKey(Rd(p, kind, part, cr)) /\ ~Stale(Rd(p, kind, part, cr))



LoadMerge(c, id, cr, k, dref) ==
  LET e == CRead(c, id, cr) IN
  IF IsKey(e) /\ e.created = k.created
  THEN LET e2 == [e EXCEPT !.revoked = k.revoked, !.loadedAt = now, !.dref = dref] IN [cache |-> CWrite(c, id, cr, e2), key |-> e2]
  ELSE LET e2 == [k EXCEPT !.loadedAt = now, !.dref = dref] IN [cache |-> CWrite(c, id, cr, e2), key |-> e2]


RevokedAtOf(k, part, cr) == {x[4] : x \in {y \in revAt : y[1] = k /\ y[2] = part /\ y[3] = cr}}
EncViolations(k, o, part, lastSF) ==
  LET t == o.start IN
  (IF o.faults = 0 /\ ~IsKey(k) THEN {"C02.Recovers"} ELSE {})
  \cup (IF o.rec = 1 /\ o.calls # 0 THEN {"C20.ZeroCallsWhenFresh"} ELSE {})
  \cup (IF ~IsKey(k) THEN {} ELSE

        (IF ~o.sfault /\ ExpiredAt(k.created, t) THEN {"C04.NoExpiredIK"} ELSE {})


   \cup (IF ~o.sfault /\ lastSF < k.parent + E /\ ExpiredAt(k.parent + R, t) THEN {IF k.dref THEN "C04.ParentExpiryBounded/decrypt-refresh" ELSE "C04.ParentExpiryBounded"} ELSE {})


   \cup (IF o.faults = 0 /\ Stamp(t) > k.created /\ \E tr \in RevokedAtOf("IK", part, k.created) : t > tr + R /\ lastSF < tr
         THEN {"C05.RevokedIKBounded"} ELSE {})

   \cup (IF o.faults = 0 /\ Stamp(t) > k.created /\ Stamp(t) > k.parent /\ \E tr \in RevokedAtOf("SK", "-", k.parent) : t > tr + 2 * R /\ lastSF < tr
         THEN {IF k.dref THEN "C05.RevokedSKBounded/decrypt-refresh" ELSE "C05.RevokedSKBounded"} ELSE {}))
DecViolations(ok, o, part, d) ==
  (IF o.faults = 0 /\ d.part = part /\ ~ok THEN {"C01.RoundTrip"} ELSE {})
  \cup (IF d.part # part /\ ok THEN {"C06.ForeignRefused"} ELSE {})
  \cup (IF o.rec = 1 /\ o.calls # 0 THEN {"C20.ZeroCallsWhenFresh"} ELSE {})

FaultOpts(p, kinds) == {"none"} \cup (IF nfaults < MaxFaults /\ op[p].faults < MaxOpFaults THEN kinds ELSE {})
Idle(p) == pc[p] = "idle"


CallLabels == {"gL", "gK", "s0", "sD", "sE", "sS", "sR", "sD2", "cS", "cR", "i0"}
AtCall(p) == pc[p] \in CallLabels \cup {"idle"}

VARIABLES gk, gp, gcr, ekr, sk, ikr, skr, nsk, cp, csk, nik, cikr, ip, likr, 
          lkind, lp, lk, ep, dp, dr

vars == << pc, now, store, nextKid, issued, revAt, cfg, kc, open, op, ret, rv, 
           xc, cmd, nfaults, nrev, sft, viol, stack, gk, gp, gcr, ekr, sk, 
           ikr, skr, nsk, cp, csk, nik, cikr, ip, likr, lkind, lp, lk, ep, dp, 
           dr >>

ProcSet == (Procs) \cup {"env"}

Init == (* Global variables *)
        /\ now = P
        /\ store = {}
        /\ nextKid = 1
        /\ issued = {}
        /\ revAt = {}
        /\ cfg \in CfgSet
        /\ kc = [p \in Procs |-> [s \in Scopes |-> EmptyCache]]
        /\ open = [p \in Procs |-> {}]
        /\ op = [p \in Procs |-> NoOp]
        /\ ret = [p \in Procs |-> NoRet]
        /\ rv = [p \in Procs |-> NoKey]
        /\ xc = [p \in Procs |-> NoCall]
        /\ cmd = NoCmd
        /\ nfaults = 0
        /\ nrev = 0
        /\ sft = [p \in Procs |-> -1]
        /\ viol = {}
        (* Procedure GetOrLoad *)
        /\ gk = [ self \in ProcSet |-> defaultInitValue]
        /\ gp = [ self \in ProcSet |-> defaultInitValue]
        /\ gcr = [ self \in ProcSet |-> defaultInitValue]
        /\ ekr = [ self \in ProcSet |-> NoKey]
        (* Procedure IKFromEKR *)
        /\ sk = [ self \in ProcSet |-> defaultInitValue]
        /\ ikr = [ self \in ProcSet |-> defaultInitValue]
        (* Procedure LoaderSK *)
        /\ skr = [ self \in ProcSet |-> NoKey]
        /\ nsk = [ self \in ProcSet |-> NoKey]
        (* Procedure CreateIK *)
        /\ cp = [ self \in ProcSet |-> defaultInitValue]
        /\ csk = [ self \in ProcSet |-> NoKey]
        /\ nik = [ self \in ProcSet |-> NoKey]
        /\ cikr = [ self \in ProcSet |-> NoKey]
        (* Procedure LoaderIK *)
        /\ ip = [ self \in ProcSet |-> defaultInitValue]
        /\ likr = [ self \in ProcSet |-> NoKey]
        (* Procedure Latest *)
        /\ lkind = [ self \in ProcSet |-> defaultInitValue]
        /\ lp = [ self \in ProcSet |-> defaultInitValue]
        /\ lk = [ self \in ProcSet |-> NoKey]
        (* Procedure Encrypt *)
        /\ ep = [ self \in ProcSet |-> defaultInitValue]
        (* Procedure Decrypt *)
        /\ dp = [ self \in ProcSet |-> defaultInitValue]
        /\ dr = [ self \in ProcSet |-> defaultInitValue]
        /\ stack = [self \in ProcSet |-> << >>]
        /\ pc = [self \in ProcSet |-> CASE self \in Procs -> "idle"
                                        [] self = "env" -> "ev"]

g0(self) == /\ pc[self] = "g0"
            /\ IF FreshHit(self, gk[self], gp[self], gcr[self])
                  THEN /\ rv' = [rv EXCEPT ![self] = Rd(self, gk[self], gp[self], gcr[self])]
                       /\ pc' = [pc EXCEPT ![self] = Head(stack[self]).pc]
                       /\ ekr' = [ekr EXCEPT ![self] = Head(stack[self]).ekr]
                       /\ gk' = [gk EXCEPT ![self] = Head(stack[self]).gk]
                       /\ gp' = [gp EXCEPT ![self] = Head(stack[self]).gp]
                       /\ gcr' = [gcr EXCEPT ![self] = Head(stack[self]).gcr]
                       /\ stack' = [stack EXCEPT ![self] = Tail(stack[self])]
                  ELSE /\ pc' = [pc EXCEPT ![self] = "gL"]
                       /\ UNCHANGED << rv, stack, gk, gp, gcr, ekr >>
            /\ UNCHANGED << now, store, nextKid, issued, revAt, cfg, kc, open, 
                            op, ret, xc, cmd, nfaults, nrev, sft, viol, sk, 
                            ikr, skr, nsk, cp, csk, nik, cikr, ip, likr, lkind, 
                            lp, lk, ep, dp, dr >>

gL(self) == /\ pc[self] = "gL"
            /\ \E f \in FaultOpts(self, {"err"}):
                 /\ ekr' = [ekr EXCEPT ![self] = IF f = "none" THEN MSGet(gk[self], IF gk[self] = "SK" THEN "-" ELSE gp[self], gcr[self]) ELSE ErrKey]
                 /\ xc' = [xc EXCEPT ![self] = [n |-> 1 - xc[self].n, kind |-> "Load", k |-> gk[self], part |-> gp[self], created |-> gcr[self], fault |-> f, res |-> (IF f = "none" THEN MSGet(gk[self], IF gk[self] = "SK" THEN "-" ELSE gp[self], gcr[self]).created ELSE -2)]]
                 /\ IF f # "none"
                       THEN /\ nfaults' = nfaults + 1
                            /\ op' = [op EXCEPT ![self] = [op[self] EXCEPT !.faults = @ + 1, !.calls = @ + 1, !.sfault = @ \/ "Load" = "Store"]]
                            /\ IF "Load" = "Store"
                                  THEN /\ sft' = [sft EXCEPT ![self] = now]
                                  ELSE /\ TRUE
                                       /\ sft' = sft
                       ELSE /\ op' = [op EXCEPT ![self] = [op[self] EXCEPT !.calls = @ + 1]]
                            /\ UNCHANGED << nfaults, sft >>
            /\ pc' = [pc EXCEPT ![self] = "gL2"]
            /\ UNCHANGED << now, store, nextKid, issued, revAt, cfg, kc, open, 
                            ret, rv, cmd, nrev, viol, stack, gk, gp, gcr, sk, 
                            ikr, skr, nsk, cp, csk, nik, cikr, ip, likr, lkind, 
                            lp, lk, ep, dp, dr >>

gL2(self) == /\ pc[self] = "gL2"
             /\ IF ~IsKey(ekr[self])
                   THEN /\ rv' = [rv EXCEPT ![self] = ErrKey]
                        /\ pc' = [pc EXCEPT ![self] = Head(stack[self]).pc]
                        /\ ekr' = [ekr EXCEPT ![self] = Head(stack[self]).ekr]
                        /\ gk' = [gk EXCEPT ![self] = Head(stack[self]).gk]
                        /\ gp' = [gp EXCEPT ![self] = Head(stack[self]).gp]
                        /\ gcr' = [gcr EXCEPT ![self] = Head(stack[self]).gcr]
                        /\ stack' = [stack EXCEPT ![self] = Tail(stack[self])]
                   ELSE /\ pc' = [pc EXCEPT ![self] = "g1"]
                        /\ UNCHANGED << rv, stack, gk, gp, gcr, ekr >>
             /\ UNCHANGED << now, store, nextKid, issued, revAt, cfg, kc, open, 
                             op, ret, xc, cmd, nfaults, nrev, sft, viol, sk, 
                             ikr, skr, nsk, cp, csk, nik, cikr, ip, likr, 
                             lkind, lp, lk, ep, dp, dr >>

g1(self) == /\ pc[self] = "g1"
            /\ IF gk[self] = "SK"
                  THEN /\ pc' = [pc EXCEPT ![self] = "gK"]
                       /\ UNCHANGED << stack, gk, gp, gcr, ekr >>
                  ELSE /\ /\ gcr' = [gcr EXCEPT ![self] = ekr[self].parent]
                          /\ gk' = [gk EXCEPT ![self] = "SK"]
                          /\ gp' = [gp EXCEPT ![self] = "-"]
                          /\ stack' = [stack EXCEPT ![self] = << [ procedure |->  "GetOrLoad",
                                                                   pc        |->  "g2",
                                                                   ekr       |->  ekr[self],
                                                                   gk        |->  gk[self],
                                                                   gp        |->  gp[self],
                                                                   gcr       |->  gcr[self] ] >>
                                                               \o stack[self]]
                       /\ ekr' = [ekr EXCEPT ![self] = NoKey]
                       /\ pc' = [pc EXCEPT ![self] = "g0"]
            /\ UNCHANGED << now, store, nextKid, issued, revAt, cfg, kc, open, 
                            op, ret, rv, xc, cmd, nfaults, nrev, sft, viol, sk, 
                            ikr, skr, nsk, cp, csk, nik, cikr, ip, likr, lkind, 
                            lp, lk, ep, dp, dr >>

gK(self) == /\ pc[self] = "gK"
            /\ \E f \in FaultOpts(self, {"err"}):
                 /\ rv' = [rv EXCEPT ![self] = IF f = "none" THEN ekr[self] ELSE ErrKey]
                 /\ xc' = [xc EXCEPT ![self] = [n |-> 1 - xc[self].n, kind |-> "KmsDec", k |-> "SK", part |-> "-", created |-> (ekr[self].created), fault |-> f, res |-> 0]]
                 /\ IF f # "none"
                       THEN /\ nfaults' = nfaults + 1
                            /\ op' = [op EXCEPT ![self] = [op[self] EXCEPT !.faults = @ + 1, !.calls = @ + 1, !.sfault = @ \/ "KmsDec" = "Store"]]
                            /\ IF "KmsDec" = "Store"
                                  THEN /\ sft' = [sft EXCEPT ![self] = now]
                                  ELSE /\ TRUE
                                       /\ sft' = sft
                       ELSE /\ op' = [op EXCEPT ![self] = [op[self] EXCEPT !.calls = @ + 1]]
                            /\ UNCHANGED << nfaults, sft >>
            /\ pc' = [pc EXCEPT ![self] = "g3"]
            /\ UNCHANGED << now, store, nextKid, issued, revAt, cfg, kc, open, 
                            ret, cmd, nrev, viol, stack, gk, gp, gcr, ekr, sk, 
                            ikr, skr, nsk, cp, csk, nik, cikr, ip, likr, lkind, 
                            lp, lk, ep, dp, dr >>

g2(self) == /\ pc[self] = "g2"
            /\ IF ~IsKey(rv[self])
                  THEN /\ pc' = [pc EXCEPT ![self] = Head(stack[self]).pc]
                       /\ ekr' = [ekr EXCEPT ![self] = Head(stack[self]).ekr]
                       /\ gk' = [gk EXCEPT ![self] = Head(stack[self]).gk]
                       /\ gp' = [gp EXCEPT ![self] = Head(stack[self]).gp]
                       /\ gcr' = [gcr EXCEPT ![self] = Head(stack[self]).gcr]
                       /\ stack' = [stack EXCEPT ![self] = Tail(stack[self])]
                  ELSE /\ pc' = [pc EXCEPT ![self] = "g2b"]
                       /\ UNCHANGED << stack, gk, gp, gcr, ekr >>
            /\ UNCHANGED << now, store, nextKid, issued, revAt, cfg, kc, open, 
                            op, ret, rv, xc, cmd, nfaults, nrev, sft, viol, sk, 
                            ikr, skr, nsk, cp, csk, nik, cikr, ip, likr, lkind, 
                            lp, lk, ep, dp, dr >>

g2b(self) == /\ pc[self] = "g2b"
             /\ /\ ikr' = [ikr EXCEPT ![self] = ekr[self]]
                /\ sk' = [sk EXCEPT ![self] = rv[self]]
                /\ stack' = [stack EXCEPT ![self] = << [ procedure |->  "IKFromEKR",
                                                         pc        |->  "g3",
                                                         sk        |->  sk[self],
                                                         ikr       |->  ikr[self] ] >>
                                                     \o stack[self]]
             /\ pc' = [pc EXCEPT ![self] = "f0"]
             /\ UNCHANGED << now, store, nextKid, issued, revAt, cfg, kc, open, 
                             op, ret, rv, xc, cmd, nfaults, nrev, sft, viol, 
                             gk, gp, gcr, ekr, skr, nsk, cp, csk, nik, cikr, 
                             ip, likr, lkind, lp, lk, ep, dp, dr >>

g3(self) == /\ pc[self] = "g3"
            /\ IF IsKey(rv[self]) /\ Cached(self, gk[self])
                  THEN /\ LET m == LoadMerge(Cache(self, gk[self], gp[self]), Id(gk[self], gp[self]), gcr[self], rv[self], TRUE) IN
                            /\ kc' = [kc EXCEPT ![self][Scope(self, gk[self], gp[self])] = m.cache]
                            /\ rv' = [rv EXCEPT ![self] = m.key]
                  ELSE /\ TRUE
                       /\ UNCHANGED << kc, rv >>
            /\ pc' = [pc EXCEPT ![self] = Head(stack[self]).pc]
            /\ ekr' = [ekr EXCEPT ![self] = Head(stack[self]).ekr]
            /\ gk' = [gk EXCEPT ![self] = Head(stack[self]).gk]
            /\ gp' = [gp EXCEPT ![self] = Head(stack[self]).gp]
            /\ gcr' = [gcr EXCEPT ![self] = Head(stack[self]).gcr]
            /\ stack' = [stack EXCEPT ![self] = Tail(stack[self])]
            /\ UNCHANGED << now, store, nextKid, issued, revAt, cfg, open, op, 
                            ret, xc, cmd, nfaults, nrev, sft, viol, sk, ikr, 
                            skr, nsk, cp, csk, nik, cikr, ip, likr, lkind, lp, 
                            lk, ep, dp, dr >>

GetOrLoad(self) == g0(self) \/ gL(self) \/ gL2(self) \/ g1(self)
                      \/ gK(self) \/ g2(self) \/ g2b(self) \/ g3(self)

f0(self) == /\ pc[self] = "f0"
            /\ IF sk[self].created # ikr[self].parent
                  THEN /\ /\ gcr' = [gcr EXCEPT ![self] = ikr[self].parent]
                          /\ gk' = [gk EXCEPT ![self] = "SK"]
                          /\ gp' = [gp EXCEPT ![self] = "-"]
                          /\ stack' = [stack EXCEPT ![self] = << [ procedure |->  "GetOrLoad",
                                                                   pc        |->  "f1",
                                                                   ekr       |->  ekr[self],
                                                                   gk        |->  gk[self],
                                                                   gp        |->  gp[self],
                                                                   gcr       |->  gcr[self] ] >>
                                                               \o stack[self]]
                       /\ ekr' = [ekr EXCEPT ![self] = NoKey]
                       /\ pc' = [pc EXCEPT ![self] = "g0"]
                  ELSE /\ pc' = [pc EXCEPT ![self] = "f2"]
                       /\ UNCHANGED << stack, gk, gp, gcr, ekr >>
            /\ UNCHANGED << now, store, nextKid, issued, revAt, cfg, kc, open, 
                            op, ret, rv, xc, cmd, nfaults, nrev, sft, viol, sk, 
                            ikr, skr, nsk, cp, csk, nik, cikr, ip, likr, lkind, 
                            lp, lk, ep, dp, dr >>

f1(self) == /\ pc[self] = "f1"
            /\ IF ~IsKey(rv[self])
                  THEN /\ pc' = [pc EXCEPT ![self] = Head(stack[self]).pc]
                       /\ sk' = [sk EXCEPT ![self] = Head(stack[self]).sk]
                       /\ ikr' = [ikr EXCEPT ![self] = Head(stack[self]).ikr]
                       /\ stack' = [stack EXCEPT ![self] = Tail(stack[self])]
                  ELSE /\ sk' = [sk EXCEPT ![self] = rv[self]]
                       /\ pc' = [pc EXCEPT ![self] = "f2"]
                       /\ UNCHANGED << stack, ikr >>
            /\ UNCHANGED << now, store, nextKid, issued, revAt, cfg, kc, open, 
                            op, ret, rv, xc, cmd, nfaults, nrev, sft, viol, gk, 
                            gp, gcr, ekr, skr, nsk, cp, csk, nik, cikr, ip, 
                            likr, lkind, lp, lk, ep, dp, dr >>

f2(self) == /\ pc[self] = "f2"
            /\ rv' = [rv EXCEPT ![self] = IF sk[self].kid = ikr[self].pkid THEN ikr[self] ELSE ErrKey]
            /\ pc' = [pc EXCEPT ![self] = Head(stack[self]).pc]
            /\ sk' = [sk EXCEPT ![self] = Head(stack[self]).sk]
            /\ ikr' = [ikr EXCEPT ![self] = Head(stack[self]).ikr]
            /\ stack' = [stack EXCEPT ![self] = Tail(stack[self])]
            /\ UNCHANGED << now, store, nextKid, issued, revAt, cfg, kc, open, 
                            op, ret, xc, cmd, nfaults, nrev, sft, viol, gk, gp, 
                            gcr, ekr, skr, nsk, cp, csk, nik, cikr, ip, likr, 
                            lkind, lp, lk, ep, dp, dr >>

IKFromEKR(self) == f0(self) \/ f1(self) \/ f2(self)

s0(self) == /\ pc[self] = "s0"
            /\ \E f \in FaultOpts(self, {"err"}):
                 /\ skr' = [skr EXCEPT ![self] = IF f = "none" THEN MSLatest("SK", "-") ELSE ErrKey]
                 /\ xc' = [xc EXCEPT ![self] = [n |-> 1 - xc[self].n, kind |-> "LoadLatest", k |-> "SK", part |-> "-", created |-> 0, fault |-> f, res |-> (IF f = "none" THEN MSLatest("SK", "-").created ELSE -2)]]
                 /\ IF f # "none"
                       THEN /\ nfaults' = nfaults + 1
                            /\ op' = [op EXCEPT ![self] = [op[self] EXCEPT !.faults = @ + 1, !.calls = @ + 1, !.sfault = @ \/ "LoadLatest" = "Store"]]
                            /\ IF "LoadLatest" = "Store"
                                  THEN /\ sft' = [sft EXCEPT ![self] = now]
                                  ELSE /\ TRUE
                                       /\ sft' = sft
                       ELSE /\ op' = [op EXCEPT ![self] = [op[self] EXCEPT !.calls = @ + 1]]
                            /\ UNCHANGED << nfaults, sft >>
            /\ pc' = [pc EXCEPT ![self] = "s0b"]
            /\ UNCHANGED << now, store, nextKid, issued, revAt, cfg, kc, open, 
                            ret, rv, cmd, nrev, viol, stack, gk, gp, gcr, ekr, 
                            sk, ikr, nsk, cp, csk, nik, cikr, ip, likr, lkind, 
                            lp, lk, ep, dp, dr >>

s0b(self) == /\ pc[self] = "s0b"
             /\ IF skr[self].created = -2
                   THEN /\ rv' = [rv EXCEPT ![self] = ErrKey]
                        /\ pc' = [pc EXCEPT ![self] = Head(stack[self]).pc]
                        /\ skr' = [skr EXCEPT ![self] = Head(stack[self]).skr]
                        /\ nsk' = [nsk EXCEPT ![self] = Head(stack[self]).nsk]
                        /\ stack' = [stack EXCEPT ![self] = Tail(stack[self])]
                   ELSE /\ pc' = [pc EXCEPT ![self] = "s1"]
                        /\ UNCHANGED << rv, stack, skr, nsk >>
             /\ UNCHANGED << now, store, nextKid, issued, revAt, cfg, kc, open, 
                             op, ret, xc, cmd, nfaults, nrev, sft, viol, gk, 
                             gp, gcr, ekr, sk, ikr, cp, csk, nik, cikr, ip, 
                             likr, lkind, lp, lk, ep, dp, dr >>

s1(self) == /\ pc[self] = "s1"
            /\ IF IsKey(skr[self]) /\ ~Invalid(skr[self])
                  THEN /\ pc' = [pc EXCEPT ![self] = "sD"]
                  ELSE /\ pc' = [pc EXCEPT ![self] = "sE"]
            /\ UNCHANGED << now, store, nextKid, issued, revAt, cfg, kc, open, 
                            op, ret, rv, xc, cmd, nfaults, nrev, sft, viol, 
                            stack, gk, gp, gcr, ekr, sk, ikr, skr, nsk, cp, 
                            csk, nik, cikr, ip, likr, lkind, lp, lk, ep, dp, 
                            dr >>

sD(self) == /\ pc[self] = "sD"
            /\ \E f \in FaultOpts(self, {"err"}):
                 /\ rv' = [rv EXCEPT ![self] = IF f = "none" THEN skr[self] ELSE ErrKey]
                 /\ xc' = [xc EXCEPT ![self] = [n |-> 1 - xc[self].n, kind |-> "KmsDec", k |-> "SK", part |-> "-", created |-> (skr[self].created), fault |-> f, res |-> 0]]
                 /\ IF f # "none"
                       THEN /\ nfaults' = nfaults + 1
                            /\ op' = [op EXCEPT ![self] = [op[self] EXCEPT !.faults = @ + 1, !.calls = @ + 1, !.sfault = @ \/ "KmsDec" = "Store"]]
                            /\ IF "KmsDec" = "Store"
                                  THEN /\ sft' = [sft EXCEPT ![self] = now]
                                  ELSE /\ TRUE
                                       /\ sft' = sft
                       ELSE /\ op' = [op EXCEPT ![self] = [op[self] EXCEPT !.calls = @ + 1]]
                            /\ UNCHANGED << nfaults, sft >>
            /\ pc' = [pc EXCEPT ![self] = Head(stack[self]).pc]
            /\ skr' = [skr EXCEPT ![self] = Head(stack[self]).skr]
            /\ nsk' = [nsk EXCEPT ![self] = Head(stack[self]).nsk]
            /\ stack' = [stack EXCEPT ![self] = Tail(stack[self])]
            /\ UNCHANGED << now, store, nextKid, issued, revAt, cfg, kc, open, 
                            ret, cmd, nrev, viol, gk, gp, gcr, ekr, sk, ikr, 
                            cp, csk, nik, cikr, ip, likr, lkind, lp, lk, ep, 
                            dp, dr >>

sE(self) == /\ pc[self] = "sE"
            /\ nextKid <= MaxKids
            /\ \E f \in FaultOpts(self, {"err"}):
                 /\ nsk' = [nsk EXCEPT ![self] = [NoKey EXCEPT !.created = Stamp(now), !.kid = nextKid]]
                 /\ nextKid' = nextKid + 1
                 /\ xc' = [xc EXCEPT ![self] = [n |-> 1 - xc[self].n, kind |-> "KmsEnc", k |-> "SK", part |-> "-", created |-> (Stamp(now)), fault |-> f, res |-> 0]]
                 /\ IF f # "none"
                       THEN /\ nfaults' = nfaults + 1
                            /\ op' = [op EXCEPT ![self] = [op[self] EXCEPT !.faults = @ + 1, !.calls = @ + 1, !.sfault = @ \/ "KmsEnc" = "Store"]]
                            /\ IF "KmsEnc" = "Store"
                                  THEN /\ sft' = [sft EXCEPT ![self] = now]
                                  ELSE /\ TRUE
                                       /\ sft' = sft
                       ELSE /\ op' = [op EXCEPT ![self] = [op[self] EXCEPT !.calls = @ + 1]]
                            /\ UNCHANGED << nfaults, sft >>
                 /\ IF f # "none"
                       THEN /\ rv' = [rv EXCEPT ![self] = ErrKey]
                       ELSE /\ TRUE
                            /\ rv' = rv
            /\ pc' = [pc EXCEPT ![self] = "sE2"]
            /\ UNCHANGED << now, store, issued, revAt, cfg, kc, open, ret, cmd, 
                            nrev, viol, stack, gk, gp, gcr, ekr, sk, ikr, skr, 
                            cp, csk, nik, cikr, ip, likr, lkind, lp, lk, ep, 
                            dp, dr >>

sE2(self) == /\ pc[self] = "sE2"
             /\ IF xc[self].fault # "none"
                   THEN /\ pc' = [pc EXCEPT ![self] = Head(stack[self]).pc]
                        /\ skr' = [skr EXCEPT ![self] = Head(stack[self]).skr]
                        /\ nsk' = [nsk EXCEPT ![self] = Head(stack[self]).nsk]
                        /\ stack' = [stack EXCEPT ![self] = Tail(stack[self])]
                   ELSE /\ pc' = [pc EXCEPT ![self] = "sS"]
                        /\ UNCHANGED << stack, skr, nsk >>
             /\ UNCHANGED << now, store, nextKid, issued, revAt, cfg, kc, open, 
                             op, ret, rv, xc, cmd, nfaults, nrev, sft, viol, 
                             gk, gp, gcr, ekr, sk, ikr, cp, csk, nik, cikr, ip, 
                             likr, lkind, lp, lk, ep, dp, dr >>

sS(self) == /\ pc[self] = "sS"
            /\ \E f \in FaultOpts(self, {"notWritten", "writtenFalse"}):
                 /\ IF Absent("SK", "-", nsk[self].created) /\ f # "notWritten"
                       THEN /\ store' = (store \cup {[k |-> "SK", part |-> "-", created |-> nsk[self].created, kid |-> nsk[self].kid, parent |-> 0, pkid |-> 0, revoked |-> FALSE, at |-> op[self].start, sf |-> op[self].sfault]})
                       ELSE /\ TRUE
                            /\ store' = store
                 /\ xc' = [xc EXCEPT ![self] = [n |-> 1 - xc[self].n, kind |-> "Store", k |-> "SK", part |-> "-", created |-> (nsk[self].created), fault |-> f, res |-> (IF Absent("SK", "-", nsk[self].created) /\ f = "none" THEN 1 ELSE 0)]]
                 /\ IF f # "none"
                       THEN /\ nfaults' = nfaults + 1
                            /\ op' = [op EXCEPT ![self] = [op[self] EXCEPT !.faults = @ + 1, !.calls = @ + 1, !.sfault = @ \/ "Store" = "Store"]]
                            /\ IF "Store" = "Store"
                                  THEN /\ sft' = [sft EXCEPT ![self] = now]
                                  ELSE /\ TRUE
                                       /\ sft' = sft
                       ELSE /\ op' = [op EXCEPT ![self] = [op[self] EXCEPT !.calls = @ + 1]]
                            /\ UNCHANGED << nfaults, sft >>
            /\ pc' = [pc EXCEPT ![self] = "sS2"]
            /\ UNCHANGED << now, nextKid, issued, revAt, cfg, kc, open, ret, 
                            rv, cmd, nrev, viol, stack, gk, gp, gcr, ekr, sk, 
                            ikr, skr, nsk, cp, csk, nik, cikr, ip, likr, lkind, 
                            lp, lk, ep, dp, dr >>

sS2(self) == /\ pc[self] = "sS2"
             /\ IF xc[self].res = 1
                   THEN /\ rv' = [rv EXCEPT ![self] = nsk[self]]
                        /\ pc' = [pc EXCEPT ![self] = Head(stack[self]).pc]
                        /\ skr' = [skr EXCEPT ![self] = Head(stack[self]).skr]
                        /\ nsk' = [nsk EXCEPT ![self] = Head(stack[self]).nsk]
                        /\ stack' = [stack EXCEPT ![self] = Tail(stack[self])]
                   ELSE /\ pc' = [pc EXCEPT ![self] = "sR"]
                        /\ UNCHANGED << rv, stack, skr, nsk >>
             /\ UNCHANGED << now, store, nextKid, issued, revAt, cfg, kc, open, 
                             op, ret, xc, cmd, nfaults, nrev, sft, viol, gk, 
                             gp, gcr, ekr, sk, ikr, cp, csk, nik, cikr, ip, 
                             likr, lkind, lp, lk, ep, dp, dr >>

sR(self) == /\ pc[self] = "sR"
            /\ \E f \in FaultOpts(self, {"err"}):
                 /\ skr' = [skr EXCEPT ![self] = IF f = "none" THEN MSLatest("SK", "-") ELSE ErrKey]
                 /\ xc' = [xc EXCEPT ![self] = [n |-> 1 - xc[self].n, kind |-> "LoadLatest", k |-> "SK", part |-> "-", created |-> 0, fault |-> f, res |-> (IF f = "none" THEN MSLatest("SK", "-").created ELSE -2)]]
                 /\ IF f # "none"
                       THEN /\ nfaults' = nfaults + 1
                            /\ op' = [op EXCEPT ![self] = [op[self] EXCEPT !.faults = @ + 1, !.calls = @ + 1, !.sfault = @ \/ "LoadLatest" = "Store"]]
                            /\ IF "LoadLatest" = "Store"
                                  THEN /\ sft' = [sft EXCEPT ![self] = now]
                                  ELSE /\ TRUE
                                       /\ sft' = sft
                       ELSE /\ op' = [op EXCEPT ![self] = [op[self] EXCEPT !.calls = @ + 1]]
                            /\ UNCHANGED << nfaults, sft >>
            /\ pc' = [pc EXCEPT ![self] = "sR2"]
            /\ UNCHANGED << now, store, nextKid, issued, revAt, cfg, kc, open, 
                            ret, rv, cmd, nrev, viol, stack, gk, gp, gcr, ekr, 
                            sk, ikr, nsk, cp, csk, nik, cikr, ip, likr, lkind, 
                            lp, lk, ep, dp, dr >>

sR2(self) == /\ pc[self] = "sR2"
             /\ IF ~IsKey(skr[self])
                   THEN /\ rv' = [rv EXCEPT ![self] = ErrKey]
                        /\ pc' = [pc EXCEPT ![self] = Head(stack[self]).pc]
                        /\ skr' = [skr EXCEPT ![self] = Head(stack[self]).skr]
                        /\ nsk' = [nsk EXCEPT ![self] = Head(stack[self]).nsk]
                        /\ stack' = [stack EXCEPT ![self] = Tail(stack[self])]
                   ELSE /\ pc' = [pc EXCEPT ![self] = "sD2"]
                        /\ UNCHANGED << rv, stack, skr, nsk >>
             /\ UNCHANGED << now, store, nextKid, issued, revAt, cfg, kc, open, 
                             op, ret, xc, cmd, nfaults, nrev, sft, viol, gk, 
                             gp, gcr, ekr, sk, ikr, cp, csk, nik, cikr, ip, 
                             likr, lkind, lp, lk, ep, dp, dr >>

sD2(self) == /\ pc[self] = "sD2"
             /\ \E f \in FaultOpts(self, {"err"}):
                  /\ rv' = [rv EXCEPT ![self] = IF f = "none" THEN skr[self] ELSE ErrKey]
                  /\ xc' = [xc EXCEPT ![self] = [n |-> 1 - xc[self].n, kind |-> "KmsDec", k |-> "SK", part |-> "-", created |-> (skr[self].created), fault |-> f, res |-> 0]]
                  /\ IF f # "none"
                        THEN /\ nfaults' = nfaults + 1
                             /\ op' = [op EXCEPT ![self] = [op[self] EXCEPT !.faults = @ + 1, !.calls = @ + 1, !.sfault = @ \/ "KmsDec" = "Store"]]
                             /\ IF "KmsDec" = "Store"
                                   THEN /\ sft' = [sft EXCEPT ![self] = now]
                                   ELSE /\ TRUE
                                        /\ sft' = sft
                        ELSE /\ op' = [op EXCEPT ![self] = [op[self] EXCEPT !.calls = @ + 1]]
                             /\ UNCHANGED << nfaults, sft >>
             /\ pc' = [pc EXCEPT ![self] = Head(stack[self]).pc]
             /\ skr' = [skr EXCEPT ![self] = Head(stack[self]).skr]
             /\ nsk' = [nsk EXCEPT ![self] = Head(stack[self]).nsk]
             /\ stack' = [stack EXCEPT ![self] = Tail(stack[self])]
             /\ UNCHANGED << now, store, nextKid, issued, revAt, cfg, kc, open, 
                             ret, cmd, nrev, viol, gk, gp, gcr, ekr, sk, ikr, 
                             cp, csk, nik, cikr, ip, likr, lkind, lp, lk, ep, 
                             dp, dr >>

LoaderSK(self) == s0(self) \/ s0b(self) \/ s1(self) \/ sD(self) \/ sE(self)
                     \/ sE2(self) \/ sS(self) \/ sS2(self) \/ sR(self)
                     \/ sR2(self) \/ sD2(self)

c0(self) == /\ pc[self] = "c0"
            /\ /\ lkind' = [lkind EXCEPT ![self] = "SK"]
               /\ lp' = [lp EXCEPT ![self] = "-"]
               /\ stack' = [stack EXCEPT ![self] = << [ procedure |->  "Latest",
                                                        pc        |->  "c1",
                                                        lk        |->  lk[self],
                                                        lkind     |->  lkind[self],
                                                        lp        |->  lp[self] ] >>
                                                    \o stack[self]]
            /\ lk' = [lk EXCEPT ![self] = NoKey]
            /\ pc' = [pc EXCEPT ![self] = "l0"]
            /\ UNCHANGED << now, store, nextKid, issued, revAt, cfg, kc, open, 
                            op, ret, rv, xc, cmd, nfaults, nrev, sft, viol, gk, 
                            gp, gcr, ekr, sk, ikr, skr, nsk, cp, csk, nik, 
                            cikr, ip, likr, ep, dp, dr >>

c1(self) == /\ pc[self] = "c1"
            /\ IF ~IsKey(rv[self])
                  THEN /\ pc' = [pc EXCEPT ![self] = Head(stack[self]).pc]
                       /\ csk' = [csk EXCEPT ![self] = Head(stack[self]).csk]
                       /\ nik' = [nik EXCEPT ![self] = Head(stack[self]).nik]
                       /\ cikr' = [cikr EXCEPT ![self] = Head(stack[self]).cikr]
                       /\ cp' = [cp EXCEPT ![self] = Head(stack[self]).cp]
                       /\ stack' = [stack EXCEPT ![self] = Tail(stack[self])]
                  ELSE /\ pc' = [pc EXCEPT ![self] = "c2"]
                       /\ UNCHANGED << stack, cp, csk, nik, cikr >>
            /\ UNCHANGED << now, store, nextKid, issued, revAt, cfg, kc, open, 
                            op, ret, rv, xc, cmd, nfaults, nrev, sft, viol, gk, 
                            gp, gcr, ekr, sk, ikr, skr, nsk, ip, likr, lkind, 
                            lp, lk, ep, dp, dr >>

c2(self) == /\ pc[self] = "c2"
            /\ nextKid <= MaxKids
            /\ csk' = [csk EXCEPT ![self] = rv[self]]
            /\ nik' = [nik EXCEPT ![self] = [NoKey EXCEPT !.created = Stamp(now), !.kid = nextKid, !.parent = rv[self].created, !.pkid = rv[self].kid]]
            /\ nextKid' = nextKid + 1
            /\ pc' = [pc EXCEPT ![self] = "cS"]
            /\ UNCHANGED << now, store, issued, revAt, cfg, kc, open, op, ret, 
                            rv, xc, cmd, nfaults, nrev, sft, viol, stack, gk, 
                            gp, gcr, ekr, sk, ikr, skr, nsk, cp, cikr, ip, 
                            likr, lkind, lp, lk, ep, dp, dr >>

cS(self) == /\ pc[self] = "cS"
            /\ \E f \in FaultOpts(self, {"notWritten", "writtenFalse"}):
                 /\ IF Absent("IK", cp[self], nik[self].created) /\ f # "notWritten"
                       THEN /\ store' = (store \cup {[k |-> "IK", part |-> cp[self], created |-> nik[self].created, kid |-> nik[self].kid, parent |-> nik[self].parent, pkid |-> nik[self].pkid, revoked |-> FALSE, at |-> op[self].start, sf |-> op[self].sfault]})
                       ELSE /\ TRUE
                            /\ store' = store
                 /\ xc' = [xc EXCEPT ![self] = [n |-> 1 - xc[self].n, kind |-> "Store", k |-> "IK", part |-> cp[self], created |-> (nik[self].created), fault |-> f, res |-> (IF Absent("IK", cp[self], nik[self].created) /\ f = "none" THEN 1 ELSE 0)]]
                 /\ IF f # "none"
                       THEN /\ nfaults' = nfaults + 1
                            /\ op' = [op EXCEPT ![self] = [op[self] EXCEPT !.faults = @ + 1, !.calls = @ + 1, !.sfault = @ \/ "Store" = "Store"]]
                            /\ IF "Store" = "Store"
                                  THEN /\ sft' = [sft EXCEPT ![self] = now]
                                  ELSE /\ TRUE
                                       /\ sft' = sft
                       ELSE /\ op' = [op EXCEPT ![self] = [op[self] EXCEPT !.calls = @ + 1]]
                            /\ UNCHANGED << nfaults, sft >>
            /\ pc' = [pc EXCEPT ![self] = "cS2"]
            /\ UNCHANGED << now, nextKid, issued, revAt, cfg, kc, open, ret, 
                            rv, cmd, nrev, viol, stack, gk, gp, gcr, ekr, sk, 
                            ikr, skr, nsk, cp, csk, nik, cikr, ip, likr, lkind, 
                            lp, lk, ep, dp, dr >>

cS2(self) == /\ pc[self] = "cS2"
             /\ IF xc[self].res = 1
                   THEN /\ rv' = [rv EXCEPT ![self] = nik[self]]
                        /\ pc' = [pc EXCEPT ![self] = Head(stack[self]).pc]
                        /\ csk' = [csk EXCEPT ![self] = Head(stack[self]).csk]
                        /\ nik' = [nik EXCEPT ![self] = Head(stack[self]).nik]
                        /\ cikr' = [cikr EXCEPT ![self] = Head(stack[self]).cikr]
                        /\ cp' = [cp EXCEPT ![self] = Head(stack[self]).cp]
                        /\ stack' = [stack EXCEPT ![self] = Tail(stack[self])]
                   ELSE /\ pc' = [pc EXCEPT ![self] = "cR"]
                        /\ UNCHANGED << rv, stack, cp, csk, nik, cikr >>
             /\ UNCHANGED << now, store, nextKid, issued, revAt, cfg, kc, open, 
                             op, ret, xc, cmd, nfaults, nrev, sft, viol, gk, 
                             gp, gcr, ekr, sk, ikr, skr, nsk, ip, likr, lkind, 
                             lp, lk, ep, dp, dr >>

cR(self) == /\ pc[self] = "cR"
            /\ \E f \in FaultOpts(self, {"err"}):
                 /\ cikr' = [cikr EXCEPT ![self] = IF f = "none" THEN MSLatest("IK", cp[self]) ELSE ErrKey]
                 /\ xc' = [xc EXCEPT ![self] = [n |-> 1 - xc[self].n, kind |-> "LoadLatest", k |-> "IK", part |-> cp[self], created |-> 0, fault |-> f, res |-> (IF f = "none" THEN MSLatest("IK", cp[self]).created ELSE -2)]]
                 /\ IF f # "none"
                       THEN /\ nfaults' = nfaults + 1
                            /\ op' = [op EXCEPT ![self] = [op[self] EXCEPT !.faults = @ + 1, !.calls = @ + 1, !.sfault = @ \/ "LoadLatest" = "Store"]]
                            /\ IF "LoadLatest" = "Store"
                                  THEN /\ sft' = [sft EXCEPT ![self] = now]
                                  ELSE /\ TRUE
                                       /\ sft' = sft
                       ELSE /\ op' = [op EXCEPT ![self] = [op[self] EXCEPT !.calls = @ + 1]]
                            /\ UNCHANGED << nfaults, sft >>
            /\ pc' = [pc EXCEPT ![self] = "cR2"]
            /\ UNCHANGED << now, store, nextKid, issued, revAt, cfg, kc, open, 
                            ret, rv, cmd, nrev, viol, stack, gk, gp, gcr, ekr, 
                            sk, ikr, skr, nsk, cp, csk, nik, ip, likr, lkind, 
                            lp, lk, ep, dp, dr >>

cR2(self) == /\ pc[self] = "cR2"
             /\ IF ~IsKey(cikr[self])
                   THEN /\ rv' = [rv EXCEPT ![self] = ErrKey]
                        /\ pc' = [pc EXCEPT ![self] = Head(stack[self]).pc]
                        /\ csk' = [csk EXCEPT ![self] = Head(stack[self]).csk]
                        /\ nik' = [nik EXCEPT ![self] = Head(stack[self]).nik]
                        /\ cikr' = [cikr EXCEPT ![self] = Head(stack[self]).cikr]
                        /\ cp' = [cp EXCEPT ![self] = Head(stack[self]).cp]
                        /\ stack' = [stack EXCEPT ![self] = Tail(stack[self])]
                   ELSE /\ pc' = [pc EXCEPT ![self] = "c3"]
                        /\ UNCHANGED << rv, stack, cp, csk, nik, cikr >>
             /\ UNCHANGED << now, store, nextKid, issued, revAt, cfg, kc, open, 
                             op, ret, xc, cmd, nfaults, nrev, sft, viol, gk, 
                             gp, gcr, ekr, sk, ikr, skr, nsk, ip, likr, lkind, 
                             lp, lk, ep, dp, dr >>

c3(self) == /\ pc[self] = "c3"
            /\ /\ cikr' = [cikr EXCEPT ![self] = Head(stack[self]).cikr]
               /\ csk' = [csk EXCEPT ![self] = Head(stack[self]).csk]
               /\ ikr' = [ikr EXCEPT ![self] = cikr[self]]
               /\ nik' = [nik EXCEPT ![self] = Head(stack[self]).nik]
               /\ sk' = [sk EXCEPT ![self] = csk[self]]
               /\ stack' = [stack EXCEPT ![self] = << [ procedure |->  "IKFromEKR",
                                                        pc        |->  Head(stack[self]).pc,
                                                        sk        |->  sk[self],
                                                        ikr       |->  ikr[self] ] >>
                                                    \o Tail(stack[self])]
            /\ pc' = [pc EXCEPT ![self] = "f0"]
            /\ UNCHANGED << now, store, nextKid, issued, revAt, cfg, kc, open, 
                            op, ret, rv, xc, cmd, nfaults, nrev, sft, viol, gk, 
                            gp, gcr, ekr, skr, nsk, cp, ip, likr, lkind, lp, 
                            lk, ep, dp, dr >>

CreateIK(self) == c0(self) \/ c1(self) \/ c2(self) \/ cS(self) \/ cS2(self)
                     \/ cR(self) \/ cR2(self) \/ c3(self)

i0(self) == /\ pc[self] = "i0"
            /\ \E f \in FaultOpts(self, {"err"}):
                 /\ likr' = [likr EXCEPT ![self] = IF f = "none" THEN MSLatest("IK", ip[self]) ELSE ErrKey]
                 /\ xc' = [xc EXCEPT ![self] = [n |-> 1 - xc[self].n, kind |-> "LoadLatest", k |-> "IK", part |-> ip[self], created |-> 0, fault |-> f, res |-> (IF f = "none" THEN MSLatest("IK", ip[self]).created ELSE -2)]]
                 /\ IF f # "none"
                       THEN /\ nfaults' = nfaults + 1
                            /\ op' = [op EXCEPT ![self] = [op[self] EXCEPT !.faults = @ + 1, !.calls = @ + 1, !.sfault = @ \/ "LoadLatest" = "Store"]]
                            /\ IF "LoadLatest" = "Store"
                                  THEN /\ sft' = [sft EXCEPT ![self] = now]
                                  ELSE /\ TRUE
                                       /\ sft' = sft
                       ELSE /\ op' = [op EXCEPT ![self] = [op[self] EXCEPT !.calls = @ + 1]]
                            /\ UNCHANGED << nfaults, sft >>
            /\ pc' = [pc EXCEPT ![self] = "i0b"]
            /\ UNCHANGED << now, store, nextKid, issued, revAt, cfg, kc, open, 
                            ret, rv, cmd, nrev, viol, stack, gk, gp, gcr, ekr, 
                            sk, ikr, skr, nsk, cp, csk, nik, cikr, ip, lkind, 
                            lp, lk, ep, dp, dr >>

i0b(self) == /\ pc[self] = "i0b"
             /\ IF likr[self].created = -2
                   THEN /\ rv' = [rv EXCEPT ![self] = ErrKey]
                        /\ pc' = [pc EXCEPT ![self] = Head(stack[self]).pc]
                        /\ likr' = [likr EXCEPT ![self] = Head(stack[self]).likr]
                        /\ ip' = [ip EXCEPT ![self] = Head(stack[self]).ip]
                        /\ stack' = [stack EXCEPT ![self] = Tail(stack[self])]
                   ELSE /\ pc' = [pc EXCEPT ![self] = "i1"]
                        /\ UNCHANGED << rv, stack, ip, likr >>
             /\ UNCHANGED << now, store, nextKid, issued, revAt, cfg, kc, open, 
                             op, ret, xc, cmd, nfaults, nrev, sft, viol, gk, 
                             gp, gcr, ekr, sk, ikr, skr, nsk, cp, csk, nik, 
                             cikr, lkind, lp, lk, ep, dp, dr >>

i1(self) == /\ pc[self] = "i1"
            /\ IF ~IsKey(likr[self]) \/ Invalid(likr[self])
                  THEN /\ /\ cp' = [cp EXCEPT ![self] = ip[self]]
                          /\ likr' = [likr EXCEPT ![self] = Head(stack[self]).likr]
                          /\ stack' = [stack EXCEPT ![self] = << [ procedure |->  "CreateIK",
                                                                   pc        |->  Head(stack[self]).pc,
                                                                   csk       |->  csk[self],
                                                                   nik       |->  nik[self],
                                                                   cikr      |->  cikr[self],
                                                                   cp        |->  cp[self] ] >>
                                                               \o Tail(stack[self])]
                       /\ csk' = [csk EXCEPT ![self] = NoKey]
                       /\ nik' = [nik EXCEPT ![self] = NoKey]
                       /\ cikr' = [cikr EXCEPT ![self] = NoKey]
                       /\ pc' = [pc EXCEPT ![self] = "c0"]
                  ELSE /\ pc' = [pc EXCEPT ![self] = "i2"]
                       /\ UNCHANGED << stack, cp, csk, nik, cikr, likr >>
            /\ UNCHANGED << now, store, nextKid, issued, revAt, cfg, kc, open, 
                            op, ret, rv, xc, cmd, nfaults, nrev, sft, viol, gk, 
                            gp, gcr, ekr, sk, ikr, skr, nsk, ip, lkind, lp, lk, 
                            ep, dp, dr >>

i2(self) == /\ pc[self] = "i2"
            /\ /\ gcr' = [gcr EXCEPT ![self] = likr[self].parent]
               /\ gk' = [gk EXCEPT ![self] = "SK"]
               /\ gp' = [gp EXCEPT ![self] = "-"]
               /\ stack' = [stack EXCEPT ![self] = << [ procedure |->  "GetOrLoad",
                                                        pc        |->  "i3",
                                                        ekr       |->  ekr[self],
                                                        gk        |->  gk[self],
                                                        gp        |->  gp[self],
                                                        gcr       |->  gcr[self] ] >>
                                                    \o stack[self]]
            /\ ekr' = [ekr EXCEPT ![self] = NoKey]
            /\ pc' = [pc EXCEPT ![self] = "g0"]
            /\ UNCHANGED << now, store, nextKid, issued, revAt, cfg, kc, open, 
                            op, ret, rv, xc, cmd, nfaults, nrev, sft, viol, sk, 
                            ikr, skr, nsk, cp, csk, nik, cikr, ip, likr, lkind, 
                            lp, lk, ep, dp, dr >>

i3(self) == /\ pc[self] = "i3"
            /\ IF ~IsKey(rv[self]) \/ Invalid(rv[self])
                  THEN /\ /\ cp' = [cp EXCEPT ![self] = ip[self]]
                          /\ likr' = [likr EXCEPT ![self] = Head(stack[self]).likr]
                          /\ stack' = [stack EXCEPT ![self] = << [ procedure |->  "CreateIK",
                                                                   pc        |->  Head(stack[self]).pc,
                                                                   csk       |->  csk[self],
                                                                   nik       |->  nik[self],
                                                                   cikr      |->  cikr[self],
                                                                   cp        |->  cp[self] ] >>
                                                               \o Tail(stack[self])]
                       /\ csk' = [csk EXCEPT ![self] = NoKey]
                       /\ nik' = [nik EXCEPT ![self] = NoKey]
                       /\ cikr' = [cikr EXCEPT ![self] = NoKey]
                       /\ pc' = [pc EXCEPT ![self] = "c0"]
                  ELSE /\ pc' = [pc EXCEPT ![self] = "i4"]
                       /\ UNCHANGED << stack, cp, csk, nik, cikr, likr >>
            /\ UNCHANGED << now, store, nextKid, issued, revAt, cfg, kc, open, 
                            op, ret, rv, xc, cmd, nfaults, nrev, sft, viol, gk, 
                            gp, gcr, ekr, sk, ikr, skr, nsk, ip, lkind, lp, lk, 
                            ep, dp, dr >>

i4(self) == /\ pc[self] = "i4"
            /\ /\ ikr' = [ikr EXCEPT ![self] = likr[self]]
               /\ sk' = [sk EXCEPT ![self] = rv[self]]
               /\ stack' = [stack EXCEPT ![self] = << [ procedure |->  "IKFromEKR",
                                                        pc        |->  "i5",
                                                        sk        |->  sk[self],
                                                        ikr       |->  ikr[self] ] >>
                                                    \o stack[self]]
            /\ pc' = [pc EXCEPT ![self] = "f0"]
            /\ UNCHANGED << now, store, nextKid, issued, revAt, cfg, kc, open, 
                            op, ret, rv, xc, cmd, nfaults, nrev, sft, viol, gk, 
                            gp, gcr, ekr, skr, nsk, cp, csk, nik, cikr, ip, 
                            likr, lkind, lp, lk, ep, dp, dr >>

i5(self) == /\ pc[self] = "i5"
            /\ IF ~IsKey(rv[self])
                  THEN /\ /\ cp' = [cp EXCEPT ![self] = ip[self]]
                          /\ likr' = [likr EXCEPT ![self] = Head(stack[self]).likr]
                          /\ stack' = [stack EXCEPT ![self] = << [ procedure |->  "CreateIK",
                                                                   pc        |->  Head(stack[self]).pc,
                                                                   csk       |->  csk[self],
                                                                   nik       |->  nik[self],
                                                                   cikr      |->  cikr[self],
                                                                   cp        |->  cp[self] ] >>
                                                               \o Tail(stack[self])]
                       /\ csk' = [csk EXCEPT ![self] = NoKey]
                       /\ nik' = [nik EXCEPT ![self] = NoKey]
                       /\ cikr' = [cikr EXCEPT ![self] = NoKey]
                       /\ pc' = [pc EXCEPT ![self] = "c0"]
                  ELSE /\ pc' = [pc EXCEPT ![self] = "i6"]
                       /\ UNCHANGED << stack, cp, csk, nik, cikr, likr >>
            /\ UNCHANGED << now, store, nextKid, issued, revAt, cfg, kc, open, 
                            op, ret, rv, xc, cmd, nfaults, nrev, sft, viol, gk, 
                            gp, gcr, ekr, sk, ikr, skr, nsk, ip, lkind, lp, lk, 
                            ep, dp, dr >>

i6(self) == /\ pc[self] = "i6"
            /\ pc' = [pc EXCEPT ![self] = Head(stack[self]).pc]
            /\ likr' = [likr EXCEPT ![self] = Head(stack[self]).likr]
            /\ ip' = [ip EXCEPT ![self] = Head(stack[self]).ip]
            /\ stack' = [stack EXCEPT ![self] = Tail(stack[self])]
            /\ UNCHANGED << now, store, nextKid, issued, revAt, cfg, kc, open, 
                            op, ret, rv, xc, cmd, nfaults, nrev, sft, viol, gk, 
                            gp, gcr, ekr, sk, ikr, skr, nsk, cp, csk, nik, 
                            cikr, lkind, lp, lk, ep, dp, dr >>

LoaderIK(self) == i0(self) \/ i0b(self) \/ i1(self) \/ i2(self) \/ i3(self)
                     \/ i4(self) \/ i5(self) \/ i6(self)

l0(self) == /\ pc[self] = "l0"
            /\ IF FreshHit(self, lkind[self], lp[self], 0)
                  THEN /\ lk' = [lk EXCEPT ![self] = Rd(self, lkind[self], lp[self], 0)]
                       /\ pc' = [pc EXCEPT ![self] = "lInv"]
                  ELSE /\ pc' = [pc EXCEPT ![self] = "l1"]
                       /\ lk' = lk
            /\ UNCHANGED << now, store, nextKid, issued, revAt, cfg, kc, open, 
                            op, ret, rv, xc, cmd, nfaults, nrev, sft, viol, 
                            stack, gk, gp, gcr, ekr, sk, ikr, skr, nsk, cp, 
                            csk, nik, cikr, ip, likr, lkind, lp, ep, dp, dr >>

l1(self) == /\ pc[self] = "l1"
            /\ IF lkind[self] = "SK"
                  THEN /\ stack' = [stack EXCEPT ![self] = << [ procedure |->  "LoaderSK",
                                                                pc        |->  "l2",
                                                                skr       |->  skr[self],
                                                                nsk       |->  nsk[self] ] >>
                                                            \o stack[self]]
                       /\ skr' = [skr EXCEPT ![self] = NoKey]
                       /\ nsk' = [nsk EXCEPT ![self] = NoKey]
                       /\ pc' = [pc EXCEPT ![self] = "s0"]
                       /\ UNCHANGED << ip, likr >>
                  ELSE /\ /\ ip' = [ip EXCEPT ![self] = lp[self]]
                          /\ stack' = [stack EXCEPT ![self] = << [ procedure |->  "LoaderIK",
                                                                   pc        |->  "l2",
                                                                   likr      |->  likr[self],
                                                                   ip        |->  ip[self] ] >>
                                                               \o stack[self]]
                       /\ likr' = [likr EXCEPT ![self] = NoKey]
                       /\ pc' = [pc EXCEPT ![self] = "i0"]
                       /\ UNCHANGED << skr, nsk >>
            /\ UNCHANGED << now, store, nextKid, issued, revAt, cfg, kc, open, 
                            op, ret, rv, xc, cmd, nfaults, nrev, sft, viol, gk, 
                            gp, gcr, ekr, sk, ikr, cp, csk, nik, cikr, lkind, 
                            lp, lk, ep, dp, dr >>

l2(self) == /\ pc[self] = "l2"
            /\ IF ~IsKey(rv[self]) \/ ~Cached(self, lkind[self])
                  THEN /\ pc' = [pc EXCEPT ![self] = Head(stack[self]).pc]
                       /\ lk' = [lk EXCEPT ![self] = Head(stack[self]).lk]
                       /\ lkind' = [lkind EXCEPT ![self] = Head(stack[self]).lkind]
                       /\ lp' = [lp EXCEPT ![self] = Head(stack[self]).lp]
                       /\ stack' = [stack EXCEPT ![self] = Tail(stack[self])]
                  ELSE /\ pc' = [pc EXCEPT ![self] = "l3"]
                       /\ UNCHANGED << stack, lkind, lp, lk >>
            /\ UNCHANGED << now, store, nextKid, issued, revAt, cfg, kc, open, 
                            op, ret, rv, xc, cmd, nfaults, nrev, sft, viol, gk, 
                            gp, gcr, ekr, sk, ikr, skr, nsk, cp, csk, nik, 
                            cikr, ip, likr, ep, dp, dr >>

l3(self) == /\ pc[self] = "l3"
            /\ LET m == LoadMerge(Cache(self, lkind[self], lp[self]), Id(lkind[self], lp[self]), 0, rv[self], FALSE) IN
                 /\ kc' = [kc EXCEPT ![self][Scope(self, lkind[self], lp[self])] = m.cache]
                 /\ lk' = [lk EXCEPT ![self] = m.key]
            /\ pc' = [pc EXCEPT ![self] = "lInv"]
            /\ UNCHANGED << now, store, nextKid, issued, revAt, cfg, open, op, 
                            ret, rv, xc, cmd, nfaults, nrev, sft, viol, stack, 
                            gk, gp, gcr, ekr, sk, ikr, skr, nsk, cp, csk, nik, 
                            cikr, ip, likr, lkind, lp, ep, dp, dr >>

lInv(self) == /\ pc[self] = "lInv"
              /\ IF ~Invalid(lk[self])
                    THEN /\ rv' = [rv EXCEPT ![self] = lk[self]]
                         /\ pc' = [pc EXCEPT ![self] = Head(stack[self]).pc]
                         /\ lk' = [lk EXCEPT ![self] = Head(stack[self]).lk]
                         /\ lkind' = [lkind EXCEPT ![self] = Head(stack[self]).lkind]
                         /\ lp' = [lp EXCEPT ![self] = Head(stack[self]).lp]
                         /\ stack' = [stack EXCEPT ![self] = Tail(stack[self])]
                    ELSE /\ pc' = [pc EXCEPT ![self] = "l4"]
                         /\ UNCHANGED << rv, stack, lkind, lp, lk >>
              /\ UNCHANGED << now, store, nextKid, issued, revAt, cfg, kc, 
                              open, op, ret, xc, cmd, nfaults, nrev, sft, viol, 
                              gk, gp, gcr, ekr, sk, ikr, skr, nsk, cp, csk, 
                              nik, cikr, ip, likr, ep, dp, dr >>

l4(self) == /\ pc[self] = "l4"
            /\ IF lkind[self] = "SK"
                  THEN /\ stack' = [stack EXCEPT ![self] = << [ procedure |->  "LoaderSK",
                                                                pc        |->  "l5",
                                                                skr       |->  skr[self],
                                                                nsk       |->  nsk[self] ] >>
                                                            \o stack[self]]
                       /\ skr' = [skr EXCEPT ![self] = NoKey]
                       /\ nsk' = [nsk EXCEPT ![self] = NoKey]
                       /\ pc' = [pc EXCEPT ![self] = "s0"]
                       /\ UNCHANGED << ip, likr >>
                  ELSE /\ /\ ip' = [ip EXCEPT ![self] = lp[self]]
                          /\ stack' = [stack EXCEPT ![self] = << [ procedure |->  "LoaderIK",
                                                                   pc        |->  "l5",
                                                                   likr      |->  likr[self],
                                                                   ip        |->  ip[self] ] >>
                                                               \o stack[self]]
                       /\ likr' = [likr EXCEPT ![self] = NoKey]
                       /\ pc' = [pc EXCEPT ![self] = "i0"]
                       /\ UNCHANGED << skr, nsk >>
            /\ UNCHANGED << now, store, nextKid, issued, revAt, cfg, kc, open, 
                            op, ret, rv, xc, cmd, nfaults, nrev, sft, viol, gk, 
                            gp, gcr, ekr, sk, ikr, cp, csk, nik, cikr, lkind, 
                            lp, lk, ep, dp, dr >>

l5(self) == /\ pc[self] = "l5"
            /\ IF IsKey(rv[self])
                  THEN /\ LET e == [rv[self] EXCEPT !.loadedAt = now, !.dref = FALSE] IN
                            /\ kc' = [kc EXCEPT ![self][Scope(self, lkind[self], lp[self])] = CWrite(Cache(self, lkind[self], lp[self]), Id(lkind[self], lp[self]), e.created, e)]
                            /\ rv' = [rv EXCEPT ![self] = e]
                  ELSE /\ TRUE
                       /\ UNCHANGED << kc, rv >>
            /\ pc' = [pc EXCEPT ![self] = Head(stack[self]).pc]
            /\ lk' = [lk EXCEPT ![self] = Head(stack[self]).lk]
            /\ lkind' = [lkind EXCEPT ![self] = Head(stack[self]).lkind]
            /\ lp' = [lp EXCEPT ![self] = Head(stack[self]).lp]
            /\ stack' = [stack EXCEPT ![self] = Tail(stack[self])]
            /\ UNCHANGED << now, store, nextKid, issued, revAt, cfg, open, op, 
                            ret, xc, cmd, nfaults, nrev, sft, viol, gk, gp, 
                            gcr, ekr, sk, ikr, skr, nsk, cp, csk, nik, cikr, 
                            ip, likr, ep, dp, dr >>

Latest(self) == l0(self) \/ l1(self) \/ l2(self) \/ l3(self) \/ lInv(self)
                   \/ l4(self) \/ l5(self)

e0(self) == /\ pc[self] = "e0"
            /\ /\ lkind' = [lkind EXCEPT ![self] = "IK"]
               /\ lp' = [lp EXCEPT ![self] = ep[self]]
               /\ stack' = [stack EXCEPT ![self] = << [ procedure |->  "Latest",
                                                        pc        |->  "e1",
                                                        lk        |->  lk[self],
                                                        lkind     |->  lkind[self],
                                                        lp        |->  lp[self] ] >>
                                                    \o stack[self]]
            /\ lk' = [lk EXCEPT ![self] = NoKey]
            /\ pc' = [pc EXCEPT ![self] = "l0"]
            /\ UNCHANGED << now, store, nextKid, issued, revAt, cfg, kc, open, 
                            op, ret, rv, xc, cmd, nfaults, nrev, sft, viol, gk, 
                            gp, gcr, ekr, sk, ikr, skr, nsk, cp, csk, nik, 
                            cikr, ip, likr, ep, dp, dr >>

e1(self) == /\ pc[self] = "e1"
            /\ LET k == rv[self] IN
                 LET o == op[self] IN
                   LET d == [part |-> ep[self], ikCreated |-> rv[self].created, ikKid |-> rv[self].kid] IN
                     /\ IF IsKey(k) /\ (d \in issued \/ Cardinality(issued) < MaxRecs)
                           THEN /\ issued' = (issued \cup {d})
                           ELSE /\ TRUE
                                /\ UNCHANGED issued
                     /\ ret' = [ret EXCEPT ![self] = [n |-> 1 - ret[self].n, kind |-> "Enc", ok |-> IsKey(k), part |-> ep[self], rec |-> d,
                                                      faults |-> o.faults, calls |-> o.calls, start |-> o.start]]
                     /\ viol' = (viol \cup EncViolations(k, o, ep[self], sft[self]))
            /\ op' = [op EXCEPT ![self] = NoOp]
            /\ pc' = [pc EXCEPT ![self] = Head(stack[self]).pc]
            /\ ep' = [ep EXCEPT ![self] = Head(stack[self]).ep]
            /\ stack' = [stack EXCEPT ![self] = Tail(stack[self])]
            /\ UNCHANGED << now, store, nextKid, revAt, cfg, kc, open, rv, xc, 
                            cmd, nfaults, nrev, sft, gk, gp, gcr, ekr, sk, ikr, 
                            skr, nsk, cp, csk, nik, cikr, ip, likr, lkind, lp, 
                            lk, dp, dr >>

Encrypt(self) == e0(self) \/ e1(self)

d0(self) == /\ pc[self] = "d0"
            /\ IF dr[self].part # dp[self]
                  THEN /\ rv' = [rv EXCEPT ![self] = ErrKey]
                       /\ pc' = [pc EXCEPT ![self] = "d1"]
                  ELSE /\ pc' = [pc EXCEPT ![self] = "d0b"]
                       /\ rv' = rv
            /\ UNCHANGED << now, store, nextKid, issued, revAt, cfg, kc, open, 
                            op, ret, xc, cmd, nfaults, nrev, sft, viol, stack, 
                            gk, gp, gcr, ekr, sk, ikr, skr, nsk, cp, csk, nik, 
                            cikr, ip, likr, lkind, lp, lk, ep, dp, dr >>

d0b(self) == /\ pc[self] = "d0b"
             /\ /\ gcr' = [gcr EXCEPT ![self] = dr[self].ikCreated]
                /\ gk' = [gk EXCEPT ![self] = "IK"]
                /\ gp' = [gp EXCEPT ![self] = dp[self]]
                /\ stack' = [stack EXCEPT ![self] = << [ procedure |->  "GetOrLoad",
                                                         pc        |->  "d1",
                                                         ekr       |->  ekr[self],
                                                         gk        |->  gk[self],
                                                         gp        |->  gp[self],
                                                         gcr       |->  gcr[self] ] >>
                                                     \o stack[self]]
             /\ ekr' = [ekr EXCEPT ![self] = NoKey]
             /\ pc' = [pc EXCEPT ![self] = "g0"]
             /\ UNCHANGED << now, store, nextKid, issued, revAt, cfg, kc, open, 
                             op, ret, rv, xc, cmd, nfaults, nrev, sft, viol, 
                             sk, ikr, skr, nsk, cp, csk, nik, cikr, ip, likr, 
                             lkind, lp, lk, ep, dp, dr >>

d1(self) == /\ pc[self] = "d1"
            /\ LET ok == IsKey(rv[self]) /\ rv[self].kid = dr[self].ikKid IN
                 LET o == op[self] IN
                   /\ ret' = [ret EXCEPT ![self] = [n |-> 1 - ret[self].n, kind |-> "Dec", ok |-> ok, part |-> dp[self], rec |-> dr[self],
                                                    faults |-> o.faults, calls |-> o.calls, start |-> o.start]]
                   /\ viol' = (viol \cup DecViolations(ok, o, dp[self], dr[self]))
            /\ op' = [op EXCEPT ![self] = NoOp]
            /\ pc' = [pc EXCEPT ![self] = Head(stack[self]).pc]
            /\ dp' = [dp EXCEPT ![self] = Head(stack[self]).dp]
            /\ dr' = [dr EXCEPT ![self] = Head(stack[self]).dr]
            /\ stack' = [stack EXCEPT ![self] = Tail(stack[self])]
            /\ UNCHANGED << now, store, nextKid, issued, revAt, cfg, kc, open, 
                            rv, xc, cmd, nfaults, nrev, sft, gk, gp, gcr, ekr, 
                            sk, ikr, skr, nsk, cp, csk, nik, cikr, ip, likr, 
                            lkind, lp, lk, ep >>

Decrypt(self) == d0(self) \/ d0b(self) \/ d1(self)

idle(self) == /\ pc[self] = "idle"
              /\ \/ /\ "Enc" \in OpKinds
                    /\ \E pt \in Parts:
                         /\ op' = [op EXCEPT ![self] = [NoOp EXCEPT !.kind = "Enc", !.part = pt, !.start = now,
                                                            !.rec = IF ~MidOpTicks /\ FreshHit(self, "IK", pt, 0) /\ ~Invalid(Rd(self, "IK", pt, 0)) THEN 1 ELSE 0]]
                         /\ cmd' = [NoCmd EXCEPT !.n = 1 - cmd.n, !.cmd = "Enc", !.p = self, !.part = pt]
                         /\ open' = [open EXCEPT ![self] = open[self] \cup {pt}]
                         /\ /\ ep' = [ep EXCEPT ![self] = pt]
                            /\ stack' = [stack EXCEPT ![self] = << [ procedure |->  "Encrypt",
                                                                     pc        |->  "idle",
                                                                     ep        |->  ep[self] ] >>
                                                                 \o stack[self]]
                         /\ pc' = [pc EXCEPT ![self] = "e0"]
                    /\ UNCHANGED <<kc, dp, dr>>
                 \/ /\ "Dec" \in OpKinds
                    /\ \E pt \in Parts:
                         \E ix \in issued:
                           /\ op' = [op EXCEPT ![self] = [NoOp EXCEPT !.kind = "Dec", !.part = pt, !.start = now,
                                                              !.rec = IF ~MidOpTicks /\ ix.part = pt /\ FreshHit(self, "IK", pt, ix.ikCreated) THEN 1 ELSE 0]]
                           /\ cmd' = [NoCmd EXCEPT !.n = 1 - cmd.n, !.cmd = "Dec", !.p = self, !.part = pt, !.rec = ix]
                           /\ open' = [open EXCEPT ![self] = open[self] \cup {pt}]
                           /\ /\ dp' = [dp EXCEPT ![self] = pt]
                              /\ dr' = [dr EXCEPT ![self] = ix]
                              /\ stack' = [stack EXCEPT ![self] = << [ procedure |->  "Decrypt",
                                                                       pc        |->  "idle",
                                                                       dp        |->  dp[self],
                                                                       dr        |->  dr[self] ] >>
                                                                   \o stack[self]]
                           /\ pc' = [pc EXCEPT ![self] = "d0"]
                    /\ UNCHANGED <<kc, ep>>
                 \/ /\ "CloseSession" \in OpKinds
                    /\ \E pt \in open[self]:
                         /\ open' = [open EXCEPT ![self] = open[self] \ {pt}]
                         /\ cmd' = [NoCmd EXCEPT !.n = 1 - cmd.n, !.cmd = "CloseSession", !.p = self, !.part = pt]
                         /\ IF cfg[self].ik = "session" /\ ~cfg[self].sess
                               THEN /\ kc' = [kc EXCEPT ![self][pt] = EmptyCache]
                               ELSE /\ TRUE
                                    /\ kc' = kc
                    /\ pc' = [pc EXCEPT ![self] = "idle"]
                    /\ UNCHANGED <<op, stack, ep, dp, dr>>
                 \/ /\ "Restart" \in OpKinds /\ \E s \in Scopes : kc[self][s] # EmptyCache
                    /\ kc' = [kc EXCEPT ![self] = [s \in Scopes |-> EmptyCache]]
                    /\ open' = [open EXCEPT ![self] = {}]
                    /\ cmd' = [NoCmd EXCEPT !.n = 1 - cmd.n, !.cmd = "Restart", !.p = self]
                    /\ pc' = [pc EXCEPT ![self] = "idle"]
                    /\ UNCHANGED <<op, stack, ep, dp, dr>>
              /\ UNCHANGED << now, store, nextKid, issued, revAt, cfg, ret, rv, 
                              xc, nfaults, nrev, sft, viol, gk, gp, gcr, ekr, 
                              sk, ikr, skr, nsk, cp, csk, nik, cikr, ip, likr, 
                              lkind, lp, lk >>

p(self) == idle(self)

ev == /\ pc["env"] = "ev"
      /\ \/ /\ (MidOpTicks /\ \A q \in Procs : AtCall(q)) \/ \A q \in Procs : Idle(q)
            /\ \E d \in Ticks:
                 /\ now + d <= MaxT
                 /\ now' = now + d
                 /\ cmd' = [NoCmd EXCEPT !.n = 1 - cmd.n, !.cmd = "Tick", !.d = d]
            /\ UNCHANGED <<store, revAt, nrev>>
         \/ /\ (\A q \in Procs : Idle(q)) /\ nrev < MaxRevokes
            /\ \E r \in {x \in store : ~x.revoked /\ x.k \in RevokeKinds}:
                 /\ store' = ((store \ {r}) \cup {[r EXCEPT !.revoked = TRUE]})
                 /\ revAt' = (revAt \cup {<<r.k, r.part, r.created, now>>})
                 /\ nrev' = nrev + 1
                 /\ cmd' = [NoCmd EXCEPT !.n = 1 - cmd.n, !.cmd = "Revoke", !.k = r.k, !.part = r.part, !.created = r.created]
            /\ now' = now
      /\ pc' = [pc EXCEPT !["env"] = "ev"]
      /\ UNCHANGED << nextKid, issued, cfg, kc, open, op, ret, rv, xc, nfaults, 
                      sft, viol, stack, gk, gp, gcr, ekr, sk, ikr, skr, nsk, 
                      cp, csk, nik, cikr, ip, likr, lkind, lp, lk, ep, dp, dr >>

env == ev

Next == env
           \/ (\E self \in ProcSet:  \/ GetOrLoad(self) \/ IKFromEKR(self)
                                     \/ LoaderSK(self) \/ CreateIK(self)
                                     \/ LoaderIK(self) \/ Latest(self)
                                     \/ Encrypt(self) \/ Decrypt(self))
           \/ (\E self \in Procs: p(self))

Spec == Init /\ [][Next]_vars

\* END TRANSLATION
ViewVars == <<pc, now, store, nextKid, issued, revAt, cfg, kc, open, op, rv, nfaults, nrev, sft, viol, stack, gk, gp, gcr, ekr, sk, ikr, skr, nsk, cp, csk, nik, cikr, ip, likr, lkind, lp, lk, ep, dp, dr>>
-----------------------------------------------------------------------------
\* The properties, stated on the model.

IKRecOf(d) == {r \in store : r.k = "IK" /\ r.part = d.part /\ r.created = d.ikCreated}
SKRecOf(r) == {s \in store : s.k = "SK" /\ s.created = r.parent}

\* C02 / C14 / C01: every record handed out names an IK that is in the metastore with the same key bytes,
\* whose parent SK is in the metastore with the bytes that wrapped it
ChainClosed == \A d \in issued : \E r \in IKRecOf(d) : r.kid = d.ikKid /\ \E s \in SKRecOf(r) : s.kid = r.pkid

\* C04: no IK is created under an SK that was expired when the creating operation began (the store having accepted its writes)
NoIKUnderExpiredSK == \A r \in store : (r.k = "IK" /\ ~r.sf) => ~ExpiredAt(r.parent, r.at)

\* per-operation clauses (C01 RoundTrip, C02 Recovers, C04, C05, C06, C20): none was ever violated,
\* except the clauses the pinned implementation is known to break (known_findings.json)
KnownViol == {"C04.ParentExpiryBounded/decrypt-refresh", "C05.RevokedSKBounded/decrypt-refresh"}
NoViolation == viol \subseteq KnownViol
NoViolationAtAll == viol = {}

\* C14: the SDK never modifies or removes a metastore record (only the operator flips revoked)
InsertOnly == [][\A r \in store : \E r2 \in store' : r2.k = r.k /\ r2.part = r.part /\ r2.created = r.created
                                       /\ r2.kid = r.kid /\ r2.parent = r.parent /\ r2.pkid = r.pkid /\ (r.revoked => r2.revoked)]_store
\* keyCache: within one cache the latest alias of an id only moves forward - loading an older key (a decrypt of an old record)
\* never makes it the key for new records. (A closed session / restarted factory starts from an empty cache: no alias.)
LatestMovesForward == [][\A qq \in Procs : \A sc \in DOMAIN kc[qq] : \A kk \in DOMAIN kc[qq][sc].latest :
                            (sc \in DOMAIN kc'[qq] /\ kk \in DOMAIN kc'[qq][sc].latest) => kc'[qq][sc].latest[kk] >= kc[qq][sc].latest[kk]]_kc
\* Partial-order reduction for multi-process configurations (ACTION_CONSTRAINT): the steps between two external calls are
\* local (they touch no shared variable another process reads), so a process that is in the middle of local work runs
\* on to its next external call before anyone else moves.  Sound for every property above; cuts the interleavings of
\* silent steps.
LocalStepsFirst == \A q \in Procs : ~AtCall(q) => pc'[q] # pc[q]

\* C13/C14: one record per (id, created)
UniqueKeys == \A r, s \in store : (r.k = s.k /\ r.part = s.part /\ r.created = s.created) => r = s
=============================================================================
