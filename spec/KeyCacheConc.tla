---------------------------- MODULE KeyCacheConc ----------------------------
(***************************************************************************)
(* Design model of keyCache.GetOrLoad / cachedCryptoKey.Close /            *)
(* eviction (go/appencryption/key_cache.go + pkg/cache, synchronous        *)
(* eviction) at the granularity of the instrumented synchronisation        *)
(* points - property C08: a key obtained from a cache is never destroyed   *)
(* underneath its user.                                                    *)
(*                                                                         *)
(*   RLock ; lookup [; take reference] ; RUnlock [; take reference] ; use  *)
(*   miss:  Lock ; re-check ; load + insert (evicting the LRU entry, which *)
(*          drops the cache's reference) ; take reference ; Unlock ; use   *)
(*   release: drop reference ; the last reference destroys the secret      *)
(*                                                                         *)
(* RefUnderLock = TRUE is the repaired code (reference taken while the     *)
(* read lock still excludes eviction); FALSE is the pinned code, for which *)
(* TLC produces the use-after-destroy interleaving - the check runs both   *)
(* and requires the second to fail, so the model cannot be vacuous.        *)
(***************************************************************************)
EXTENDS Integers, Sequences, FiniteSets, TLC

CONSTANTS G,             \* goroutines
          K,             \* cache keys (partitions)
          Cap,           \* cache capacity
          MaxOps,        \* operations per goroutine
          RefUnderLock   \* TRUE: reference taken before RUnlock

VARIABLES writer,        \* goroutine holding the write lock, or "none"
          readers,       \* goroutines holding the read lock
          cache,         \* sequence of [key, obj], most recently used first
          refs,          \* obj -> reference count
          destroyed,     \* set of objs whose secret has been destroyed
          nextObj,
          pc, want, held, ops

vars == <<writer, readers, cache, refs, destroyed, nextObj, pc, want, held, ops>>

Init == /\ writer = "none" /\ readers = {} /\ cache = <<>> /\ refs = <<>> /\ destroyed = {} /\ nextObj = 1
        /\ pc = [g \in G |-> "idle"] /\ want = [g \in G |-> CHOOSE k \in K : TRUE] /\ held = [g \in G |-> 0] /\ ops = [g \in G |-> 0]

Find(k) == {i \in 1..Len(cache) : cache[i].key = k}
Touch(i) == <<cache[i]>> \o SubSeq(cache, 1, i - 1) \o SubSeq(cache, i + 1, Len(cache))   \* LRU: move to front
Drop(o, rf, ds) == LET n == rf[o] - 1 IN [r |-> [rf EXCEPT ![o] = n], d |-> IF n <= 0 THEN ds \cup {o} ELSE ds]

Start(g) == /\ pc[g] = "idle" /\ ops[g] < MaxOps
            /\ \E k \in K : want' = [want EXCEPT ![g] = k]
            /\ pc' = [pc EXCEPT ![g] = "rlock"] /\ ops' = [ops EXCEPT ![g] = @ + 1]
            /\ UNCHANGED <<writer, readers, cache, refs, destroyed, nextObj, held>>

RLock(g) == /\ pc[g] = "rlock" /\ writer = "none"
            /\ readers' = readers \cup {g} /\ pc' = [pc EXCEPT ![g] = "lookup"]
            /\ UNCHANGED <<writer, cache, refs, destroyed, nextObj, want, held, ops>>

\* getFresh under the read lock (the LRU order is touched by keys.Get)
Lookup(g) == /\ pc[g] = "lookup"
             /\ IF Find(want[g]) # {}
                THEN LET i == CHOOSE i \in Find(want[g]) : TRUE
                         o == cache[i].obj IN
                     /\ held' = [held EXCEPT ![g] = o] /\ cache' = Touch(i)
                     /\ refs' = IF RefUnderLock THEN [refs EXCEPT ![o] = @ + 1] ELSE refs
                     /\ pc' = [pc EXCEPT ![g] = "runlock-hit"]
                ELSE /\ pc' = [pc EXCEPT ![g] = "runlock-miss"] /\ UNCHANGED <<held, cache, refs>>
             /\ UNCHANGED <<writer, readers, destroyed, nextObj, want, ops>>

RUnlock(g) == /\ pc[g] \in {"runlock-hit", "runlock-miss"}
              /\ readers' = readers \ {g}
              /\ pc' = [pc EXCEPT ![g] = IF pc[g] = "runlock-miss" THEN "wlock" ELSE IF RefUnderLock THEN "use" ELSE "incr"]
              /\ UNCHANGED <<writer, cache, refs, destroyed, nextObj, want, held, ops>>

\* pinned code only: tracked(k) after the read lock was dropped
Incr(g) == /\ pc[g] = "incr"
           /\ refs' = [refs EXCEPT ![held[g]] = @ + 1] /\ pc' = [pc EXCEPT ![g] = "use"]
           /\ UNCHANGED <<writer, readers, cache, destroyed, nextObj, want, held, ops>>

WLock(g) == /\ pc[g] = "wlock" /\ writer = "none" /\ readers = {}
            /\ writer' = g /\ pc' = [pc EXCEPT ![g] = "load"]
            /\ UNCHANGED <<readers, cache, refs, destroyed, nextObj, want, held, ops>>

\* re-check, else load: insert a new entry (reference 1 = the cache's), evicting the LRU entry when full; take the caller's reference
Load(g) == /\ pc[g] = "load"
           /\ IF Find(want[g]) # {}
              THEN LET i == CHOOSE i \in Find(want[g]) : TRUE
                       o == cache[i].obj IN
                   /\ held' = [held EXCEPT ![g] = o] /\ cache' = Touch(i) /\ refs' = [refs EXCEPT ![o] = @ + 1]
                   /\ UNCHANGED <<destroyed, nextObj>>
              ELSE LET o == nextObj
                       full == Len(cache) >= Cap
                       victim == cache[Len(cache)].obj
                       kept == IF full THEN SubSeq(cache, 1, Len(cache) - 1) ELSE cache
                       r0 == (o :> 2) @@ refs                                     \* cache's reference + the caller's
                       ev == IF full THEN Drop(victim, r0, destroyed) ELSE [r |-> r0, d |-> destroyed] IN
                   /\ held' = [held EXCEPT ![g] = o] /\ cache' = <<[key |-> want[g], obj |-> o]>> \o kept
                   /\ refs' = ev.r /\ destroyed' = ev.d /\ nextObj' = nextObj + 1
           /\ pc' = [pc EXCEPT ![g] = "wunlock"]
           /\ UNCHANGED <<writer, readers, want, ops>>

WUnlock(g) == /\ pc[g] = "wunlock" /\ writer' = "none" /\ pc' = [pc EXCEPT ![g] = "use"]
              /\ UNCHANGED <<readers, cache, refs, destroyed, nextObj, want, held, ops>>

\* WithBytes on the key, then cachedCryptoKey.Close
Use(g) == /\ pc[g] = "use" /\ pc' = [pc EXCEPT ![g] = "release"]
          /\ UNCHANGED <<writer, readers, cache, refs, destroyed, nextObj, want, held, ops>>
Release(g) == /\ pc[g] = "release"
              /\ LET d == Drop(held[g], refs, destroyed) IN refs' = d.r /\ destroyed' = d.d
              /\ held' = [held EXCEPT ![g] = 0] /\ pc' = [pc EXCEPT ![g] = "idle"]
              /\ UNCHANGED <<writer, readers, cache, nextObj, want, ops>>

Next == \E g \in G : Start(g) \/ RLock(g) \/ Lookup(g) \/ RUnlock(g) \/ Incr(g) \/ WLock(g) \/ Load(g) \/ WUnlock(g) \/ Use(g) \/ Release(g)
Spec == Init /\ [][Next]_vars

\* C08: whoever is about to use a key holds a live secret
NoUseAfterDestroy == \A g \in G : pc[g] \in {"use", "release"} => held[g] \notin destroyed
\* a destroyed secret has no references left; an entry in the cache is never destroyed
DestroyedUnreferenced == \A o \in destroyed : refs[o] <= 0
CachedAlive == \A i \in 1..Len(cache) : cache[i].obj \notin destroyed
Bounded == Len(cache) <= Cap
\* C09 (quiescent): when everybody is idle the live secrets are exactly the cached ones
QuiescentLive == (\A g \in G : pc[g] = "idle") => {o \in DOMAIN refs : o \notin destroyed} = {cache[i].obj : i \in 1..Len(cache)}
=============================================================================
