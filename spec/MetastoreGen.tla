---------------------------- MODULE MetastoreGen ----------------------------
(* Behaviour generation for Metastore.tla.  One JSON test case per line:                                                *)
(*    {path: calls leading to the source state, step: the call under test, stale: ...}                                  *)
(* every element carries its arguments and the result the specification demands (ok / res), so that the driver can      *)
(* compare verbatim, and TLC validates the recorded run again (MetastoreTrace.tla).                                     *)
(*                                                                                                                      *)
(* Mode "trans": exhaustive search with VIEW GenView (hist and last left out): every transition (state, call) of the    *)
(*               reachable state graph is printed exactly once with one witness path (as CacheGen does).                *)
(* Mode "seq"  : only complete sequences of MaxOps calls are printed; used with  tlc -simulate  for seeded random       *)
(*               sequences in which reads and refused duplicates also occur in the middle.                              *)
(* fin / finl = the table content after the step, which the driver reads back at the end of every run.                  *)
(* stale = the lagging replica would have answered this step differently from the primary, i.e. the case distinguishes  *)
(*         a strongly consistent read from an eventually consistent one.                                                *)
EXTENDS Metastore, Json, SequencesExt

CONSTANT Mode
VARIABLE hist

gvars == <<vars, hist>>
GenView == <<table, replica>>      \* thorough: also distinguishes which write was the most recent one
GenViewT == table                   \* quick: one witness path per table content

El(op, id, c, v, ok, res) == [op |-> op, id |-> id, c |-> c, v |-> v, ok |-> ok, res |-> res]
NoVar == [key |-> "", rev |-> FALSE, hasp |-> FALSE, pid |-> "", pc |-> 0]

\* the table after the step: every record present, and LoadLatest of every id (expectation of the driver's final read-back)
Fin == SetToSeq({[id |-> k[1], c |-> k[2], res |-> table'[k]] : k \in {j \in Keys : table'[j].found}})
FinLatest == SetToSeq({[id |-> i, res |-> Latest(table', i)] : i \in Ids})

Emit(el, stale) ==
  IF Mode = "trans" \/ nops + 1 = MaxOps
  THEN PrintT(ToJson([path |-> hist, step |-> el, stale |-> stale, fin |-> Fin, finl |-> FinLatest]))
  ELSE TRUE

GInit == Init /\ hist = <<>>

GStore(id, c, v) ==
  /\ Store(id, c, v)
  /\ LET el == El("store", id, c, v, last'.ok, NoRec) IN
       hist' = Append(hist, el) /\ Emit(el, FALSE)
GLoad(id, c) ==
  /\ Load(id, c, "primary")
  /\ LET el == El("load", id, c, NoVar, TRUE, last'.res) IN
       hist' = Append(hist, el) /\ Emit(el, replica[<<id, c>>] # table[<<id, c>>])
GLatest(id) ==
  /\ LoadLatest(id, "primary")
  /\ LET el == El("latest", id, 0, NoVar, TRUE, last'.res) IN
       hist' = Append(hist, el) /\ Emit(el, Latest(replica, id) # Latest(table, id))

GNext == /\ nops < MaxOps
         /\ \/ \E id \in Ids, c \in Stamps, v \in Variants : GStore(id, c, v)
            \/ \E id \in Ids, c \in Stamps : GLoad(id, c)
            \/ \E id \in Ids : GLatest(id)
GSpec == GInit /\ [][GNext]_gvars
=============================================================================
