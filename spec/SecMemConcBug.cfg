SPECIFICATION Spec
CONSTANTS
  Readers = {"r1", "r2", "r3"}
  Closers = {"c1", "c2"}
  MaxReads = 2
  CloseWaits = FALSE
INVARIANTS ReaderSafe IdleNoAccess CountMatches WipedBeforeFree
CHECK_DEADLOCK FALSE
