SPECIFICATION Spec
CONSTANTS
  Readers = {"r1", "r2", "r3"}
  Closers = {"c1", "c2"}
  MaxReads = 2
  CloseWaits = TRUE
INVARIANTS ReaderSafe IdleNoAccess CountMatches WipedBeforeFree
PROPERTIES ClosersFinish
CHECK_DEADLOCK FALSE
