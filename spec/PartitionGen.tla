--------------------------- MODULE PartitionGen ---------------------------
(* Prints every ordered pair (decrypting partition p / mode, producing partition q / mode) of the bounded universe   *)
(* as one test case with the model's verdict; the pairs the model regards as close calls are marked.                 *)
EXTENDS Partition, Json
CONSTANT SampleEvery   \* far-apart pairs are printed with probability 1/SampleEvery (1 = all)
VARIABLE done
Svc == <<"s">>
Prd == <<"p">>
Rgs == {<<"r">>, <<"q">>}
Close(p, q) == Prefix(IKDefault(p), IKDefault(q)) \/ Prefix(IKDefault(q), IKDefault(p)) \/ Prefix(p, q) \/ Prefix(q, p)
GInit == done = FALSE
GNext == /\ ~done /\ done' = TRUE
         /\ \A p \in PartIds : \A q \in PartIds : \A mp \in Modes : \A mq \in Modes :
               (Close(p, q) \/ SampleEvery = 1 \/ RandomElement(1..SampleEvery) = 1) =>
               PrintT(ToJson([p |-> p, q |-> q, mp |-> mp, mq |-> mq, valid |-> Valid(p, mp, IKId(q, mq)), close |-> Close(p, q)]))
GSpec == GInit /\ [][GNext]_done
=============================================================================
