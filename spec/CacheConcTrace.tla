--------------------------- MODULE CacheConcTrace ---------------------------
(* C15 under concurrency: goroutines call Set / Get / Delete / Len on one real cache at the same time (schedules of the real    *)
(* code under the cooperative scheduler).  Every operation is logged twice - "call" with its arguments before it starts, "ret"   *)
(* with its result and the eviction callbacks it delivered after it returned - and must take effect atomically at some point     *)
(* in between: the specification keeps the set of operations in flight and a silent step Lin(g) applies one of them to the      *)
(* sequential cache of Cache.tla; the "ret" event must find its operation applied, with exactly the logged result.  A trace is   *)
(* accepted iff some choice of linearisation points explains it (TLC searches them; the high-water mark of consumed lines is     *)
(* kept in a TLC register because silent steps make the diameter useless).                                                      *)
EXTENDS Cache, Json, TLCExt

TraceLog == ndJsonDeserialize("trace.ndjson")

VARIABLES l,        \* next line of TraceLog
          pend      \* operations in flight: goroutine -> [op, k, v, lin, ok, rv, cbs]

tvars == <<vars, l, pend>>
ev == TraceLog[l]
IsEvent(e) == l <= Len(TraceLog) /\ ev.e = e /\ l' = l + 1
Obs == {<<ev.cbs[i][1], ev.cbs[i][2]>> : i \in 1..Len(ev.cbs)}
G == DOMAIN pend

TInit == /\ l = 1 /\ pend = <<>> /\ TLCSet(7, 0)
         /\ cfg = [cap |-> 1, policy |-> "lru", expiry |-> 0]
         /\ st = EmptyState /\ now = 0 /\ nops = 0 /\ useLog = <<>>

TReset == /\ IsEvent("reset")
          /\ cfg' = [cap |-> ev.cap, policy |-> (IF ev.policy = "tinylfu" THEN "any" ELSE ev.policy), expiry |-> ev.expiry]
          /\ st' = EmptyState /\ now' = 0 /\ pend' = <<>>
          /\ UNCHANGED <<nops, useLog>>

TCall == /\ IsEvent("call") /\ ev.g \notin G
         /\ pend' = (ev.g :> [op |-> ev.op, k |-> ev.k, v |-> ev.v, lin |-> FALSE, ok |-> FALSE, rv |-> 0, cbs |-> {}]) @@ pend
         /\ UNCHANGED vars

\* the operation of goroutine g takes effect (not logged: anywhere between its call and its ret)
Outcomes(p) == CASE p.op = "Set" -> {[s |-> o.s, ok |-> FALSE, rv |-> 0, cbs |-> o.cbs] : o \in SetOutcomes(cfg, st, now, p.k, p.v)}
                 [] p.op = "Get" -> {[s |-> o.s, ok |-> o.ok, rv |-> o.rv, cbs |-> o.cbs] : o \in GetOutcomes(cfg, st, now, p.k)}
                 [] p.op = "Delete" -> {[s |-> o.s, ok |-> o.ok, rv |-> 0, cbs |-> o.cbs] : o \in DeleteOutcomes(cfg, st, p.k)}
                 [] p.op = "Len" -> {[s |-> st, ok |-> FALSE, rv |-> LenOf(st), cbs |-> {}]}
Lin(g) == /\ l <= Len(TraceLog) /\ g \in G /\ ~pend[g].lin
          /\ \E o \in Outcomes(pend[g]) :
               /\ st' = o.s
               /\ pend' = [pend EXCEPT ![g] = [@ EXCEPT !.lin = TRUE, !.ok = o.ok, !.rv = o.rv, !.cbs = o.cbs]]
          /\ UNCHANGED <<cfg, now, nops, useLog, l>>

TRet == /\ IsEvent("ret") /\ ev.g \in G /\ pend[ev.g].lin
        /\ ev.panic = ""
        /\ pend[ev.g].op = ev.op
        /\ (ev.op \in {"Get", "Delete"} => pend[ev.g].ok = ev.ok)
        /\ (ev.op \in {"Get", "Len"} => pend[ev.g].rv = ev.rv)
        /\ Cardinality(Obs) = Len(ev.cbs) /\ Obs = pend[ev.g].cbs      \* the callbacks this operation delivered (synchronous eviction)
        /\ pend' = [h \in G \ {ev.g} |-> pend[h]]
        /\ UNCHANGED vars

TTick == /\ IsEvent("tick") /\ now' = now + ev.v /\ UNCHANGED <<cfg, st, nops, useLog, pend>>
\* the end of a run: nothing in flight, no deadlock, and the size the cache reports is the model's
TFinal == /\ IsEvent("final") /\ G = {} /\ ev.dead = "" /\ ev.len = LenOf(st) /\ UNCHANGED <<vars, pend>>

TNext == TReset \/ TCall \/ TRet \/ TTick \/ TFinal \/ \E g \in G : Lin(g)
TSpec == TInit /\ [][TNext]_tvars

\* high-water mark of the trace position, kept in TLC register 7 (single worker)
HighWater == IF l > TLCGet(7) THEN TLCSet(7, l) ELSE TRUE
TraceAccepted == IF TLCGet(7) = Len(TraceLog) + 1 THEN TRUE ELSE Print(<<"TRACE-REJECTED-AT-LINE", TLCGet(7)>>, FALSE)
=============================================================================
