--------------------------- MODULE SecMemConcTrace ---------------------------
(* Monitor for schedules of readers and closers on a real secret (memdrv -conc): a read either shows the original bytes *)
(* through read-only pages or - only once a Close has begun - returns an error; Close succeeds; at the end the secret   *)
(* is closed, its pages are unmapped, later reads are errors; the schedule neither deadlocked nor crashed.              *)
EXTENDS Integers, Sequences, TLC, Json
TraceLog == ndJsonDeserialize("trace.ndjson")
VARIABLES l, closing, inCb     \* inCb: number of reader callbacks currently running
ev == TraceLog[l]
IsEv(e) == l <= Len(TraceLog) /\ ev.e = e /\ l' = l + 1
TInit == l = 1 /\ closing = FALSE /\ inCb = 0
TReset == IsEv("reset") /\ closing' = FALSE /\ inCb' = 0
TClosing == IsEv("closing") /\ closing' = TRUE /\ UNCHANGED inCb
TEnter == IsEv("enter") /\ inCb' = inCb + 1 /\ UNCHANGED closing
TExit == IsEv("exit") /\ inCb' = inCb - 1 /\ UNCHANGED closing
TRead == /\ IsEv("read")
         /\ (ev.saw => (ev.bytes /\ ev.prot = "RO" /\ ev.prot2 = "RO"))     \* whoever got into the callback saw the original bytes through read-only pages
         /\ (ev.ok => ev.saw)
         /\ (~ev.ok => (closing \/ ev.fault))           \* an error only once a Close has begun (a nested reader may hit it after the outer one got in)
                                                         \* or when the harness made this reader's re-protection fail (C12: the error is reported)
         /\ UNCHANGED <<closing, inCb>>
\* every Close call returns only when no reader is in flight any more and the secret is gone (Close waits for in-flight readers)
TClose == IsEv("close") /\ ev.ok /\ ev.closed /\ inCb = 0 /\ UNCHANGED <<closing, inCb>>
TEnd == IsEv("end") /\ ev.closed /\ ~ev.mapped /\ ~ev.readAfter /\ UNCHANGED <<closing, inCb>>
TFinal == IsEv("final") /\ ev.dead = "" /\ ev.panic = "" /\ UNCHANGED <<closing, inCb>>
TNext == TReset \/ TClosing \/ TEnter \/ TExit \/ TRead \/ TClose \/ TEnd \/ TFinal
TSpec == TInit /\ [][TNext]_<<l, closing, inCb>>
TraceAccepted == LET d == TLCGet("stats").diameter IN
                 IF d - 1 = Len(TraceLog) THEN TRUE ELSE Print(<<"TRACE-REJECTED-AT-LINE", d>>, FALSE)
=============================================================================
