--------------------------- MODULE SecMemConcTrace ---------------------------
(* Monitor for schedules of readers and closers on a real secret (memdrv -conc): a read either shows the original bytes *)
(* through read-only pages or - only once a Close has begun - returns an error; Close succeeds; at the end the secret   *)
(* is closed, its pages are unmapped, later reads are errors; the schedule neither deadlocked nor crashed.              *)
EXTENDS Integers, Sequences, TLC, Json
TraceLog == ndJsonDeserialize("trace.ndjson")
VARIABLES l, closing
ev == TraceLog[l]
IsEv(e) == l <= Len(TraceLog) /\ ev.e = e /\ l' = l + 1
TInit == l = 1 /\ closing = FALSE
TReset == IsEv("reset") /\ closing' = FALSE
TClosing == IsEv("closing") /\ closing' = TRUE
TRead == /\ IsEv("read")
         /\ (ev.saw => (ev.bytes /\ ev.prot = "RO"))     \* whoever got into the callback saw the original bytes through read-only pages
         /\ (ev.ok => ev.saw)
         /\ (~ev.ok => closing)                          \* an error only once a Close has begun (a nested reader may hit it after the outer one got in)
         /\ UNCHANGED closing
TClose == IsEv("close") /\ ev.ok /\ UNCHANGED closing
TEnd == IsEv("end") /\ ev.closed /\ ~ev.mapped /\ ~ev.readAfter /\ UNCHANGED closing
TFinal == IsEv("final") /\ ev.dead = "" /\ ev.panic = "" /\ UNCHANGED closing
TNext == TReset \/ TClosing \/ TRead \/ TClose \/ TEnd \/ TFinal
TSpec == TInit /\ [][TNext]_<<l, closing>>
TraceAccepted == LET d == TLCGet("stats").diameter IN
                 IF d - 1 = Len(TraceLog) THEN TRUE ELSE Print(<<"TRACE-REJECTED-AT-LINE", d>>, FALSE)
=============================================================================
