-------------------------- MODULE PartitionTrace --------------------------
(* Verdict over what real sessions did with each pair: a session never yields plaintext for a record of a different    *)
(* partition (C06), a session decrypts its own records, and empty partition ids are refused.                           *)
EXTENDS Integers, Sequences, TLC, Json
TraceLog == ndJsonDeserialize("trace.ndjson")
VARIABLE l
ev == TraceLog[l]
IsEv(e) == l <= Len(TraceLog) /\ ev.e = e /\ l' = l + 1
TInit == l = 1
TReset == IsEv("reset")
TPair == /\ IsEv("pair")
         /\ ev.panic = ""
         /\ (~ev.same => ~ev.accepted)                       \* C06: foreign record refused
         /\ ((ev.same /\ ev.samemode) => (ev.accepted /\ ev.plain))   \* own record decrypts to the original
         /\ (ev.accepted => ev.plain)                         \* whatever is returned is the original payload
TEmpty == IsEv("empty") /\ ~ev.accepted                       \* GetSession("") is refused
TNext == TReset \/ TPair \/ TEmpty
TSpec == TInit /\ [][TNext]_l
TraceAccepted == LET d == TLCGet("stats").diameter IN
                 IF d - 1 = Len(TraceLog) THEN TRUE ELSE Print(<<"TRACE-REJECTED-AT-LINE", d>>, FALSE)
=============================================================================
