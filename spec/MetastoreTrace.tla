--------------------------- MODULE MetastoreTrace ---------------------------
(* Runs recorded from the real metastores (msdrv: MemoryMetastore, SQLMetastore over a database/sql driver fake,        *)
(* DynamoDB v1 and v2 metastores over semantic client fakes) must be behaviours of Metastore.tla.                       *)
(*   reset  : a fresh metastore (backend + configuration are carried for the report only)                               *)
(*   store  : arguments + (ok, err).  ok has to be "absent before"; ok with an error is refused; a refused duplicate    *)
(*            may carry an error (SQL and DynamoDB report the constraint failure), the table stays as it was.           *)
(*   load / latest : arguments + every field of the returned record; has to be the primary copy's content, no error.    *)
(*   final  : read-back of every (id, created) used in the run and LoadLatest of every id used, so that a Store         *)
(*            that modified or destroyed an existing record is seen even if the run itself never read it again.         *)
(* A panic in any call rejects the run.                                                                                 *)
EXTENDS Metastore, Json, TLCExt

TraceLog == ndJsonDeserialize("trace.ndjson")
VARIABLE l
tvars == <<vars, l>>
ev == TraceLog[l]
IsEv(e) == l <= Len(TraceLog) /\ ev.e = e /\ l' = l + 1

RecOf(x) == [key |-> x.key, rev |-> x.rev, hasp |-> x.hasp, pid |-> x.pid, pc |-> x.pc]
ResOf(x) == [found |-> x.found, created |-> x.created, key |-> x.key, rev |-> x.rev, hasp |-> x.hasp, pid |-> x.pid, pc |-> x.pc]

TInit == Init /\ l = 1
TReset == /\ IsEv("reset")
          /\ table' = EmptyTable /\ replica' = EmptyTable /\ acked' = {} /\ last' = NoOp /\ nops' = 0
TStore == /\ IsEv("store") /\ ev.panic = ""
          /\ ev.id \in Ids /\ ev.c \in Stamps
          /\ Store(ev.id, ev.c, RecOf(ev))
          /\ last'.ok = ev.ok                          \* TRUE iff absent before, FALSE (not success) for a duplicate
          /\ (ev.ok => ~ev.err)
TLoad == /\ IsEv("load") /\ ev.panic = "" /\ ~ev.err
         /\ ev.id \in Ids /\ ev.c \in Stamps
         /\ \E src \in ReadSources : Load(ev.id, ev.c, src) /\ last'.res = ResOf(ev)
TLatest == /\ IsEv("latest") /\ ev.panic = "" /\ ~ev.err
           /\ ev.id \in Ids
           /\ \E src \in ReadSources : LoadLatest(ev.id, src) /\ last'.res = ResOf(ev)
TFinal == /\ IsEv("final") /\ ev.panic = ""
          /\ \A i \in 1..Len(ev.loads) :
                LET x == ev.loads[i] IN
                ~x.err /\ x.id \in Ids /\ x.c \in Stamps /\ ResOf(x) = table[<<x.id, x.c>>]
          /\ \A i \in 1..Len(ev.latests) :
                LET x == ev.latests[i] IN
                ~x.err /\ x.id \in Ids /\ ResOf(x) = Latest(table, x.id)
          /\ UNCHANGED vars
TNext == TReset \/ TStore \/ TLoad \/ TLatest \/ TFinal
TSpec == TInit /\ [][TNext]_tvars
TraceAccepted == LET d == TLCGet("stats").diameter IN
                 IF d - 1 = Len(TraceLog) THEN TRUE ELSE Print(<<"TRACE-REJECTED-AT-LINE", d>>, FALSE)
=============================================================================
