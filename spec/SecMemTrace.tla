----------------------------- MODULE SecMemTrace -----------------------------
(* API-call sequences executed on real secrets (harness/drivers/memdrv) must be behaviours of SecMem.tla: after every  *)
(* call the result and the kernel's view of the secret's pages have to be what the model says, no primitive may have   *)
(* unlocked or released a page that still held secret bytes, and the in-use accounting has to agree.                    *)
EXTENDS SecMem, Json, TLCExt
TraceLog == ndJsonDeserialize("trace.ndjson")
VARIABLE l
tvars == <<vars, l>>
ev == TraceLog[l]
IsEv(e) == l <= Len(TraceLog) /\ ev.e = e /\ l' = l + 1
FOf == {ev.F[i] : i \in 1..Len(ev.F)}

TInit == Init /\ l = 1
TReset == /\ IsEv("reset") /\ impl' = ev.impl /\ pg' = NoPage /\ created' = FALSE /\ readers' = 0 /\ closing' = FALSE /\ closed' = FALSE
          /\ inuse' = 0 /\ stuckRO' = FALSE /\ ncalls' = 0 /\ nfaults' = 0 /\ last' = NoLast

\* after a failed creation memguard's own bookkeeping (guard pages, registry) is the library's business: page layout not judged
MgFailedCreate == impl = "mg" /\ ev.op \in {"New", "CreateRandom"} /\ ~ev.ok
\* what the real run showed, in the model's vocabulary
Mismatch == {x \in {"panic", "ok", "mapped", "prot", "locked", "dontdump", "secret-bytes", "dirty-release", "callback", "bytes-seen", "inuse", "isclosed", "late-primitive"} :
   CASE x = "panic" -> ev.panic # ""
     [] x = "ok" -> ev.ok # last'.ok
     [] x = "mapped" -> ev.mapped # pg'.mapped /\ ~MgFailedCreate
     [] x = "prot" -> ev.mapped /\ pg'.mapped /\ ev.prot # pg'.prot /\ ~MgFailedCreate
     [] x = "locked" -> ev.mapped /\ pg'.mapped /\ ev.locked # pg'.locked /\ ~MgFailedCreate
     [] x = "dontdump" -> ev.mapped /\ created' /\ ~ev.dontdump
     [] x = "secret-bytes" -> ev.mapped /\ pg'.mapped /\ ev.secret # pg'.secret
     [] x = "dirty-release" -> ev.dirty
     [] x = "callback" -> ev.saw # last'.sawBytes
     [] x = "bytes-seen" -> ev.saw /\ ~ev.bytes
     [] x = "inuse" -> ev.inuse # inuse'
     [] x = "isclosed" -> created' /\ ev.closed # closed'
     [] x = "late-primitive" -> Len(ev.late) > 0}

Step == \/ (ev.op \in {"New", "CreateRandom"} /\ DoCreate(ev.op))
        \/ (ev.op \in ReadOps /\ DoRead(ev.op))
        \/ (ev.op = "Close" /\ DoClose)
TCall == /\ IsEv("call")
         /\ Step /\ last'.F = FOf
         /\ \/ Mismatch = {}
            \/ (Mismatch # {} /\ PrintT(<<"SECMEM-MISMATCH", ev.run, Mismatch>>) /\ FALSE)
TNext == TReset \/ TCall
TSpec == TInit /\ [][TNext]_tvars
TraceAccepted == LET d == TLCGet("stats").diameter IN
                 IF d - 1 = Len(TraceLog) THEN TRUE ELSE Print(<<"TRACE-REJECTED-AT-LINE", d>>, FALSE)
=============================================================================
