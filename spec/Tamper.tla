------------------------------- MODULE Tamper -------------------------------
(***************************************************************************)
(* Decrypt on arbitrary records and corrupted key rows (property C07), in  *)
(* a symbolic (Dolev-Yao style) term algebra with an ideal AEAD:           *)
(*   dec(k, enc(k, n, p)) = p ; anything else is an error.                 *)
(* A data row record is assembled field by field from genuine records of   *)
(* one partition (two intermediate-key generations, two records under the  *)
(* newer one), a record of another partition, and damaged or absent        *)
(* values; the key rows its chain needs may be corrupted as well.          *)
(* Outcome(c) is what an implementation that checks every tag must return: *)
(* the payload bound to the record's Data, or an error.                    *)
(***************************************************************************)
EXTENDS Integers, FiniteSets, TLC

\* genuine sources: own = newest record, same = another record under the same IK, old = record under the previous IK,
\* foreign = record of another partition
Sources == {"own", "same", "old", "foreign"}
DataVals == Sources \cup {"tampered", "truncated", "empty", "nil"}
KeyVals == Sources \cup {"tampered", "truncated", "empty", "nokey"}
MetaVals == {"own", "old", "foreign", "missing", "zero", "nil", "garbage-id"}
\* epoch-copy: the chain's intermediate key row is intact and ALSO filed under creation time 0 (record Created 0) - the row a key
\* meta with Created = 0 names
IkRow == {"intact", "key-tampered", "key-truncated", "nil-parent", "parent-missing", "deleted", "epoch-copy"}
SkRow == {"intact", "key-tampered", "deleted"}

Cases == [data : DataVals, key : KeyVals, meta : MetaVals, ik : IkRow, sk : SkRow]

\* which IK generation a genuine source was written under
Gen(s) == IF s = "old" THEN "old" ELSE IF s = "foreign" THEN "foreign" ELSE "own"

\* the record decrypts iff Data and the wrapped data key come from the same genuine record of THIS partition, the key
\* meta names the IK generation that wrapped that data key, and the key rows of that chain are intact
Decrypts(c) ==
  /\ c.data \in {"own", "same", "old"}
  /\ c.key = c.data
  /\ (c.meta = Gen(c.data) \/ (c.meta = "zero" /\ c.ik = "epoch-copy"))
  /\ c.ik \in {"intact", "epoch-copy"} /\ c.sk = "intact"

Outcome(c) == IF Decrypts(c) THEN <<"ok", c.data>> ELSE <<"error">>

\* C07 on the model: the only successful outcome is the payload bound to the record's own Data
OnlyOriginalOrError == \A c \in Cases : Outcome(c)[1] = "ok" => (Outcome(c)[2] = c.data /\ c.data \in Sources)
\* a foreign partition's record never decrypts here (C06)
ForeignNeverDecrypts == \A c \in Cases : (c.data = "foreign" \/ c.key = "foreign" \/ c.meta = "foreign") => Outcome(c)[1] = "error"
=============================================================================
