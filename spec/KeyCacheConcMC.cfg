SPECIFICATION Spec
CONSTANTS
  G = {"g1", "g2"}
  K = {"a", "b"}
  Cap = 1
  MaxOps = 2
  RefUnderLock = TRUE
INVARIANTS NoUseAfterDestroy DestroyedUnreferenced CachedAlive Bounded QuiescentLive
CHECK_DEADLOCK FALSE
