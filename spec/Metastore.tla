------------------------------ MODULE Metastore ------------------------------
(***************************************************************************)
(* C13 - every metastore implementation is an insert-only, read-your-      *)
(* writes key table.                                                       *)
(*                                                                         *)
(* What the four implementations have to be, seen through the interface    *)
(* appencryption.Metastore {Load, LoadLatest, Store}:                      *)
(*   pkg/persistence/memory.go            MemoryMetastore                  *)
(*   pkg/persistence/sql.go               SQLMetastore (mysql / postgres / *)
(*                                        oracle placeholder dialects)     *)
(*   plugins/aws-v1/persistence/dynamodb.go        DynamoDBMetastore       *)
(*   plugins/aws-v2/dynamodb/metastore/metastore.go  Metastore             *)
(*                                                                         *)
(* The model is one table  (id, created) -> record  and three operations.  *)
(* It is deliberately not shaped like any one implementation: it states    *)
(* the contract and nothing about mechanism (JSON text column, DynamoDB    *)
(* attribute maps, Go maps).  The backends behind SQL and DynamoDB are not *)
(* linearizable stores by themselves: DynamoDB answers GetItem / Query     *)
(* from a replica that may lag unless ConsistentRead is requested.  The    *)
(* variable replica models that copy (the table as it was before the most  *)
(* recent write) and the constant ReadSources says where a read may be     *)
(* served from.  The property demands ReadSources = {"primary"}; with      *)
(* "replica" allowed TLC finds a ReadYourWrites counterexample of length   *)
(* two (Store, Load), so the strong-consistency clause is not vacuous.     *)
(***************************************************************************)
EXTENDS Integers, Sequences, FiniteSets, TLC

CONSTANTS Ids,          \* key ids explored (strings; overlapping prefixes on purpose)
          PosStamps, NegStamps, \* creation times explored: PosStamps and the negatives of NegStamps (integers; decimal string order differs from numeric order)
          Variants,     \* record contents explored: [key, rev, hasp, pid, pc]
          ReadSources,  \* subset of {"primary", "replica"}: where Load / LoadLatest may be answered from
          MaxOps        \* bound on the number of calls (design check and generation)

VARIABLES table,        \* the primary copy: [Ids \X Stamps -> record or NoRec]
          replica,      \* a lagging copy: the table before the most recent successful write
          acked,        \* ghost: {<<id, created, record>>} for every Store that reported TRUE
          last,         \* the last call and what it returned
          nops

vars == <<table, replica, acked, last, nops>>

\* creation times before the epoch are legal keys too; a TLC configuration file cannot spell a negative number, so they are
\* given by magnitude (PosStamps, NegStamps are sets of naturals)
Stamps == PosStamps \cup {0 - m : m \in NegStamps}
Keys == Ids \X Stamps

(* A stored / returned record.  key = EncryptedKey as lower-case hex, rev = Revoked, hasp = ParentKeyMeta present,      *)
(* pid / pc = ParentKeyMeta.ID / .Created, created = EnvelopeKeyRecord.Created.  NoRec = nothing there / nil returned.  *)
NoRec == [found |-> FALSE, created |-> 0, key |-> "", rev |-> FALSE, hasp |-> FALSE, pid |-> "", pc |-> 0]
Put(v, c) == [found |-> TRUE, created |-> c, key |-> v.key, rev |-> v.rev, hasp |-> v.hasp, pid |-> v.pid, pc |-> v.pc]

EmptyTable == [k \in Keys |-> NoRec]
NoOp == [op |-> "none", id |-> "", c |-> 0, ok |-> TRUE, res |-> NoRec]

MaxOf(S) == CHOOSE x \in S : \A y \in S : y <= x
Present(t, id) == {c \in Stamps : t[<<id, c>>].found}
\* LoadLatest: the record with the greatest creation time for the id, or nothing
Latest(t, id) == IF Present(t, id) = {} THEN NoRec ELSE t[<<id, MaxOf(Present(t, id))>>]
Copy(src) == IF src = "primary" THEN table ELSE replica

Init == /\ table = EmptyTable /\ replica = EmptyTable /\ acked = {} /\ last = NoOp /\ nops = 0

(* Store(id, created, record): insert iff absent.  TRUE and the record is there afterwards, or FALSE and nothing at all  *)
(* changed.  An existing record is never modified (memory.go: map check under the write lock; sql.go: PRIMARY KEY       *)
(* (id, created) makes the INSERT fail; dynamodb: ConditionExpression attribute_not_exists(Id)).                         *)
Store(id, c, v) ==
  LET k == <<id, c>>
      absent == ~table[k].found IN
  /\ table' = IF absent THEN [table EXCEPT ![k] = Put(v, c)] ELSE table
  /\ replica' = IF absent THEN table ELSE replica            \* the replica is one write behind
  /\ acked' = IF absent THEN acked \cup {<<id, c, Put(v, c)>>} ELSE acked
  /\ last' = [op |-> "store", id |-> id, c |-> c, ok |-> absent, res |-> NoRec]
  /\ nops' = nops + 1

(* Load(id, created): exactly the record stored under (id, created), every field intact, or nothing. *)
Load(id, c, src) ==
  /\ last' = [op |-> "load", id |-> id, c |-> c, ok |-> TRUE, res |-> Copy(src)[<<id, c>>]]
  /\ nops' = nops + 1
  /\ UNCHANGED <<table, replica, acked>>

(* LoadLatest(id): the record with the greatest created for id, or nothing. *)
LoadLatest(id, src) ==
  /\ last' = [op |-> "latest", id |-> id, c |-> 0, ok |-> TRUE, res |-> Latest(Copy(src), id)]
  /\ nops' = nops + 1
  /\ UNCHANGED <<table, replica, acked>>

(* the backend's replication catching up; no call of the interface corresponds to it *)
Sync == /\ replica # table /\ replica' = table /\ UNCHANGED <<table, acked, last, nops>>

Next == \/ /\ nops < MaxOps
           /\ \/ \E id \in Ids, c \in Stamps, v \in Variants : Store(id, c, v)
              \/ \E id \in Ids, c \in Stamps, src \in ReadSources : Load(id, c, src)
              \/ \E id \in Ids, src \in ReadSources : LoadLatest(id, src)
        \/ Sync
Spec == Init /\ [][Next]_vars

-----------------------------------------------------------------------------
(* The property, clause by clause. *)

Recs == {NoRec} \cup {Put(v, c) : v \in Variants, c \in Stamps}
TypeOK == /\ table \in [Keys -> Recs] /\ replica \in [Keys -> Recs]
          /\ \A k \in Keys : table[k].found => table[k].created = k[2]
          /\ last.op \in {"none", "store", "load", "latest"}

\* the lagging copy is a sub-table of the primary (it only ever misses records)
ReplicaBehind == \A k \in Keys : replica[k] \in {NoRec, table[k]}

\* "Store inserts a record only if none exists with the same id and creation time, never changes an existing one,
\*  reports false for a duplicate"
InsertOnly == [][\A k \in Keys : table[k].found => table'[k] = table[k]]_vars
StoreContract ==
  [][(last'.op = "store" /\ nops' # nops) =>
        LET k == <<last'.id, last'.c>> IN
        /\ last'.ok = ~table[k].found                                   \* result = absent before
        /\ last'.ok => (table'[k].found /\ \A j \in Keys \ {k} : table'[j] = table[j])
        /\ ~last'.ok => table' = table]_vars
ReadsArePure == [][(last'.op \in {"load", "latest"} /\ nops' # nops) => table' = table]_vars

\* "Load returns exactly the record stored under (id, created) with every field intact or nothing;
\*  LoadLatest returns the record with the greatest creation time for the id"
ReadsPrimary ==
  /\ last.op = "load" => last.res = table[<<last.id, last.c>>]
  /\ last.op = "latest" => last.res = Latest(table, last.id)
LatestIsGreatest ==
  last.op = "latest" =>
     IF last.res.found
     THEN /\ last.res.created \in Stamps /\ last.res = table[<<last.id, last.res.created>>]
          /\ \A c \in Stamps : table[<<last.id, c>>].found => c <= last.res.created
     ELSE \A c \in Stamps : ~table[<<last.id, c>>].found

\* "reads are strongly consistent, so a completed Store is visible to every later read"
ReadYourWrites ==
  \A a \in acked :
     /\ (last.op = "load" /\ last.id = a[1] /\ last.c = a[2]) => last.res = a[3]
     /\ (last.op = "latest" /\ last.id = a[1]) => (last.res.found /\ last.res.created >= a[2])

-----------------------------------------------------------------------------
(* Record contents explored (assigned to Variants in the configuration files).  Key bytes include 0x00 and 0xFF at      *)
(* both ends and in the middle; the full-range key holds every byte value once.  Parent ids overlap with the ids of     *)
(* the table itself.                                                                                                   *)
VA == [key |-> "00ff107f80ff00", rev |-> FALSE, hasp |-> TRUE,  pid |-> "_SK_s_d", pc |-> 40]
VB == [key |-> "ff00",           rev |-> TRUE,  hasp |-> FALSE, pid |-> "",        pc |-> 0]
VC == [key |-> "000102030405060708090a0b0c0d0e0f101112131415161718191a1b1c1d1e1f202122232425262728292a2b2c2d2e2f303132333435363738393a3b3c3d3e3f404142434445464748494a4b4c4d4e4f505152535455565758595a5b5c5d5e5f606162636465666768696a6b6c6d6e6f707172737475767778797a7b7c7d7e7f808182838485868788898a8b8c8d8e8f909192939495969798999a9b9c9d9e9fa0a1a2a3a4a5a6a7a8a9aaabacadaeafb0b1b2b3b4b5b6b7b8b9babbbcbdbebfc0c1c2c3c4c5c6c7c8c9cacbcccdcecfd0d1d2d3d4d5d6d7d8d9dadbdcdddedfe0e1e2e3e4e5e6e7e8e9eaebecedeeeff0f1f2f3f4f5f6f7f8f9fafbfcfdfeff",
       rev |-> TRUE, hasp |-> TRUE, pid |-> "_IK_p_s_d", pc |-> 1700000000]
VD == [key |-> "00",             rev |-> FALSE, hasp |-> FALSE, pid |-> "",        pc |-> 0]
Variants2 == {VA, VB}
Variants3 == {VA, VB, VC}
Variants4 == {VA, VB, VC, VD}
=============================================================================
