----------------------------- MODULE RefMonitor -----------------------------
(***************************************************************************)
(* Monitor for the in-process reference-counting / locking discipline      *)
(* (properties C08 and C16), over runs of the real, instrumented code      *)
(* under the cooperative scheduler (harness/drivers/concdrv).  It sees     *)
(* only what a user of the SDK sees plus the secret allocator's view:      *)
(*   alloc / use / free of protected secrets, operation start / return,    *)
(*   which session object a GetSession handed out, and the end of the run. *)
(* Nothing about locks or reference counts appears here: the discipline is *)
(* judged by its observable consequences.                                  *)
(***************************************************************************)
EXTENDS Integers, Sequences, FiniteSets, TLC, Json

TraceLog == ndJsonDeserialize("trace.ndjson")

VARIABLES l,        \* next line
          sc,       \* scenario of the current run (from the reset event)
          live,     \* secrets allocated and not yet released
          freed,    \* secrets released
          kdec,     \* system key (kid) -> KMS unwraps since the warm-up
          warm,     \* the warm-up is over
          holders   \* part -> set of <<goroutine, session object>> currently holding a session of that partition

mvars == <<l, sc, live, freed, kdec, warm, holders>>
ev == TraceLog[l]
IsEv(e) == l <= Len(TraceLog) /\ ev.e = e /\ l' = l + 1

MInit == l = 1 /\ sc = [name |-> ""] /\ live = {} /\ freed = {} /\ holders = <<>> /\ kdec = <<>> /\ warm = FALSE

Reset == IsEv("reset") /\ sc' = ev.scenario /\ live' = {} /\ freed' = {} /\ holders' = <<>> /\ kdec' = <<>> /\ warm' = FALSE

Alloc == IsEv("alloc") /\ live' = live \cup {ev.sid} /\ UNCHANGED <<sc, freed, holders, kdec, warm>>

\* C08: a key obtained from a cache is usable: no access ever hits a destroyed secret
Use == IsEv("use") /\ ev.sid \in live /\ UNCHANGED <<sc, live, freed, holders, kdec, warm>>
\* (the event "use-after-close" has no action: a run containing one is rejected at that line)

\* C09/C16: released exactly once
Free == IsEv("free") /\ ev.sid \in live /\ ev.sid \notin freed
        /\ live' = live \ {ev.sid} /\ freed' = freed \cup {ev.sid} /\ UNCHANGED <<sc, holders, kdec, warm>>

OpStart == IsEv("opstart") /\ UNCHANGED <<sc, live, freed, holders, kdec, warm>>

\* C08 / C16: every operation that is not racing with the close of its own session or factory succeeds with the right bytes
OpRet == IsEv("opret") /\ ev.ok /\ ev.match /\ UNCHANGED <<sc, live, freed, holders, kdec, warm>>

\* C16: while a partition's session is cached (no eviction possible in this scenario), concurrent holders share one session
Held(p) == IF p \in DOMAIN holders THEN holders[p] ELSE {}
Session == /\ IsEv("session")
           /\ (sc.sessCache /\ sc.sessCap >= sc.parts /\ sc.sessExpiry = 0) => \A h \in Held(ev.part) : h[2] = ev.sptr
           /\ holders' = (ev.part :> (Held(ev.part) \cup {<<ev.g, ev.sptr>>})) @@ holders
           /\ UNCHANGED <<sc, live, freed, kdec, warm>>
Release == /\ IsEv("release")
           /\ holders' = (ev.part :> (Held(ev.part) \ {<<ev.g, ev.sptr>>})) @@ holders
           /\ UNCHANGED <<sc, live, freed, kdec, warm>>

\* after the factory is closed (and asynchronous session teardown has finished) nothing is left, nothing was closed twice
Closed == IsEv("closed") /\ ev.live = 0 /\ ev.doubleClose = 0 /\ live = {} /\ UNCHANGED <<sc, live, freed, holders, kdec, warm>>

\* C20 (concurrent part): all cached keys went stale at once (clock jumped past the revoke-check interval after the warm-up, no
\* tick since); however many sessions hit the stale system key concurrently, it is unwrapped by the KMS once
Warm == IsEv("warm") /\ warm' = TRUE /\ UNCHANGED <<sc, live, freed, holders, kdec>>
Kms == /\ IsEv("kms")
       /\ LET n == IF ev.kid \in DOMAIN kdec THEN kdec[ev.kid] ELSE 0 IN
          /\ (warm /\ ev.call = "Dec" /\ ev.fault = "none") => n = 0
          /\ kdec' = IF warm /\ ev.call = "Dec" THEN (ev.kid :> n + 1) @@ kdec ELSE kdec
       /\ UNCHANGED <<sc, live, freed, holders, warm>>

\* no deadlock / livelock / panic in this schedule
Final == IsEv("final") /\ ev.dead = "" /\ ev.panic = "" /\ UNCHANGED <<sc, live, freed, holders, kdec, warm>>

MNext == Reset \/ Warm \/ Kms \/ Alloc \/ Use \/ Free \/ OpStart \/ OpRet \/ Session \/ Release \/ Closed \/ Final
MSpec == MInit /\ [][MNext]_mvars

Disjoint == live \cap freed = {}

TraceAccepted == LET d == TLCGet("stats").diameter IN
                 IF d - 1 = Len(TraceLog) THEN TRUE ELSE Print(<<"TRACE-REJECTED-AT-LINE", d>>, FALSE)
=============================================================================
