------------------------------ MODULE SecMemConc ------------------------------
(***************************************************************************)
(* Readers and concurrent Close calls on one secret (both implementations  *)
(* share this protocol: secret.access / release / Close under the secret's *)
(* RWMutex with a condition variable) - the schedule part of property C11. *)
(* Each of access, release and the body of Close runs under the lock, so   *)
(* each is one step; a reader is "in its callback" between access and      *)
(* release.  CloseWaits = TRUE is the code; FALSE (Close does not wait for *)
(* in-flight readers) must make TLC find a reader whose page was unmapped. *)
(***************************************************************************)
EXTENDS Integers, FiniteSets, TLC
CONSTANTS Readers, Closers, MaxReads, CloseWaits
VARIABLES prot,       \* "NONE" | "RO" | "RW"
          mapped, wiped,
          count,      \* accessCounter
          closing, closed,
          rpc,        \* reader -> "idle" | "in" | "done"
          nreads,     \* reader -> reads so far
          got,        \* reader -> result of its last access: "ok" | "err" | "-"
          cpc         \* closer -> "idle" | "waiting" | "done"
vars == <<prot, mapped, wiped, count, closing, closed, rpc, nreads, got, cpc>>

Init == /\ prot = "NONE" /\ mapped = TRUE /\ wiped = FALSE /\ count = 0 /\ closing = FALSE /\ closed = FALSE
        /\ rpc = [r \in Readers |-> "idle"] /\ nreads = [r \in Readers |-> 0] /\ got = [r \in Readers |-> "-"]
        /\ cpc = [c \in Closers |-> "idle"]

Access(r) == /\ rpc[r] = "idle" /\ nreads[r] < MaxReads
             /\ nreads' = [nreads EXCEPT ![r] = @ + 1]
             /\ IF closing \/ closed
                THEN /\ got' = [got EXCEPT ![r] = "err"] /\ UNCHANGED <<prot, count, rpc>>
                ELSE /\ got' = [got EXCEPT ![r] = "ok"] /\ count' = count + 1 /\ rpc' = [rpc EXCEPT ![r] = "in"]
                     /\ prot' = IF count = 0 THEN "RO" ELSE prot
             /\ UNCHANGED <<mapped, wiped, closing, closed, cpc>>
Release(r) == /\ rpc[r] = "in" /\ count' = count - 1 /\ rpc' = [rpc EXCEPT ![r] = "idle"]
              /\ prot' = IF count = 1 THEN "NONE" ELSE prot
              /\ UNCHANGED <<mapped, wiped, closing, closed, nreads, got, cpc>>
\* Close: closing := TRUE; wait until no reader is in flight; then make writable, wipe, unlock, unmap
CloseStep(c) == /\ cpc[c] \in {"idle", "waiting"}
                /\ closing' = TRUE
                /\ IF closed THEN cpc' = [cpc EXCEPT ![c] = "done"] /\ UNCHANGED <<prot, mapped, wiped, closed>>
                   ELSE IF count = 0 \/ ~CloseWaits
                   THEN /\ prot' = "NONE" /\ wiped' = TRUE /\ mapped' = FALSE /\ closed' = TRUE /\ cpc' = [cpc EXCEPT ![c] = "done"]
                   ELSE /\ cpc' = [cpc EXCEPT ![c] = "waiting"] /\ UNCHANGED <<prot, mapped, wiped, closed>>
                /\ UNCHANGED <<count, rpc, nreads, got>>
Next == (\E r \in Readers : Access(r) \/ Release(r)) \/ (\E c \in Closers : CloseStep(c))
Spec == Init /\ [][Next]_vars /\ \A r \in Readers : WF_vars(Release(r)) /\ \A c \in Closers : WF_vars(CloseStep(c))

\* C11: a reader inside its callback sees mapped, read-only, un-wiped pages
ReaderSafe == \A r \in Readers : rpc[r] = "in" => (mapped /\ prot = "RO" /\ ~wiped)
\* C11: no access when nobody reads
IdleNoAccess == (count = 0 /\ ~closed) => prot = "NONE"
CountMatches == count = Cardinality({r \in Readers : rpc[r] = "in"})
\* C11: wiped before unmapped; gone after Close
WipedBeforeFree == ~mapped => wiped
\* C11: every Close eventually returns (no deadlock between readers and closers)
ClosersFinish == \A c \in Closers : (cpc[c] = "waiting") ~> (cpc[c] = "done")
=============================================================================
