---------------------------- MODULE KmsWipeTrace ----------------------------
(* C10, cloud-KMS part: on the runs recorded by kmsdrv (the same runs C17 is judged on) every plaintext data key the   *)
(* plugin obtained from the regional KMS - GenerateDataKey output at wrap time, Decrypt output at unwrap time - holds  *)
(* only zero bytes once EncryptKey / DecryptKey has returned.                                                           *)
EXTENDS Integers, Sequences, TLC, Json
TraceLog == ndJsonDeserialize("trace.ndjson")
VARIABLE l
ev == TraceLog[l]
IsEv(e) == l <= Len(TraceLog) /\ ev.e = e /\ l' = l + 1
TInit == l = 1
TReset == IsEv("reset")
TWrap == IsEv("wrap") /\ ev.panic = "" /\ (ev.ok => ev.wiped)
\* whether the unwrap succeeded or failed, every data key any region handed back is zero afterwards
TUnwrap == (IsEv("unwrap") \/ IsEv("unwrap2")) /\ ev.panic = "" /\ ev.wipedDecrypt
TNext == TReset \/ TWrap \/ TUnwrap
TSpec == TInit /\ [][TNext]_l
TraceAccepted == LET d == TLCGet("stats").diameter IN
                 IF d - 1 = Len(TraceLog) THEN TRUE ELSE Print(<<"TRACE-REJECTED-AT-LINE", d>>, FALSE)
=============================================================================
