----------------------------- MODULE CacheTrace -----------------------------
(* Trace validation: runs recorded from the real cache (vdrv cache-trace)   *)
(* must be behaviours of Cache.tla.  Events carry arguments and results, so *)
(* validation is linear; TLC infers only what is not logged (the victim of  *)
(* the policy-independent contract "any", the sketch's choice in "tlfu",    *)
(* and - with asynchronous eviction - how far callback delivery lags).      *)
EXTENDS Cache, Json, TLCExt

CONSTANT TlfuAs          \* how a real "tinylfu" run is checked: "any" (contract, verdict) or "tlfu" (detailed model)

TraceLog == ndJsonDeserialize("trace.ndjson")
TraceKeys == {TraceLog[i].k : i \in 1..Len(TraceLog)} \ {""}

VARIABLES l,             \* next line of TraceLog
          pend,          \* callbacks the model has fired that the log has not shown yet (asynchronous eviction)
          syncMode

tvars == <<vars, l, pend, syncMode>>

ev == TraceLog[l]
IsEvent(op) == l <= Len(TraceLog) /\ ev.op = op /\ l' = l + 1
Obs == {<<ev.cbs[i][1], ev.cbs[i][2]>> : i \in 1..Len(ev.cbs)}

\* observed callbacks are distinct, were fired by the model, and (synchronous mode) none is outstanding
Deliver(fired) == /\ Cardinality(Obs) = Len(ev.cbs)
                  /\ Obs \subseteq (pend \cup fired)
                  /\ pend' = (pend \cup fired) \ Obs
                  /\ (syncMode => pend' = {})

MapPolicy(p) == IF p = "tinylfu" THEN TlfuAs ELSE p

\* (a run that ends without Close - the repository's own tests do that - may leave callbacks of an asynchronous cache undelivered;
\*  Close itself demands that none is outstanding, and a synchronous cache never has any)
TReset == /\ IsEvent("Reset")
          /\ (pend = {} \/ ~syncMode)
          /\ cfg' = [cap |-> ev.cap, policy |-> MapPolicy(ev.policy), expiry |-> ev.expiry]
          /\ st' = EmptyState /\ now' = 0 /\ nops' = 0 /\ useLog' = <<>>
          /\ pend' = {} /\ syncMode' = ev.sync

TInit == /\ l = 1 /\ pend = {} /\ syncMode = TRUE
         /\ cfg = [cap |-> 1, policy |-> "lru", expiry |-> 0]
         /\ st = EmptyState /\ now = 0 /\ nops = 0 /\ useLog = <<>>

TSet == /\ IsEvent("Set")
        /\ \E o \in SetOutcomes(cfg, st, now, ev.k, ev.v) : st' = o.s /\ Deliver(o.cbs)
        /\ UNCHANGED <<cfg, now, nops, useLog, syncMode>>
TGet == /\ IsEvent("Get")
        /\ \E o \in GetOutcomes(cfg, st, now, ev.k) :
              st' = o.s /\ o.ok = ev.ok /\ o.rv = ev.rv /\ Deliver(o.cbs)
        /\ UNCHANGED <<cfg, now, nops, useLog, syncMode>>
TDelete == /\ IsEvent("Delete")
           /\ \E o \in DeleteOutcomes(cfg, st, ev.k) : st' = o.s /\ o.ok = ev.ok /\ Deliver(o.cbs)
           /\ UNCHANGED <<cfg, now, nops, useLog, syncMode>>
TLen == /\ IsEvent("Len") /\ ev.rv = LenOf(st) /\ Deliver({})
        /\ UNCHANGED <<cfg, st, now, nops, useLog, syncMode>>
TTick == /\ IsEvent("Tick") /\ now' = now + ev.v /\ Deliver({})
         /\ UNCHANGED <<cfg, st, nops, useLog, syncMode>>
TClose == /\ IsEvent("Close")
          /\ \E o \in CloseOutcomes(cfg, st) : st' = o.s /\ Deliver(o.cbs) /\ pend' = {}   \* Close waits for the event loop
          /\ UNCHANGED <<cfg, now, nops, useLog, syncMode>>

TNext == TReset \/ TSet \/ TGet \/ TDelete \/ TLen \/ TTick \/ TClose
TSpec == TInit /\ [][TNext]_tvars

\* every line was consumed on some branch
TraceAccepted ==
  LET d == TLCGet("stats").diameter IN
  IF d - 1 = Len(TraceLog) THEN TRUE
  ELSE Print(<<"TRACE-REJECTED-AT-LINE", d>>, FALSE)
=============================================================================
