-------------------------- MODULE KmsRegionsTrace --------------------------
(* Runs recorded from the real AWS KMS plugins (driver kmsdrv) must satisfy C17 as stated in KmsRegions.tla:        *)
(*   reset  {wplug, uplug, wcfg, wpref, genUp, encUp, ucfg, upref, decUp}   the case that was executed              *)
(*   wrap   {ok, entries, genOrder, wiped, panic}                           what EncryptKey did                      *)
(*   unwrap {ok, same, order, wipedDecrypt, panic}                          what DecryptKey did on that envelope     *)
(*   unwrap2 {ok, same, order, panic}      what the SAME instance did on it again once every region was back         *)
(* The outcome predicates WrapAllowed / UnwrapAllowed are the ones the design is checked against.  wipedDecrypt     *)
(* is recorded but belongs to C10 and is deliberately not looked at.  GenerateDataKey not starting with the         *)
(* preferred region is reported as drift (a printed line) unless StrictGenOrder is set.                              *)
EXTENDS KmsRegions, Json, TLCExt

CONSTANT StrictGenOrder

TraceLog == ndJsonDeserialize("trace.ndjson")
VARIABLE l
tvars == <<vars, l>>
ev == TraceLog[l]
IsEv(e) == l <= Len(TraceLog) /\ ev.e = e /\ l' = l + 1

CaseOf(e) == [wplug |-> e.wplug, uplug |-> e.uplug, wcfg |-> Range(e.wcfg), wpref |-> e.wpref,
              genUp |-> Range(e.genUp), encUp |-> Range(e.encUp),
              ucfg |-> Range(e.ucfg), upref |-> e.upref, decUp |-> Range(e.decUp)]
WrapObs == [ok |-> ev.ok, entries |-> Range(ev.entries), genOrder |-> ev.genOrder, wiped |-> ev.wiped]
UnwrapObs == [ok |-> ev.ok, same |-> ev.same, order |-> ev.order]

TInit == Init /\ l = 1
TReset == /\ IsEv("reset")
          /\ IsCase(CaseOf(ev))
          /\ c' = CaseOf(ev) /\ phase' = "configured" /\ w' = NoWrap /\ u' = NoUnwrap /\ u2' = NoUnwrap
TWrap == /\ IsEv("wrap") /\ phase = "configured"
         /\ ev.panic = ""
         /\ WrapAllowed(c, WrapObs)
         /\ StrictGenOrder => GenPreferredFirst(c, WrapObs)
         /\ IF ev.ok /\ ~GenPreferredFirst(c, WrapObs) THEN PrintT(<<"DRIFT-GEN-ORDER", ev.run>>) ELSE TRUE
         /\ w' = WrapObs
         /\ phase' = "wrapped" /\ UNCHANGED <<c, u, u2>>
TUnwrap == /\ IsEv("unwrap") /\ phase = "wrapped" /\ w.ok
           /\ ev.panic = ""
           /\ UnwrapAllowed(c, w.entries, UnwrapObs)
           /\ u' = UnwrapObs
           /\ phase' = "done" /\ UNCHANGED <<c, w, u2>>
TUnwrap2 == /\ IsEv("unwrap2") /\ phase = "done"
            /\ ev.panic = ""
            /\ UnwrapAllowed(Recovered(c), w.entries, UnwrapObs)
            /\ u2' = UnwrapObs
            /\ phase' = "redone" /\ UNCHANGED <<c, w, u>>

\* Never produces a successor: when an observation is not allowed it prints which clauses of C17 it breaks; the trace
\* is then rejected at that line because no action matches.
Why(S) == PrintT(<<"C17-WHY", ev.run, S>>)
TExplain ==
  /\ l <= Len(TraceLog)
  /\ \/ /\ ev.e = "wrap" /\ phase = "configured"
        /\ \/ ev.panic # "" /\ Why({"panic-in-wrap"})
           \/ ev.panic = "" /\ ~WrapAllowed(c, WrapObs) /\ Why(WrapWhy(c, WrapObs))
           \/ StrictGenOrder /\ ~GenPreferredFirst(c, WrapObs) /\ Why({"generate-data-key-not-preferred-region-first"})
     \/ /\ ev.e = "unwrap" /\ phase = "wrapped" /\ w.ok
        /\ \/ ev.panic # "" /\ Why({"panic-in-unwrap"})
           \/ ev.panic = "" /\ ~UnwrapAllowed(c, w.entries, UnwrapObs) /\ Why(UnwrapWhy(c, w.entries, UnwrapObs))
     \/ /\ ev.e = "unwrap2" /\ phase = "done"
        /\ \/ ev.panic # "" /\ Why({"panic-in-second-unwrap"})
           \/ ev.panic = "" /\ ~UnwrapAllowed(Recovered(c), w.entries, UnwrapObs)
              /\ Why({"second-unwrap-by-the-same-instance-after-recovery: " \o n : n \in UnwrapWhy(Recovered(c), w.entries, UnwrapObs)})
     \/ /\ ev.e = "unwrap" /\ ~(phase = "wrapped" /\ w.ok) /\ Why({"unwrap-event-without-a-successful-wrap"})
     \/ /\ ev.e = "reset" /\ ~IsCase(CaseOf(ev)) /\ Why({"reset-is-not-a-case-of-the-specification"})
  /\ FALSE
  /\ UNCHANGED tvars

TNext == TReset \/ TWrap \/ TUnwrap \/ TUnwrap2 \/ TExplain
TSpec == TInit /\ [][TNext]_tvars
TraceAccepted == LET d == TLCGet("stats").diameter IN
                 IF d - 1 = Len(TraceLog) THEN TRUE ELSE Print(<<"TRACE-REJECTED-AT-LINE", d>>, FALSE)
=============================================================================
