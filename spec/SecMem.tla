------------------------------- MODULE SecMem -------------------------------
(***************************************************************************)
(* Secure memory (go/securememory: protectedmemory and memguard secrets)   *)
(* at the granularity of the memory primitives of internal/memcall         *)
(* (Alloc = mmap, Lock = mlock, Protect = mprotect, Unlock = munlock,      *)
(* Free = munmap).  Properties C11 (page discipline) and C12 (behaviour    *)
(* when a primitive fails).                                                *)
(*                                                                         *)
(* One secret.  An API call is one action; inside it the primitives run in *)
(* the order of the code and the k-th primitive call of that API call      *)
(* fails iff k is in the call's fault set F (exactly what the harness's    *)
(* shadow memcall injects).  The page is [mapped, locked, prot, secret]    *)
(* where secret means "still holds the secret bytes" (not wiped).          *)
(*                                                                         *)
(* impl "pm" = protectedmemory: every primitive goes through memcall.      *)
(* impl "mg" = memguard: allocation, locking, wiping and destruction are   *)
(* inside the memguard library (cannot be failed from outside); only the   *)
(* Protect calls and the failure clean-up go through memcall.              *)
(***************************************************************************)
EXTENDS Integers, Sequences, FiniteSets, TLC

CONSTANTS Impls,        \* subset of {"pm", "mg"}
          MaxCalls,     \* API calls per behaviour
          MaxFaults,    \* failing primitive calls per behaviour
          MaxPrim,      \* largest primitive index a fault set may name
          PanicReads    \* TRUE: reads whose callback panics are explored as well

VARIABLES impl,
          pg,           \* [mapped, locked, prot, secret]
          created,      \* a secret object exists (creation succeeded)
          readers,      \* accessCounter
          closing, closed,
          inuse,        \* secrets counted by securememory.InUseCounter
          stuckRO,      \* an earlier release could not re-protect the page (the caller was told): it stays readable until a later release / Close succeeds
          ncalls, nfaults,
          last          \* observable outcome of the last API call: [op, F, ok, sawBytes, dirtyRelease]

vars == <<impl, pg, created, readers, closing, closed, inuse, stuckRO, ncalls, nfaults, last>>

\* the read calls; WithBytesPanic = WithBytes whose callback panics (the caller recovers): the call does not return normally, yet
\* the reader is gone and the page discipline is the same as after any other read
ReadOps == {"WithBytes", "WithBytesFunc", "Reader", "WithBytesPanic"}

NoPage == [mapped |-> FALSE, locked |-> FALSE, prot |-> "NONE", secret |-> FALSE]
NoLast == [op |-> "", F |-> {}, ok |-> TRUE, sawBytes |-> FALSE, dirtyRelease |-> FALSE]

\* ---------------------------------------------------------------- creation
\* protectedmemory.New / CreateRandom: 1 Alloc, 2 Lock, (fill), 3 Protect(NONE);
\*   Lock fails -> 3 Free ; Protect fails -> wipe, 4 Unlock, 5 Free
\* memguard.New / CreateRandom: (library allocates, locks, fills), 1 Protect(NONE); fails -> wipe, 2 Unlock, 3 Free
\* dirtyRelease: a page still holding secret bytes was unlocked or released
Create(i, F) ==
  IF i = "pm" THEN
    IF 1 \in F THEN [pg |-> NoPage, ok |-> FALSE, dirty |-> FALSE]
    ELSE IF 2 \in F THEN [pg |-> [NoPage EXCEPT !.mapped = 3 \in F, !.prot = "RW"], ok |-> FALSE, dirty |-> FALSE]
    ELSE IF 3 \in F THEN [pg |-> [mapped |-> 5 \in F, locked |-> 4 \in F, prot |-> "RW", secret |-> FALSE], ok |-> FALSE, dirty |-> FALSE]
    ELSE [pg |-> [mapped |-> TRUE, locked |-> TRUE, prot |-> "NONE", secret |-> TRUE], ok |-> TRUE, dirty |-> FALSE]
  ELSE
    IF 1 \in F THEN [pg |-> [mapped |-> 3 \in F, locked |-> 2 \in F, prot |-> "RW", secret |-> FALSE], ok |-> FALSE, dirty |-> FALSE]
    ELSE [pg |-> [mapped |-> TRUE, locked |-> TRUE, prot |-> "NONE", secret |-> TRUE], ok |-> TRUE, dirty |-> FALSE]

\* ---------------------------------------------------------------- read (WithBytes / WithBytesFunc / Reader.Read)
\* access: (readers = 0) 1 Protect(RO) ; callback ; release: (readers back to 0) 2 Protect(NONE)
Read(p, F) ==
  IF 1 \in F THEN [pg |-> p, ok |-> FALSE, saw |-> FALSE]                                \* nothing changed: still no access
  ELSE IF 2 \in F THEN [pg |-> [p EXCEPT !.prot = "RO"], ok |-> FALSE, saw |-> TRUE]      \* callback ran; the caller is told the page stayed readable
  ELSE [pg |-> [p EXCEPT !.prot = "NONE"], ok |-> TRUE, saw |-> TRUE]

\* ---------------------------------------------------------------- Close
\* protectedmemory: 1 Protect(RW), wipe, 2 Unlock, 3 Free ; any failure returns the error, the call can be repeated
\* memguard: LockedBuffer.Destroy() (inside the library)
CloseIt(i, p, F) ==
  IF i = "mg" THEN [pg |-> NoPage, ok |-> TRUE]
  ELSE IF 1 \in F THEN [pg |-> p, ok |-> FALSE]
  ELSE IF 2 \in F THEN [pg |-> [p EXCEPT !.prot = "RW", !.secret = FALSE], ok |-> FALSE]
  ELSE IF 3 \in F THEN [pg |-> [p EXCEPT !.prot = "RW", !.secret = FALSE, !.locked = FALSE], ok |-> FALSE]
  ELSE [pg |-> NoPage, ok |-> TRUE]

FaultSets == {F \in SUBSET (1..MaxPrim) : Cardinality(F) <= 2}
Budget(F) == nfaults + Cardinality(F) <= MaxFaults

Init == /\ impl \in Impls /\ pg = NoPage /\ created = FALSE /\ readers = 0 /\ closing = FALSE /\ closed = FALSE
        /\ inuse = 0 /\ stuckRO = FALSE /\ ncalls = 0 /\ nfaults = 0 /\ last = NoLast

DoCreate(op) == /\ ~created /\ ~closed /\ ncalls < MaxCalls /\ pg = NoPage
                /\ \E F \in FaultSets : /\ Budget(F)
                     /\ LET r == Create(impl, F) IN
                        /\ pg' = r.pg /\ created' = r.ok /\ inuse' = inuse + (IF r.ok THEN 1 ELSE 0)
                        /\ last' = [op |-> op, F |-> F, ok |-> r.ok, sawBytes |-> FALSE, dirtyRelease |-> r.dirty]
                     /\ nfaults' = nfaults + Cardinality(F)
                /\ ncalls' = ncalls + 1 /\ UNCHANGED <<impl, readers, closing, closed, stuckRO>>

DoRead(op) == /\ created /\ ncalls < MaxCalls
              /\ IF closing \/ closed
                 THEN /\ last' = [op |-> op, F |-> {}, ok |-> FALSE, sawBytes |-> FALSE, dirtyRelease |-> FALSE]   \* error, no primitive, no fault
                      /\ UNCHANGED <<pg, nfaults, stuckRO>>
                 ELSE \E F \in FaultSets : /\ Budget(F) /\ F \subseteq {1, 2}
                      /\ LET r == Read(pg, F) IN
                         /\ pg' = r.pg /\ last' = [op |-> op, F |-> F, ok |-> r.ok /\ op # "WithBytesPanic", sawBytes |-> r.saw, dirtyRelease |-> FALSE]
                         /\ stuckRO' = IF 1 \in F THEN stuckRO ELSE (2 \in F)
                      /\ nfaults' = nfaults + Cardinality(F)
              /\ ncalls' = ncalls + 1 /\ UNCHANGED <<impl, created, readers, closing, closed, inuse>>

DoClose == /\ created /\ ncalls < MaxCalls
           /\ IF closed
              THEN /\ last' = [op |-> "Close", F |-> {}, ok |-> TRUE, sawBytes |-> FALSE, dirtyRelease |-> FALSE]
                   /\ UNCHANGED <<pg, closed, inuse, nfaults, stuckRO>>
              ELSE \E F \in FaultSets : /\ Budget(F) /\ F \subseteq {1, 2, 3} /\ (impl = "mg" => F = {})
                   /\ LET r == CloseIt(impl, pg, F) IN
                      /\ pg' = r.pg /\ closed' = r.ok /\ inuse' = inuse - (IF r.ok THEN 1 ELSE 0)
                      /\ stuckRO' = IF 1 \in F THEN stuckRO ELSE FALSE
                      /\ last' = [op |-> "Close", F |-> F, ok |-> r.ok, sawBytes |-> FALSE, dirtyRelease |-> FALSE]
                   /\ nfaults' = nfaults + Cardinality(F)
           /\ closing' = TRUE
           /\ ncalls' = ncalls + 1 /\ UNCHANGED <<impl, created, readers>>

Next == \/ DoCreate("New") \/ DoCreate("CreateRandom")
        \/ DoRead("WithBytes") \/ DoRead("WithBytesFunc") \/ DoRead("Reader") \/ (PanicReads /\ DoRead("WithBytesPanic"))
        \/ DoClose
Spec == Init /\ [][Next]_vars

-----------------------------------------------------------------------------
\* C11: whenever no reader callback runs and no primitive failed in the last read, the bytes are not accessible
IdleNoAccess == (created /\ ~closed /\ readers = 0 /\ ~stuckRO /\ ~closing) => pg.prot = "NONE"
\* C11: mapped secret pages are locked; Close unmaps and the secret is gone
LockedWhileLive == (created /\ ~closing) => (pg.mapped /\ pg.locked /\ pg.secret)
ClosedGone == closed => (~pg.mapped /\ ~pg.locked /\ ~pg.secret)
\* C11: a read either shows the bytes or returns an error; after Close began it is an error
ReadAfterClose == (last.op \in ReadOps /\ closing) => ~last.ok /\ ~last.sawBytes
\* C12: a creation that failed returns an error and, unless its clean-up primitives failed too, leaves nothing mapped or locked
FailedCreateLeavesNothing ==
   (last.op \in {"New", "CreateRandom"} /\ ~last.ok /\ Cardinality(last.F) = 1) => (~pg.mapped /\ ~pg.locked)
\* C12: ... and never leaves readable secret bytes behind
FailedCreateNoSecret == (last.op \in {"New", "CreateRandom"} /\ ~last.ok) => ~pg.secret
\* C12: a failed attempt to open the secret for reading leaves it inaccessible with the reader count unchanged
FailedOpenLeavesNoAccess == (last.op \in ReadOps /\ 1 \in last.F) => ((pg.prot = "NONE" \/ stuckRO) /\ readers = 0 /\ ~last.sawBytes)
\* C12: secret bytes are zeroed before their pages are unlocked or released
NeverDirtyRelease == ~last.dirtyRelease
\* C12: the in-use accounting stays balanced
InUseBalanced == inuse = (IF created /\ ~closed THEN 1 ELSE 0)
\* C12: a failed Close can be retried: Close stays enabled until it succeeded (checked as: closing /\ ~closed => ENABLED DoClose)
=============================================================================
