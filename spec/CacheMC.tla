------------------------------- MODULE CacheMC -------------------------------
(* Exhaustive design check of Cache.tla: ghost log in the state (no VIEW), so *)
(* the LRU / LFU definitions are checked in every reachable state.            *)
EXTENDS Cache
CONSTANTS MaxCap, Policies, Expiries
MCConfigs == {[cap |-> c, policy |-> p, expiry |-> e] : c \in 1..MaxCap, p \in Policies, e \in Expiries}
=============================================================================
