---------------------------- MODULE EnvelopeGen ----------------------------
(* Behaviour generation for Envelope.tla.  hist records what an outside      *)
(* driver needs to re-enact a behaviour against real factories:              *)
(*   cmd  - API call / environment action,                                   *)
(*   call - the next external call of process p proceeds (with this fault),  *)
(*   ret  - the operation of process p returned (expected outcome).          *)
(* Whenever an operation returns, the behaviour so far is printed as one     *)
(* JSON test case.  With VIEW ViewVars every reachable state of Envelope is  *)
(* visited once, so each operation-return transition of the state graph is   *)
(* emitted exactly once, together with one witness path.                     *)
EXTENDS EnvelopeMC, Json

CONSTANT EmitEvery       \* 1: every case; n: a random 1/n sample (thorough configurations with huge graphs)

VARIABLE hist
gvars == <<vars, hist>>

CmdRec == [t |-> "cmd", cmd |-> cmd'.cmd, p |-> cmd'.p, part |-> cmd'.part, rec |-> cmd'.rec, d |-> cmd'.d, k |-> cmd'.k, created |-> cmd'.created]
CallRec(q) == [t |-> "call", p |-> q, kind |-> xc'[q].kind, k |-> xc'[q].k, part |-> xc'[q].part, created |-> xc'[q].created, fault |-> xc'[q].fault, res |-> xc'[q].res]
RetRec(q) == [t |-> "ret", p |-> q, kind |-> ret'[q].kind, ok |-> ret'[q].ok, part |-> ret'[q].part, rec |-> ret'[q].rec, calls |-> ret'[q].calls, faults |-> ret'[q].faults]

Called == {q \in Procs : xc'[q].n # xc[q].n}
Returned == {q \in Procs : ret'[q].n # ret[q].n}

GInit == Init /\ hist = <<>>
GNext == /\ Next
         /\ hist' = hist \o (IF cmd'.n # cmd.n THEN <<CmdRec>> ELSE <<>>)
                         \o (IF Called # {} THEN <<CallRec(CHOOSE q \in Called : TRUE)>> ELSE <<>>)
                         \o (IF Returned # {} THEN <<RetRec(CHOOSE q \in Returned : TRUE)>> ELSE <<>>)
         /\ (Returned # {} /\ (EmitEvery = 1 \/ RandomElement(1..EmitEvery) = 1))
              => PrintT(ToJson([params |-> [E |-> E, R |-> R, P |-> P, t0 |-> P, frac |-> Frac], cfg |-> cfg, viol |-> viol', path |-> hist']))
GSpec == GInit /\ [][GNext]_gvars
=============================================================================
