--------------------------- MODULE KmsRegionsGen ---------------------------
(* Case generation for KmsRegions.tla: every case of the C17 quantifier (plugin pair, region sets, preferred regions, *)
(* failing subsets at wrap and unwrap time) is printed once as one JSON line, which the driver kmsdrv runs on the    *)
(* real plugins.  GSpec also explores the design outcomes of every case, so the invariants of KmsRegions.tla are     *)
(* checked in the same TLC run; GCasesOnly stops after the configuration step (for the very large families).        *)
EXTENDS KmsRegions, Json
GConfigure == ConfigureWith(LAMBDA k : PrintT(ToJson(k)))
GNext == GConfigure \/ Wrap \/ Unwrap \/ Reunwrap
GSpec == Init /\ [][GNext]_vars
GCasesOnly == Init /\ [][GConfigure]_vars
=============================================================================
