------------------------------ MODULE CacheGen ------------------------------
(* Behaviour generation for Cache.tla: every transition of the reachable    *)
(* state graph is printed once as a JSON test case                           *)
(*   {cfg, path: inputs leading to the source state, step: input + expected} *)
(* which harness `vdrv cache-replay` runs against the real cache.            *)
EXTENDS Cache, Json

VARIABLE hist            \* inputs that led to the current state (one witness path; excluded from VIEW)

gvars == <<vars, hist>>
GenView == <<cfg, st, now>>

In(op, k, v) == [op |-> op, k |-> k, v |-> v]
H(op, k, v, cbs) == [op |-> op, k |-> k, v |-> v, n |-> Cardinality(cbs)]   \* path element: input + number of callbacks it fires
Emit(in, ok, rv, cbs, s2) ==
  PrintT(ToJson([cfg |-> cfg, path |-> hist,
                 step |-> [op |-> in.op, k |-> in.k, v |-> in.v, ok |-> ok, rv |-> rv,
                           cbs |-> cbs, len |-> LenOf(s2)]]))

GInit == Init /\ hist = <<>>

GSet(k, v) == /\ nops < MaxOps
              /\ \E o \in SetOutcomes(cfg, st, now, k, v) :
                    /\ st' = o.s /\ useLog' = Log(st, o.s, k, ~st.closed)
                    /\ nops' = nops + 1 /\ UNCHANGED <<cfg, now>>
                    /\ hist' = Append(hist, H("Set", k, v, o.cbs))
                    /\ Emit(In("Set", k, v), TRUE, 0, o.cbs, o.s)
GGet(k)    == /\ nops < MaxOps
              /\ \E o \in GetOutcomes(cfg, st, now, k) :
                    /\ st' = o.s /\ useLog' = Log(st, o.s, k, o.ok)
                    /\ nops' = nops + 1 /\ UNCHANGED <<cfg, now>>
                    /\ hist' = Append(hist, H("Get", k, 0, o.cbs))
                    /\ Emit(In("Get", k, 0), o.ok, o.rv, o.cbs, o.s)
GDelete(k) == /\ nops < MaxOps
              /\ \E o \in DeleteOutcomes(cfg, st, k) :
                    /\ st' = o.s
                    /\ nops' = nops + 1 /\ UNCHANGED <<cfg, now, useLog>>
                    /\ hist' = Append(hist, H("Delete", k, 0, o.cbs))
                    /\ Emit(In("Delete", k, 0), o.ok, 0, o.cbs, o.s)
GClose     == /\ nops < MaxOps
              /\ \E o \in CloseOutcomes(cfg, st) :
                    /\ st' = o.s
                    /\ nops' = nops + 1 /\ UNCHANGED <<cfg, now, useLog>>
                    /\ hist' = Append(hist, H("Close", "", 0, o.cbs))
                    /\ Emit(In("Close", "", 0), TRUE, 0, o.cbs, o.s)
GTick      == /\ nops < MaxOps /\ cfg.expiry > 0 /\ now < MaxT
              /\ now' = now + 1
              /\ nops' = nops + 1 /\ UNCHANGED <<cfg, st, useLog>>
              /\ hist' = Append(hist, H("Tick", "", 1, {}))
              /\ Emit(In("Tick", "", 1), TRUE, 0, {}, st)

GNext == \/ \E k \in Keys, v \in Vals : GSet(k, v)
         \/ \E k \in Keys : GGet(k) \/ GDelete(k)
         \/ GClose \/ GTick

GSpec == GInit /\ [][GNext]_gvars

CONSTANTS MaxCap, Policies, Expiries
GenConfigs == {[cap |-> c, policy |-> p, expiry |-> e] : c \in 1..MaxCap, p \in Policies, e \in Expiries}
=============================================================================
