-------------------------- MODULE MetastoreRaceTrace --------------------------
(* C13 under concurrency: goroutines race to Store different records under one (id, created) in the in-memory metastore   *)
(* (schedules of the real code under the cooperative scheduler). Exactly one is told true - Store inserts only if absent - *)
(* and the record loaded afterwards is the winner's: an existing record is never changed.                                   *)
EXTENDS Integers, Sequences, FiniteSets, TLC, Json
TraceLog == ndJsonDeserialize("trace.ndjson")
VARIABLES l, winners
ev == TraceLog[l]
IsEv(e) == l <= Len(TraceLog) /\ ev.e = e /\ l' = l + 1
TInit == l = 1 /\ winners = {}
TReset == IsEv("reset") /\ winners' = {}
TStore == IsEv("store") /\ ~ev.err /\ winners' = (IF ev.ok THEN winners \cup {ev.g} ELSE winners)
TLoaded == IsEv("loaded") /\ Cardinality(winners) = 1 /\ ev.who \in winners /\ UNCHANGED winners
TFinal == IsEv("final") /\ ev.dead = "" /\ UNCHANGED winners
TNext == TReset \/ TStore \/ TLoaded \/ TFinal
TSpec == TInit /\ [][TNext]_<<l, winners>>
TraceAccepted == LET d == TLCGet("stats").diameter IN
                 IF d - 1 = Len(TraceLog) THEN TRUE ELSE Print(<<"TRACE-REJECTED-AT-LINE", d>>, FALSE)
=============================================================================
