---------------------------- MODULE TamperTrace ----------------------------
(* what the real Decrypt / Load did with each assembled record: never a panic, never bytes other than the payload that  *)
(* was originally encrypted under that Data, and exactly the outcome the ideal-AEAD model gives.                        *)
EXTENDS Tamper, Sequences, Json
TraceLog == ndJsonDeserialize("trace.ndjson")
VARIABLE l
ev == TraceLog[l]
IsEv(e) == l <= Len(TraceLog) /\ ev.e = e /\ l' = l + 1
TInit == l = 1
TReset == IsEv("reset")
TCase == /\ IsEv("case")
         /\ ev.result # "panic"                                            \* no crash
         /\ (ev.result = "ok" => ev.same)                                  \* never other bytes
         /\ LET c == [data |-> ev.data, key |-> ev.key, meta |-> ev.meta, ik |-> ev.ik, sk |-> ev.sk] IN
            ev.result = Outcome(c)[1]                                      \* genuine records decrypt, everything else is an error
TNext == TReset \/ TCase
TSpec == TInit /\ [][TNext]_l
TraceAccepted == LET d == TLCGet("stats").diameter IN
                 IF d - 1 = Len(TraceLog) THEN TRUE ELSE Print(<<"TRACE-REJECTED-AT-LINE", d>>, FALSE)
=============================================================================
