---------------------------- MODULE ServerTrace ----------------------------
(* Streams recorded from the real sidecar handler must be behaviours of Server.tla: the response class observed for   *)
(* each request has to be one the property allows in the stream's state; a panic, a missing or an extra reply rejects. *)
EXTENDS Server, Json, TLCExt

TraceLog == ndJsonDeserialize("trace.ndjson")
VARIABLE l
tvars == <<vars, l>>
ev == TraceLog[l]
IsEv(e) == l <= Len(TraceLog) /\ ev.e = e /\ l' = l + 1

TInit == Init /\ l = 1
TReset == IsEv("reset") /\ h' = "uninit" /\ reqs' = <<>> /\ allowed' = <<>> /\ nresp' = 0 /\ closed' = FALSE
TReq == /\ IsEv("req") /\ ~closed
        /\ ev.class \in Allowed(h, ev.r)              \* the observed class is allowed here
        /\ ev.match                                    \* decrypted bytes are the original / the record is well-formed
        /\ h' = NextState(h, ev.r, ev.class)
        /\ reqs' = Append(reqs, ev.r) /\ allowed' = Append(allowed, Allowed(h, ev.r)) /\ nresp' = nresp + 1
        /\ UNCHANGED closed
TEof == /\ IsEv("eof") /\ ~closed
        /\ ev.panic = "" /\ ev.err = ""               \* the handler returned normally
        /\ ev.nresp = ev.nreq /\ ev.nresp = nresp     \* exactly one reply per request
        /\ closed' = TRUE /\ UNCHANGED <<h, reqs, allowed, nresp>>
TNext == TReset \/ TReq \/ TEof
TSpec == TInit /\ [][TNext]_tvars
TraceAccepted == LET d == TLCGet("stats").diameter IN
                 IF d - 1 = Len(TraceLog) THEN TRUE ELSE Print(<<"TRACE-REJECTED-AT-LINE", d>>, FALSE)
=============================================================================
