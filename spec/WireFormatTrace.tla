-------------------------- MODULE WireFormatTrace --------------------------
(* What the documentation-derived reference codec really found on each channel (recorded by harness/drivers/wiredrv) is  *)
(* held against the layout functions of WireFormat.tla.  One run = reset + one "case" event carrying the case's shape,     *)
(* the document trees of the data row record and of the two key rows, the ids and created stamps under which the rows are *)
(* filed, the links between them, the blob lengths, and the outcome of each byte-level step (AES-GCM opening under the    *)
(* documented cut, payload comparison, what the SDK itself returned).  Violated(e) is the set of layout rules the event   *)
(* breaks; the event is a step of the specification iff that set is empty.  On rejection the set is printed so that the   *)
(* finding can name the rule.                                                                                             *)
EXTENDS WireFormat, Json, TLCExt

TraceLog == ndJsonDeserialize("trace.ndjson")
VARIABLE l
tvars == <<vars, l>>
ev == TraceLog[l]
IsEv(e) == l <= Len(TraceLog) /\ ev.e = e /\ l' = l + 1

ToSet(s) == { s[i] : i \in 1..Len(s) }
StampPrecision == 86400  \* seconds; key rows are stamped with the creation second cut to the policy precision (default one minute): a day of slack keeps this about the UNIT
Rule(name, holds) == IF holds THEN {} ELSE {name}

Shape(e) == [ ch |-> e.ch, dir |-> e.dir, len |-> e.len, part |-> e.part, svc |-> e.svc, prod |-> e.prod, region |-> e.region,
              skrev |-> e.skrev, ikrev |-> e.ikrev, stamp |-> e.stamp ]

\* every way a Revoked field could show up in a key row of format f
RevokedLeaves(f) ==
  LET pfx == IF f = "ddb" THEN Name(f, "KeyRecord") ELSE ""
      prims == IF f = "ddb" THEN {"BOOL:true", "BOOL:false", "NULL", "S", "N", "M", "B", "L", "empty"}
               ELSE {"true", "false", "null", "string", "number", "object", "array"} IN
  { Path(pfx, Name(f, "Revoked")) \o ":" \o p : p \in prims }
ParentLeaves(f) ==
  LET pfx == IF f = "ddb" THEN Name(f, "KeyRecord") ELSE ""
      prims == IF f = "ddb" THEN {"BOOL:true", "BOOL:false", "NULL", "S", "N", "M", "B", "L", "empty"}
               ELSE {"true", "false", "null", "string", "number", "object", "array"} IN
  { Path(pfx, Name(f, "Parent")) \o ":" \o p : p \in prims }

\* rules about one key row: which = "sk" / "ik", seen = the leaves found, want = the row the documentation describes
RowRules(which, f, seen, want) ==
  LET rev == seen \cap RevokedLeaves(f)
      par == seen \cap ParentLeaves(f) IN
       Rule(which \o "-row-revoked-only-when-true", rev = Render(want.doc) \cap RevokedLeaves(f))
  \cup Rule(which \o "-row-parent-key-meta-presence", par = Render(want.doc) \cap ParentLeaves(f))
  \cup Rule(which \o "-row-fields", seen = Render(want.doc))

\* the observed records as terms of the ideal-AEAD algebra: a blob is sealed under the expected key iff the reference
\* reader could open it with that key, and it has the segments its length gives under the documented cut
ObsBlob(opened, k, pt, total) == [ under |-> IF opened THEN k ELSE "unknown", pt |-> pt, segs |-> Slice(total) ]
ObsStore(e) == { [ id |-> e.sk_row_id, created |-> e.sk_row_created, parent |-> <<>>,
                   key |-> ObsBlob(e.open_sk, "mk", "sk", e.sk_blob_len) ],
                 [ id |-> e.ik_row_id, created |-> e.ik_row_created, parent |-> << e.ik_parent_id, e.ik_parent_created >>,
                   key |-> ObsBlob(e.open_ik, "sk", "ik", e.ik_blob_len) ] }
ObsDRR(e) == [ parent |-> << e.drr_parent_id, e.drr_parent_created >>,
               key |-> ObsBlob(e.open_drk, "ik", "drk", e.drk_blob_len),
               data |-> ObsBlob(e.open_data, "drk", IF e.payload_match THEN "payload" ELSE "other-bytes", e.data_len) ]

Violated(e) ==
  LET c0 == Shape(e)
      \* the rows carry the WRITER's region suffix; on a cross-region read (global table) it differs from the reader's
      c == [c0 EXCEPT !.region = e.writer_region]
      skid == SKId(c.svc, c.prod, c.region)
      ikid == IKId(c.part, c.svc, c.prod, c.region)
      rf == RowFormat(c.ch) IN
       Rule("case-shape", c0.ch \in AllChannels /\ c0.dir \in AllDirections /\ (c0.region = "" \/ SuffixAllowed(c0.ch))
                          /\ (c0.region = "" => e.writer_region = "") /\ (e.writer_region # c0.region => c0.dir = "ref-to-sdk"))
  \cup Rule("sdk-operation-failed", e.sdk_ok)
  \cup Rule("sdk-returned-other-bytes", e.sdk_ok => e.sdk_match)
  \cup ToSet(e.mismatch)                                            \* base64, integer literals, syntax: found by the codec
  \* the data row record
  \cup Rule("drr-fields", ToSet(e.drr_doc) = Render(DRROf(c).doc))
  \cup Rule("drr-names-intermediate-key-id", e.drr_parent_id = ikid)
  \cup Rule("data-is-ct-tag-nonce", e.data_len = BlobLen(c.len))
  \cup Rule("drk-is-ct-tag-nonce", e.drk_blob_len = BlobLen(KeyLen))
  \* the intermediate key row: filed under the id and stamp the record names
  \cup Rule("ik-row-not-found-under-parent-key-meta", e.ik_found)
  \cup (IF e.ik_found THEN
             RowRules("ik", rf, ToSet(e.ik_doc), IKRowOf(c))
        \cup Rule("ik-row-id", e.ik_row_id = ikid)
        \cup Rule("ik-row-filed-under-its-created", e.ik_row_created = e.ik_created)
        \cup Rule("ik-names-system-key-id", e.ik_parent_id = skid)
        \cup Rule("ik-is-ct-tag-nonce", e.ik_blob_len = BlobLen(KeyLen))
        \cup Rule("sk-row-not-found-under-parent-key-meta", e.sk_found)
        ELSE {})
  \cup (IF e.ik_found /\ e.sk_found THEN
             RowRules("sk", rf, ToSet(e.sk_doc), SKRowOf(c))
        \cup Rule("sk-row-id", e.sk_row_id = skid)
        \cup Rule("sk-row-filed-under-its-created", e.sk_row_created = e.sk_created)
        \* the system key envelope is what the KMS returned: ct|tag|nonce under the master key plus the KMS's own trailer (kms_frame
        \* bytes, 0..2, so that the stored base64 text goes through all its padding classes)
        \cup Rule("sk-is-ct-tag-nonce", e.kms_frame \in 0..2 /\ e.sk_blob_len = BlobLen(KeyLen) + e.kms_frame)
        \* the walk down the hierarchy with AES-256-GCM under the documented cut
        \cup Rule("gcm-open-system-key-under-master-key", e.open_sk)
        \cup Rule("gcm-open-intermediate-key-under-system-key", e.open_sk => e.open_ik)
        \cup Rule("gcm-open-data-row-key-under-intermediate-key", e.open_ik => e.open_drk)
        \cup Rule("gcm-open-data-under-data-row-key", e.open_drk => e.open_data)
        \cup Rule("keys-are-32-bytes", e.open_drk => (e.sk_len = KeyLen /\ e.ik_len = KeyLen /\ e.drk_len = KeyLen))
        \cup Rule("payload-recovered", e.open_data => e.payload_match)
        \cup Rule("reader-recovers-payload", ReadResult(ObsStore(e), ObsDRR(e)) = "payload")
        \* Created is the epoch SECOND of creation: the data row key carries the second of the encrypt call, key rows that
        \* second cut to the creation-date precision of the policy (within StampPrecision).  Only when the SDK's clock was driven.
        \cup Rule("created-is-epoch-seconds-of-creation",
                  (e.dir = "sdk-to-ref" /\ e.clock # "") =>
                     /\ e.drk_created_delta = 0
                     /\ e.ik_created_delta <= 0 /\ e.ik_created_delta > 0 - StampPrecision
                     /\ e.sk_created_delta <= 0 /\ e.sk_created_delta > 0 - StampPrecision)
        \* the SDK reading the same rows sees the same revoked flags
        \cup Rule("sdk-reads-revoked-flag", e.sdk_read /\ e.sdk_sk_revoked = c.skrev /\ e.sdk_ik_revoked = c.ikrev)
        ELSE {})

TInit == Init /\ l = 1
TReset == /\ IsEv("reset")
          /\ phase' = "idle" /\ case' = NoCase /\ store' = {} /\ drr' = <<>> /\ result' = "none"
\* the whole exchange of one case (Pick, WriteKeys, WriteDRR, Read) as one step, taken only if the observation conforms
TCase == /\ IsEv("case") /\ phase = "idle"
         /\ LET v == Violated(ev) IN IF v = {} THEN TRUE ELSE PrintT(<<"RULES-VIOLATED", ev.run, v>>) /\ FALSE
         /\ LET c == Shape(ev) IN
              /\ phase' = "read" /\ case' = c
              /\ store' = { SKRowOf(c), IKRowOf(c) } /\ drr' = DRROf(c)
              /\ result' = ReadResult({ SKRowOf(c), IKRowOf(c) }, DRROf(c))
TNext == TReset \/ TCase
TSpec == TInit /\ [][TNext]_tvars
TraceAccepted == LET d == TLCGet("stats").diameter IN
                 IF d - 1 = Len(TraceLog) THEN TRUE ELSE Print(<<"TRACE-REJECTED-AT-LINE", d>>, FALSE)
=============================================================================
