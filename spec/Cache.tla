------------------------------- MODULE Cache -------------------------------
(***************************************************************************)
(* Sequential model of go/appencryption/pkg/cache: cache.go + lru.go       *)
(* (lru, slru), lfu.go, tlfu.go.  One action per public call; the body of  *)
(* each call is a pure operator from cache state to a set of outcomes      *)
(* [s |-> new state, ok/rv |-> result, cbs |-> evict callbacks fired].     *)
(*                                                                         *)
(* Property C15.  Policies "lru", "lfu", "slru" are modelled exactly (their *)
(* victim is part of the property); "any" is the policy-independent        *)
(* contract (victim = any resident entry) used for tinylfu, whose victim   *)
(* the property does not constrain.  "tlfu" is the detailed TinyLFU model  *)
(* (admission window + SLRU, sketch comparison abstracted to a choice) -   *)
(* used for conformance of large-capacity traces, never for a verdict.     *)
(***************************************************************************)
EXTENDS Integers, Sequences, FiniteSets, TLC

CONSTANTS Keys,      \* key universe
          Vals,      \* value universe (positive integers; 0 = none)
          Configs,   \* set of [cap, policy, expiry] records explored
          MaxOps,    \* bound on operations per behaviour
          MaxT       \* bound on the clock

VARIABLES cfg,       \* configuration of this behaviour
          st,        \* cache state (record, see EmptyState)
          now,       \* virtual clock
          nops,      \* number of operations so far
          useLog     \* ghost: <<key, "admit"|"use">> in order - the definitions of LRU/LFU are stated over it

vars == <<cfg, st, now, nops, useLog>>

-----------------------------------------------------------------------------
SeqRemove(s, k) == SelectSeq(s, LAMBDA x : x # k)
PushFront(s, k) == <<k>> \o s
Last(s)         == s[Len(s)]
InSeq(s, k)     == \E i \in 1..Len(s) : s[i] = k
Range(s)        == {s[i] : i \in 1..Len(s)}
SetMin(S)       == CHOOSE x \in S : \A y \in S : x <= y

EmptyState == [present |-> {},
               val     |-> [k \in Keys |-> 0],
               exp     |-> [k \in Keys |-> 0],
               ord     |-> <<>>,                  \* lru: MRU first.  lfu: order of entry into the current bucket, oldest first
               freq    |-> [k \in Keys |-> 0],    \* lfu
               prob    |-> <<>>,                  \* slru probation, MRU first
               prot    |-> <<>>,                  \* slru protected, MRU first
               win     |-> <<>>,                  \* tlfu admission window, MRU first
               closed  |-> FALSE]

\* lru.go:119  protectedCapacity = int(float64(capacity) * 0.8)
ProtCap(cap) == (cap * 8) \div 10
\* tlfu.go:58  lruCap = int(float64(capacity) * 0.01)
WinCap(cap)  == cap \div 100

-----------------------------------------------------------------------------
(* policy.Admit / Access / Remove / Victim                                   *)

SlruAccess(c, s, k) ==
  IF InSeq(s.prot, k)
  THEN [s EXCEPT !.prot = PushFront(SeqRemove(s.prot, k), k)]
  ELSE LET p1 == PushFront(s.prot, k)
           q1 == SeqRemove(s.prob, k)
       IN IF Len(p1) > ProtCap(IF c.policy = "tlfu" THEN c.cap - WinCap(c.cap) ELSE c.cap)
          THEN [s EXCEPT !.prot = SubSeq(p1, 1, Len(p1) - 1), !.prob = PushFront(q1, Last(p1))]
          ELSE [s EXCEPT !.prot = p1, !.prob = q1]

Admit(c, s, k) ==
  CASE c.policy = "lru"  -> [s EXCEPT !.ord = PushFront(s.ord, k)]
    [] c.policy = "lfu"  -> [s EXCEPT !.ord = Append(s.ord, k), !.freq[k] = 1]
    [] c.policy = "slru" -> [s EXCEPT !.prob = PushFront(s.prob, k)]
    [] c.policy = "tlfu" -> IF WinCap(c.cap) = 0 THEN [s EXCEPT !.prob = PushFront(s.prob, k)]
                            ELSE IF Len(s.win) < WinCap(c.cap) THEN [s EXCEPT !.win = PushFront(s.win, k)]
                            ELSE [s EXCEPT !.win  = PushFront(SubSeq(s.win, 1, Len(s.win) - 1), k),
                                           !.prob = PushFront(s.prob, Last(s.win))]
    [] OTHER             -> s

Access(c, s, k) ==
  CASE c.policy = "lru"  -> [s EXCEPT !.ord = PushFront(SeqRemove(s.ord, k), k)]
    [] c.policy = "lfu"  -> [s EXCEPT !.ord = Append(SeqRemove(s.ord, k), k), !.freq[k] = @ + 1]
    [] c.policy = "slru" -> SlruAccess(c, s, k)
    [] c.policy = "tlfu" -> IF InSeq(s.win, k) THEN [s EXCEPT !.win = PushFront(SeqRemove(s.win, k), k)]
                            ELSE SlruAccess(c, s, k)
    [] OTHER             -> s

Remove(c, s, k) ==
  [s EXCEPT !.ord = SeqRemove(s.ord, k), !.freq[k] = 0,
            !.prob = SeqRemove(s.prob, k), !.prot = SeqRemove(s.prot, k), !.win = SeqRemove(s.win, k)]

SlruVictim(s) == IF s.prob # <<>> THEN Last(s.prob) ELSE Last(s.prot)

\* The set of [victim, s] pairs policy.Victim() may produce (s: Victim() of tlfu may promote the candidate).
Victims(c, s) ==
  CASE c.policy = "lru"  -> {[v |-> Last(s.ord), s |-> s]}
    [] c.policy = "lfu"  -> LET m  == SetMin({s.freq[k] : k \in s.present})
                                i0 == SetMin({i \in 1..Len(s.ord) : s.freq[s.ord[i]] = m})
                            IN {[v |-> s.ord[i0], s |-> s]}
    [] c.policy = "slru" -> {[v |-> SlruVictim(s), s |-> s]}
    [] c.policy = "tlfu" -> IF s.win = <<>> THEN {[v |-> SlruVictim(s), s |-> s]}
                            ELSE IF s.prob = <<>> /\ s.prot = <<>> THEN {[v |-> Last(s.win), s |-> s]}
                            ELSE { [v |-> Last(s.win), s |-> s],                                   \* candidate loses
                                   [v |-> SlruVictim(s),                                           \* candidate wins
                                    s |-> [s EXCEPT !.win  = SubSeq(s.win, 1, Len(s.win) - 1),
                                                    !.prob = PushFront(s.prob, Last(s.win))]] }
    [] OTHER             -> {[v |-> k, s |-> s] : k \in s.present}

\* cache.evictItem: remove from the table, then fire the callback with the value held
Drop(c, s, k) == [Remove(c, s, k) EXCEPT !.present = @ \ {k}, !.val[k] = 0, !.exp[k] = 0]

-----------------------------------------------------------------------------
(* public calls: each returns a SET of outcomes                             *)

SetOutcomes(c, s, t, k, v) ==
  IF s.closed THEN {[s |-> s, cbs |-> {}]}
  ELSE IF k \in s.present
  THEN {[s |-> Access(c, [s EXCEPT !.val[k] = v, !.exp[k] = IF c.expiry > 0 THEN t + c.expiry ELSE 0], k), cbs |-> {}]}
  ELSE LET Put(s1) == Admit(c, [s1 EXCEPT !.present = @ \cup {k}, !.val[k] = v,
                                           !.exp[k] = IF c.expiry > 0 THEN t + c.expiry ELSE 0], k)
       IN IF Cardinality(s.present) = c.cap
          THEN {[s |-> Put(Drop(c, vs.s, vs.v)), cbs |-> {<<vs.v, s.val[vs.v]>>}] : vs \in Victims(c, s)}
          ELSE {[s |-> Put(s), cbs |-> {}]}

GetOutcomes(c, s, t, k) ==
  IF s.closed \/ k \notin s.present THEN {[s |-> s, ok |-> FALSE, rv |-> 0, cbs |-> {}]}
  ELSE IF c.expiry > 0 /\ s.exp[k] < t                       \* cache.go:398 expiration.Before(now)
  THEN {[s |-> Drop(c, s, k), ok |-> FALSE, rv |-> 0, cbs |-> {<<k, s.val[k]>>}]}
  ELSE {[s |-> Access(c, s, k), ok |-> TRUE, rv |-> s.val[k], cbs |-> {}]}

DeleteOutcomes(c, s, k) ==
  IF s.closed \/ k \notin s.present THEN {[s |-> s, ok |-> FALSE, cbs |-> {}]}
  ELSE {[s |-> Drop(c, s, k), ok |-> TRUE, cbs |-> {}]}       \* Delete fires no callback

CloseOutcomes(c, s) ==
  IF s.closed THEN {[s |-> s, cbs |-> {}]}
  ELSE {[s |-> [EmptyState EXCEPT !.closed = TRUE], cbs |-> {<<k, s.val[k]>> : k \in s.present}]}

LenOf(s) == Cardinality(s.present)

-----------------------------------------------------------------------------
Init == /\ cfg \in Configs
        /\ st = EmptyState
        /\ now = 0
        /\ nops = 0
        /\ useLog = <<>>

Log(s, s2, k, hit) ==   \* ghost bookkeeping
  IF k \in s2.present /\ k \notin s.present THEN Append(useLog, <<k, "admit">>)
  ELSE IF hit THEN Append(useLog, <<k, "use">>) ELSE useLog

DoSet(k, v) == /\ nops < MaxOps
               /\ \E o \in SetOutcomes(cfg, st, now, k, v) :
                     /\ st' = o.s
                     /\ useLog' = Log(st, o.s, k, ~st.closed)
               /\ nops' = nops + 1 /\ UNCHANGED <<cfg, now>>
DoGet(k)    == /\ nops < MaxOps
               /\ \E o \in GetOutcomes(cfg, st, now, k) :
                     /\ st' = o.s
                     /\ useLog' = Log(st, o.s, k, o.ok)
               /\ nops' = nops + 1 /\ UNCHANGED <<cfg, now>>
DoDelete(k) == /\ nops < MaxOps
               /\ \E o \in DeleteOutcomes(cfg, st, k) : st' = o.s
               /\ nops' = nops + 1 /\ UNCHANGED <<cfg, now, useLog>>
DoClose     == /\ nops < MaxOps
               /\ \E o \in CloseOutcomes(cfg, st) : st' = o.s
               /\ nops' = nops + 1 /\ UNCHANGED <<cfg, now, useLog>>
DoTick      == /\ nops < MaxOps /\ cfg.expiry > 0 /\ now < MaxT
               /\ now' = now + 1
               /\ nops' = nops + 1 /\ UNCHANGED <<cfg, st, useLog>>

Next == \/ \E k \in Keys, v \in Vals : DoSet(k, v)
        \/ \E k \in Keys : DoGet(k) \/ DoDelete(k)
        \/ DoClose \/ DoTick

Spec == Init /\ [][Next]_vars

-----------------------------------------------------------------------------
(* The property, on the model                                               *)

TypeOK == /\ st.present \subseteq Keys
          /\ \A k \in Keys : (k \in st.present) <=> (st.val[k] # 0)

\* never more entries than the capacity
SizeBound == Cardinality(st.present) <= cfg.cap

\* the policy structures hold exactly the resident entries, each once
Structure ==
  LET all == CASE cfg.policy \in {"lru", "lfu"} -> st.ord
               [] cfg.policy \in {"slru", "tlfu"} -> st.win \o st.prob \o st.prot
               [] OTHER -> <<>>
  IN cfg.policy # "any" => /\ Range(all) = st.present
                           /\ Len(all) = Cardinality(st.present)

SlruShape == cfg.policy = "slru" => Len(st.prot) <= ProtCap(cfg.cap)
TlfuShape == cfg.policy = "tlfu" => Len(st.win) <= WinCap(cfg.cap)

\* Definitions stated over the ghost log, independent of the policy structures.
LastIdx(k)  == LET I == {i \in 1..Len(useLog) : useLog[i][1] = k} IN IF I = {} THEN 0 ELSE CHOOSE i \in I : \A j \in I : j <= i
AdmitIdx(k) == LET I == {i \in 1..Len(useLog) : useLog[i] = <<k, "admit">>} IN IF I = {} THEN 0 ELSE CHOOSE i \in I : \A j \in I : j <= i
UseCount(k) == Cardinality({i \in AdmitIdx(k)..Len(useLog) : i > 0 /\ useLog[i][1] = k})

\* LRU: the eviction order is exactly recency of use; the victim (tail) is the least recently used entry
LruDefinition == cfg.policy = "lru" =>
  \A i, j \in 1..Len(st.ord) : i < j => LastIdx(st.ord[i]) > LastIdx(st.ord[j])

\* LFU: frequency = uses since admission; among the least frequent the victim is the one that reached that frequency first
LfuDefinition == cfg.policy = "lfu" =>
  /\ \A k \in st.present : st.freq[k] = UseCount(k)
  /\ \A i, j \in 1..Len(st.ord) : i < j => LastIdx(st.ord[i]) < LastIdx(st.ord[j])

\* a closed cache is empty and stays closed
ClosedEmpty == st.closed => st.present = {}
StaysClosed == [][st.closed => st'.closed]_vars

=============================================================================
