----------------------------- MODULE EnvelopeMC -----------------------------
(* Model-checking instances of Envelope.tla: configuration families.          *)
EXTENDS Envelope
CONSTANTS IkModes, SkModes, SessModes
\* every process runs the same configuration
UniformCfgs == {[q \in Procs |-> [ik |-> im, sk |-> s, sess |-> z]] : im \in IkModes, s \in SkModes, z \in SessModes}
\* state constraint is not needed: every growing value is bounded by MaxOps / MaxT / MaxFaults / MaxRevokes
=============================================================================
