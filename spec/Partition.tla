----------------------------- MODULE Partition -----------------------------
(***************************************************************************)
(* Key-id naming and the partition check of go/appencryption/partition.go  *)
(* (property C06).  Ids are sequences of one-character strings so that     *)
(* prefixes and embedded separators can be talked about.                   *)
(*                                                                         *)
(*   SKId      = _SK_<service>_<product>[_<region>]                        *)
(*   IKId      = _IK_<partition>_<service>_<product>[_<region>]            *)
(*   a plain session accepts exactly its own IK id;                        *)
(*   a region-suffixed session accepts its own id, the un-suffixed id of   *)
(*   the same partition and the id of the same partition written in        *)
(*   another region (one more _-free segment).                             *)
(***************************************************************************)
EXTENDS Integers, Sequences, FiniteSets, TLC

CONSTANTS Letters,      \* single characters partition ids are built from (must contain "_")
          MaxLen,       \* maximum number of tokens per partition id
          Service, Product,   \* sequences
          Regions       \* set of region suffixes (sequences without "_")

U == <<"_">>
Prefix(p, s) == Len(p) <= Len(s) /\ SubSeq(s, 1, Len(p)) = p
Has(s, c) == \E i \in 1..Len(s) : s[i] = c

Modes == {<<>>} \cup Regions            \* <<>> = no region suffix
\* tokens: the single letters plus the pieces a key id itself is made of, so that short token sequences already contain
\* every id that embeds the separator, the service/product suffix or a region suffix
Tokens == {<<c>> : c \in Letters} \cup {U \o Service \o U \o Product} \cup {U \o Service \o U \o Product \o U \o m : m \in Regions}
                                  \cup {U \o m : m \in Regions}
RECURSIVE TokSeqs(_)
TokSeqs(n) == IF n = 0 THEN {<<>>} ELSE LET S == TokSeqs(n - 1) IN S \cup {s \o t : s \in S, t \in Tokens}
PartIds == TokSeqs(MaxLen) \ {<<>>}

IKDefault(p) == <<"_", "I", "K", "_">> \o p \o U \o Service \o U \o Product
IKId(p, m) == IF m = <<>> THEN IKDefault(p) ELSE IKDefault(p) \o U \o m
SKId(m) == <<"_", "S", "K", "_">> \o Service \o U \o Product \o (IF m = <<>> THEN <<>> ELSE U \o m)

\* partition.go IsValidIntermediateKeyID
Valid(p, m, id) ==
  IF m = <<>> THEN id = IKDefault(p)
  ELSE \/ id = IKId(p, m)
       \/ id = IKDefault(p)
       \/ (Prefix(IKDefault(p) \o U, id) /\ Len(id) > Len(IKDefault(p)) + 1
           /\ ~Has(SubSeq(id, Len(IKDefault(p)) + 2, Len(id)), "_"))

\* C06: no session accepts an intermediate-key id of a different partition, whatever the ids look like
Isolation == \A p, q \in PartIds : p # q => \A mp, mq \in Modes : ~Valid(p, mp, IKId(q, mq))
\* intended acceptance, pinned by partition_test.go
OwnAccepted == \A p \in PartIds : \A m \in Modes : Valid(p, m, IKId(p, m))
CrossRegionAccepted == \A p \in PartIds : \A m \in Regions : Valid(p, m, IKDefault(p)) /\ \A m2 \in Regions : Valid(p, m, IKId(p, m2))
\* key ids of different kinds never collide
KindsDisjoint == \A p \in PartIds : \A m, m2 \in Modes : IKId(p, m) # SKId(m2)
=============================================================================
