"""C19 - gRPC sidecar stream protocol. Spec: Server.tla (+ServerGen, ServerTrace). Driver: srvdrv."""
import json, os
from vlib import Run, Infra, tla_set, cfg_text, validate_traces

REQS = ["gs-valid", "gs-empty", "enc", "dec-own", "dec-foreign", "dec-corrupt", "dec-empty", "empty"]
ASSUME = [
    "the stream is an in-memory implementation of AppEncryption_SessionServer driving the real AppEncryption.Session / streamer / defaultHandler with the in-memory metastore and static KMS (the sidecar's own 'memory'/'static' options)",
    "a panic inside the handler is recovered by the harness and counted as a violation (in production it terminates the sidecar)",
    "after a rejected get-session both 'still uninitialised' and 'initialised but unusable' are accepted; a retry may be refused or succeed",
    "transport-level behaviour of grpc-go itself is not exercised",
]


def check(run: Run):
    q = run.quick
    run.spec_files("Server.tla", "ServerGen.tla", "ServerTrace.tla")
    n = 5 if q else 6
    run.write("GEN.cfg", cfg_text("GSpec", {"Requests": tla_set(REQS), "MaxLen": n},
                                  invs=["OneReplyPerRequest", "AlwaysAnswerable", "NoServiceBeforeSession"]))
    g = run.tlc("ServerGen.tla", "GEN.cfg", timeout=1200, out_name="gen.out")
    run.tlc_must_hold(g, "Server.tla design check")
    run.exhaustive = True
    trace = os.path.join(run.work, "trace.ndjson")
    res = run.drv(["server-replay", "-in", g.path, "-trace", trace, "-seed", str(run.seed), "-concurrent", "4", "-long", str(30 if q else 300)], timeout=1200)
    os.remove(g.path)
    if res["evaluations"] == 0:
        raise Infra("no request sequence reached the driver")
    run.absorb(res)
    rej = validate_traces(run, "ServerTrace.tla", {"Requests": tla_set(REQS), "MaxLen": 1000000}, ["OneReplyPerRequest"], trace, "server", max_reject=6)
    for x in rej:
        ev = x["event"]
        if "cannot allocate memory" in json.dumps(ev):
            # the process ran into its mlock / mapping limits (real secure memory, keys accumulate in the sidecar's caches): the
            # harness is out of resources, which says nothing about the sidecar
            raise Infra("the driver process exhausted its locked-memory / mapping limits: %s" % json.dumps(ev)[:300])
        seq = [e.get("r") for e in x["trace"] if e.get("e") == "req"]
        kind = "panic" if ev.get("panic") else ("reply-count" if ev.get("e") == "eof" else "response-class")
        run.findings.append({"kind": "%s at %s after %s" % (kind, ev.get("r", "eof"), "/".join(seq[:x["line_in_run"] - 1][-3:])),
                             "detail": "%s: stream %s, event %s; requests so far %s" % (x["why"], x["run"], json.dumps(ev)[:600], seq[:x["line_in_run"]]),
                             "case": {"trace": x["trace"], "reqs": seq}})
    return run.finish("model_checking",
                      "all request sequences of length <= %d over the 8-symbol alphabet + end-of-stream, enumerated by TLC from Server.tla (history in the state), each played on the real handler with and without session caching; plus seeded 6-25 request sequences on 4 concurrent streams; every recorded stream validated by TLC against Server.tla (allowed response class per state, original bytes on decrypt, one reply per request, normal return). non-trivial = sequence with a get-session followed by at least one request" % n,
                      ASSUME,
                      explanation="spec->code: %d sequences; code->spec: %d streams / %d events accepted by TLC" % (res["evaluations"], run.traces_validated, run.events_validated))


def replay(run: Run, finding):
    case = finding.get("case", {})
    run.spec_files("Server.tla", "ServerTrace.tla")
    # 1. the recorded stream against the spec
    p = os.path.join(run.work, "trace.ndjson")
    with open(p, "w") as f:
        for e in case.get("trace", []):
            f.write(json.dumps(e) + "\n")
    rej = validate_traces(run, "ServerTrace.tla", {"Requests": tla_set(REQS), "MaxLen": 1000000}, ["OneReplyPerRequest"], p, "replay")
    print("recorded stream:", "rejected" if rej else "accepted")
    # 2. the same request sequence on the current tree
    cp = run.write("case.json", json.dumps({"reqs": case.get("reqs", [])}) + "\n")
    res = run.drv(["server-replay", "-in", cp, "-trace", p, "-seed", str(run.seed), "-long", "0"])
    rej2 = validate_traces(run, "ServerTrace.tla", {"Requests": tla_set(REQS), "MaxLen": 1000000}, ["OneReplyPerRequest"], p, "replay-now")
    print("re-executed now:", "rejected: " + json.dumps(rej2[0]["event"])[:500] if rej2 else "accepted")
    return 1 if rej2 else 0
