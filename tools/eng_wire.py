"""C18 - stored and wire formats follow the documented layout. Spec: WireFormat.tla (+WireFormatGen, WireFormatTrace).
Driver: harness/cmd/wiredrv (package wiredrv + the documentation-derived reference codec wiredrv/refcodec)."""
import json, os, re
from vlib import Run, Infra, tla_set, cfg_text, validate_traces

ASSUME = [
    "TLA+ contributes the STRUCTURE (document trees per format, presence rules, ct|tag|nonce segment lengths, key-id construction, the links of the key hierarchy, unique parseability) and the ENUMERATION of cases; it does not do the byte arithmetic. base64, JSON / protobuf / DynamoDB-JSON syntax and AES-256-GCM are executed by a reference codec written in Go from the documentation only (docs/DesignAndArchitecture.md, docs/Metastore.md, docs/KeyManagementService.md, server/protos/appencryption.proto, the property text) with the standard library and no SDK code; it is a differential oracle, hence level 'other'",
    "'cross-language' means 'documentation-derived': the Java and C# implementations are not available offline; the reference writer deliberately differs from the Go encoder where the documentation leaves freedom (field order, indentation, random nonces)",
    "channels: json = encoding/json of appencryption.DataRowRecord / EnvelopeKeyRecord (rows captured at Metastore.Store of the in-memory metastore); sql = the key_record TEXT column of persistence.SQLMetastore over a database/sql fake; ddbv1 / ddbv2 = the items the two DynamoDB metastores put / get through client fakes; grpc = the real sidecar AppEncryption.Session over an in-memory stream, messages serialized with gRPC's own proto codec, its key rows kept by its own 'dynamodb' metastore mode talking the DynamoDB JSON protocol to a localhost fake (so the DynamoDB wire JSON is read by the reference as well)",
    "KMS = kms.NewStatic with the documented test master key (same ct|tag|nonce layout) plus, off the grpc channel, a trailer of 0..2 bytes of the KMS's own (what a KMS returns is opaque to the stored format; the three lengths take the system key row through every base64 padding class); AWS KMS envelopes (kmsKeks JSON) are not part of this engine",
    "revoked rows in direction sdk-to-ref are produced by the SDK's own metastore implementations: the chain written by a real session is copied through Metastore.Load / Metastore.Store into an empty store of the same channel with Revoked set (the SDK itself never revokes; the operator scripts do)",
    "region suffixes exist only on the DynamoDB metastores (ddbv1, ddbv2, grpc); timestamps are driven through the harness clock overlay (sdk-to-ref) or chosen by the reference writer (ref-to-sdk); their values are compared as decimal literals because they exceed TLC's 32-bit integers",
    "in direction sdk-to-ref the driver is built with the clock overlay and sets the SDK's clock to the timestamp class + 7 s; the data row key's Created has to be exactly that second and the key rows' Created within a day below it (epoch SECONDS; the policy's creation-date precision is not prescribed)",
    "payloads are seeded pseudo-random bytes of the enumerated lengths; 'all payloads' is sampled by length class, AES-GCM itself is trusted",
]

INVS = ["ReaderRecovers", "RowsParseBack", "LayoutUnique", "PresenceRules"]
EMPTY = {k: "{}" for k in ("PayloadLens", "Parts", "Services", "Products", "Underscored", "Regions", "Stamps", "Channels", "Directions")}
REGION = "us-west-2"


def universe(big):
    if not big:
        return dict(lens=[0, 1, 15, 16, 17, 1000], parts=["p1", "a_b"], svcs=["svc", "my_svc"], prods=["prod"],
                    stamps=["86400", "1534553075", "4102444800"])   # 1534553075: the documentation's own example, not on a minute boundary
    return dict(lens=[0, 1, 15, 16, 17, 31, 32, 33, 1000, 65537], parts=["p1", "a_b", "_x_", "t-1.z<&>"], svcs=["svc", "my_svc"],
                prods=["prod", "pr_d"], stamps=["86400", "1534553040", "1534553075", "4102444800", "99999999960"])


def consts_of(u, channels, dirs=("sdk-to-ref", "ref-to-sdk"), regions=("", REGION)):
    under = [x for x in u["parts"] + u["svcs"] + u["prods"] if "_" in x]
    return {"PayloadLens": tla_set(u["lens"]), "Parts": tla_set(u["parts"]), "Services": tla_set(u["svcs"]), "Products": tla_set(u["prods"]),
            "Underscored": tla_set(under), "Regions": tla_set(list(regions)), "Stamps": tla_set(u["stamps"]),
            "Channels": tla_set(list(channels)), "Directions": tla_set(list(dirs))}


def generate(run, name, consts):
    run.write(name + ".cfg", cfg_text("GSpec", consts, invs=INVS))
    g = run.tlc("WireFormatGen.tla", name + ".cfg", workers=1, timeout=1500, out_name=name + ".out")
    run.tlc_must_hold(g, "WireFormat.tla design check (%s)" % name)
    return g


def rules_by_run(run):
    """RULES-VIOLATED lines printed by WireFormatTrace: run id -> sorted rule names."""
    out = {}
    for r in run.tlc_runs:
        # TLC wraps long tuples over several lines
        for m in re.finditer(r'<<\s*"RULES-VIOLATED",\s*(\d+),\s*\{(.*?)\}\s*>>', r.out, re.S):
            out[int(m.group(1))] = sorted(x.strip().strip('"') for x in m.group(2).split(",") if x.strip())
    return out


def validate(run, trace, label, max_reject):
    rej = validate_traces(run, "WireFormatTrace.tla", EMPTY, ["ReaderRecovers", "RowsParseBack", "PresenceRules"], trace, label, max_reject=max_reject)
    rules = rules_by_run(run)
    out = []
    for x in rej:
        ev = x["event"]
        rs = rules.get(ev.get("run"), ["(%s)" % x["why"]])
        out.append((x, ev, rs))
    return out


def check(run: Run):
    q = run.quick
    run.spec_files("WireFormat.tla", "WireFormatGen.tla", "WireFormatTrace.tla")
    gens = []
    if q:
        gens.append(generate(run, "gen", consts_of(universe(False), ["json", "sql", "ddbv1", "ddbv2", "grpc"])))
    else:
        gens.append(generate(run, "gen", consts_of(universe(True), ["json", "sql", "ddbv1", "ddbv2"])))
        # every sidecar instance keeps its system-key cache and static master key locked in memory for the life of the
        # process (the sidecar has no shutdown path): the grpc channel gets the smaller universe
        gens.append(generate(run, "gen-grpc", consts_of(universe(False), ["grpc"])))
    run.exhaustive = True
    cases = os.path.join(run.work, "cases.out")
    with open(cases, "w") as fo:
        for g in gens:
            with open(g.path, errors="replace") as fi:
                for line in fi:
                    if line.startswith('"{'):
                        fo.write(line)
            os.remove(g.path)
    binary = run.gobin("wiredrv")
    trace = os.path.join(run.work, "trace.ndjson")
    res = run.drv(["-in", cases, "-trace", trace, "-seed", str(run.seed), "-clock"], timeout=3000, binary=binary)
    os.remove(cases)
    if res["evaluations"] == 0:
        raise Infra("no case reached the driver")
    run.absorb(res)
    for x, ev, rs in validate(run, trace, "wire", 8):
        shape = {k: ev.get(k) for k in ("ch", "dir", "len", "part", "svc", "prod", "region", "skrev", "ikrev", "stamp")}
        run.findings.append({"kind": "%s channel=%s direction=%s" % ("+".join(rs), ev.get("ch"), ev.get("dir")),
                             "detail": "%s; rules violated: %s; case %s; err=%s; event %s" % (x["why"], ", ".join(rs), json.dumps(shape), ev.get("err", "")[:300], json.dumps(ev)[:1500]),
                             "case": {"shape": shape, "event": ev, "rules": rs}})
    per = res.get("extra", {}).get("cases_per_channel_and_direction", {})
    run.notes.append("cases per channel/direction: %s" % json.dumps(per, sort_keys=True))
    return run.finish("other",
                      "every structural case of WireFormat.tla - payload length x partition/service/product ids (with and without the separator) x region suffix on/off (DynamoDB channels) x revoked flag of the system-key row x of the intermediate-key row x timestamp class, x 5 channels x 2 directions - is enumerated by TLC (which also checks on the model that the documented layout is uniquely parseable and that a documentation-only reader recovers the payload) and executed once on the real code: SDK writes / reference reads, or reference writes / SDK reads. For every case TLC (WireFormatTrace) compares the document trees found on the channel, the ids, the filing of the rows, the links, the blob lengths and the outcome of the reference's AES-GCM walk with the specification's layout functions. non-trivial = a revoked row, a region suffix or an id containing '_'",
                      ASSUME,
                      explanation="spec->code: %d cases executed (%s); code->spec: %d case events (%d lines) accepted by TLC against WireFormat.tla" % (
                          res["evaluations"], ", ".join("%s %d" % kv for kv in sorted(per.items())), run.traces_validated, run.events_validated))


def replay(run: Run, finding):
    case = finding.get("case", {})
    sh = case.get("shape", {})
    run.spec_files("WireFormat.tla", "WireFormatGen.tla", "WireFormatTrace.tla")
    # 1. the recorded event against the spec
    p = os.path.join(run.work, "trace.ndjson")
    ev = case.get("event", {})
    with open(p, "w") as f:
        f.write(json.dumps({"e": "reset", "run": ev.get("run", 1), "id": ev.get("id", 1)}) + "\n" + json.dumps(ev) + "\n")
    rej = validate(run, p, "replay", 1)
    print("recorded event:", ("rejected: " + ", ".join(rej[0][2])) if rej else "accepted")
    # 2. the same structural case, re-derived by TLC and executed on the current tree
    u = dict(lens=[sh.get("len", 0)], parts=[sh.get("part", "p1")], svcs=[sh.get("svc", "svc")], prods=[sh.get("prod", "prod")], stamps=[sh.get("stamp", "86400")])
    consts = consts_of(u, [sh.get("ch", "json")], dirs=[sh.get("dir", "sdk-to-ref")], regions=[sh.get("region", "")])
    consts["Underscored"] = "{}"
    g = generate(run, "gen", consts)
    want = (bool(sh.get("skrev")), bool(sh.get("ikrev")))
    lines = []
    with open(g.path, errors="replace") as fi:
        for line in fi:
            if line.startswith('"{'):
                c = json.loads(json.loads(line))
                if (c["skrev"], c["ikrev"]) == want:
                    lines.append(json.dumps(c))
    cp = run.write("case.json", "\n".join(lines) + "\n")
    binary = run.gobin("wiredrv")
    run.drv(["-in", cp, "-trace", p, "-seed", str(run.seed), "-clock"], binary=binary)
    rej2 = validate(run, p, "replay-now", 1)
    print("re-executed now:", ("rejected: %s; %s" % (", ".join(rej2[0][2]), json.dumps(rej2[0][1])[:800])) if rej2 else "accepted")
    return 1 if rej2 else 0
