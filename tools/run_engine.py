#!/usr/bin/env python3
"""run_engine.py <module> <prop> [quick|thorough] [seed] : runs tools/<module>.py's check for <prop> without registering it in ./check (development aid)."""
import sys, os, importlib, traceback
sys.path.insert(0, os.path.dirname(os.path.abspath(__file__)))
from vlib import Run, Infra, log
mod = importlib.import_module(sys.argv[1]); prop = sys.argv[2]
tier = sys.argv[3] if len(sys.argv) > 3 else "quick"; seed = int(sys.argv[4]) if len(sys.argv) > 4 else 1
run = Run(prop, tier, seed)
try:
    fn = getattr(mod, "check_" + prop, None) or mod.check
    sys.exit(fn(run))
except Infra as e:
    log("INFRA", e); run.cleanup(); sys.exit(2)
except Exception:
    traceback.print_exc(); run.cleanup(); sys.exit(2)
