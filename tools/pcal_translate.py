#!/usr/bin/env python3
"""pcal_translate.py <Spec.tla> <excluded vars...>: runs the PlusCal translator in place and appends/refreshes
   `ViewVars == <<all variables except the excluded ones>>` right after END TRANSLATION."""
import re, subprocess, sys, os, tempfile, shutil
path = os.path.abspath(sys.argv[1]); excl = set(sys.argv[2:])
d = tempfile.mkdtemp()
try:
    shutil.copy(path, d)
    p = subprocess.run(["pcal", "-nocfg", os.path.basename(path)], cwd=d, capture_output=True, text=True)
    if "Translation completed" not in p.stdout:
        print(p.stdout + p.stderr); sys.exit(1)
    s = open(os.path.join(d, os.path.basename(path))).read()
finally:
    shutil.rmtree(d)
m = re.search(r"\nvars == <<(.*?)>>", s, re.S)
vs = [v.strip() for v in m.group(1).replace("\n", " ").split(",")]
view = "ViewVars == <<" + ", ".join(v for v in vs if v not in excl) + ">>"
s = re.sub(r"\\\* END TRANSLATION\n(ViewVars == <<.*?>>\n)?", lambda _: "\\* END TRANSLATION\n" + view + "\n", s, count=1, flags=re.S)
open(path, "w").write(s)
print("translated; view has %d of %d variables" % (len([v for v in vs if v not in excl]), len(vs)))
