#!/usr/bin/env python3
import json,sys
d=json.load(open(sys.argv[1]))
tr=d['finding']['case']['trace']
print(d['finding']['kind'])
for e in tr:
    k=e['e']
    if k in('ms','kms'): print('   ',k,e['call'],e.get('id',''),e.get('created',''),'found',e.get('found'),'rev',e.get('revoked'),'ok',e.get('ok'),'fault',e.get('fault'),'now',e['now'])
    elif k=='aead': print('      aead',e['call'],'key',e['key'],'pt',e['pt'],'len',e['len'],e.get('ok',''))
    elif k in('alloc','free'): print('      ',k,e['sid'],e.get('kind',''),'kid',e.get('kid',''),e['op'])
    else: print({a:b for a,b in e.items() if a not in('run','err','chain','fresh','payload','skscope','recpart') and b not in ('',[],0,False)})
