"""C17 - AWS KMS plugins (SDK v1 and v2): any surviving region can unwrap, preferred region tried first.
Spec: KmsRegions.tla (+KmsRegionsGen, KmsRegionsTrace). Driver: harness/cmd/kmsdrv (drivers/kmsdrv)."""
import json, os, re
from vlib import Run, Infra, tla_set, cfg_text, validate_traces, log

PLUGINS = ["v1", "v2"]
INVS = ["TypeOK", "WrapMeetsC17", "UnwrapMeetsC17", "ReunwrapMeetsC17", "AnySurvivorUnwraps", "EveryRegionSuffices"]
ASSUME = [
    "the regional KMS endpoints are semantic fakes at the SDK client boundary (v1: the exported KMS field of each AWSKMSClient built by the real kms.NewAWS; v2: Builder.WithKMSFactory): per region and operation an up/down flag, GenerateDataKey returns 32 random bytes + a region-specific blob, Decrypt opens only blobs sealed for its own region",
    "the real AEAD (AES-256-GCM) of the SDK encrypts the system key under the data key; the same ARN is configured for a region on the wrapping and the unwrapping side",
    "the order of the non-preferred regions is whatever Go's map iteration yields inside the plugin constructors; the specification leaves it nondeterministic and the check does not control it",
    "GenerateDataKey being tried preferred-region-first is checked as conformance (MODEL-DRIFT), not as a verdict: the property text orders the unwrap only",
    "whether the Decrypt output plaintext is wiped after unwrap is recorded (wipedDecrypt) but belongs to C10, not C17",
    "a panic inside EncryptKey / DecryptKey is recovered by the driver and rejected by the trace specification",
]
CHUNK_RUNS = 250000   # runs per TLC trace-validation pass (keeps ndJsonDeserialize's heap bounded)


def regions(n):
    return ["r%d" % i for i in range(1, n + 1)]


def consts(n, family):
    return {"Regions": tla_set(regions(n)), "Plugins": tla_set(PLUGINS), "Family": '"%s"' % family}


def count_cases(path):
    n = 0
    with open(path, errors="replace") as f:
        for line in f:
            if line.startswith('"{'):
                n += 1
    return n


def chunks(trace, work, per):
    """Splits a concatenated trace into files of at most `per` runs (cut at reset events)."""
    out, cur, nruns, idx = [], None, 0, 0
    with open(trace) as f:
        for line in f:
            if '"e":"reset"' in line or '"e": "reset"' in line:
                if cur is None or nruns >= per:
                    if cur:
                        cur.close()
                    p = os.path.join(work, "chunk-%d.ndjson" % idx)
                    idx += 1
                    cur, nruns = open(p, "w"), 0
                    out.append(p)
                nruns += 1
            if cur is None:
                raise Infra("trace does not start with a reset event")
            cur.write(line)
    if cur:
        cur.close()
    return out


def validate(run, trace, n, label, strict=False):
    """TLC validates the recorded runs against KmsRegionsTrace.tla; returns (rejections with the broken clauses, drifting runs)."""
    c = dict(consts(n, "any"), StrictGenOrder="TRUE" if strict else "FALSE")
    rej, drift = [], set()
    for i, p in enumerate(chunks(trace, run.work, CHUNK_RUNS)):
        first = len(run.tlc_runs)
        r = validate_traces(run, "KmsRegionsTrace.tla", c, ["TypeOK"], p, "%s-%d" % (label, i), max_reject=6)
        why = {}
        for t in run.tlc_runs[first:]:
            with open(t.path, errors="replace") as f:
                txt = f.read()     # TLC wraps long tuples over several lines
            for m in re.finditer(r'<<\s*"C17-WHY",\s*(\d+),\s*\{(.*?)\}\s*>>', txt, re.S):
                why[int(m.group(1))] = sorted(x.strip().strip('"') for x in m.group(2).split(",") if x.strip())
            for m in re.finditer(r'<<\s*"DRIFT-GEN-ORDER",\s*(\d+)\s*>>', txt):
                drift.add(int(m.group(1)))
        for x in r:
            x["clauses"] = why.get(x["run"], ["not-a-behaviour-of-the-specification"])
        rej += r
        tp = os.path.join(run.work, "trace.ndjson")
        if os.path.exists(tp):
            os.remove(tp)
    return rej, drift


def finding_of(x):
    rs, ev = x["reset"], x["event"]
    case = {k: rs.get(k) for k in ("wplug", "uplug", "wcfg", "wpref", "genUp", "encUp", "ucfg", "upref", "decUp")}
    plug = rs.get("wplug") if ev.get("e") == "wrap" else rs.get("uplug")
    kind = "%s [%s plugin %s, %s->%s]" % ("+".join(x["clauses"]), ev.get("e"), plug, rs.get("wplug"), rs.get("uplug"))
    wrap = next((e for e in x["trace"] if e.get("e") == "wrap"), {})
    detail = ("%s: case %s; wrap observed %s; rejected event %s" % (
        x["why"], json.dumps(case), json.dumps({k: wrap.get(k) for k in ("ok", "entries", "genOrder", "wiped", "err")}), json.dumps(ev)[:700]))
    return {"kind": kind, "detail": detail, "case": {"case": case, "trace": x["trace"]}}


def check(run: Run):
    q = run.quick
    run.spec_files("KmsRegions.tla", "KmsRegionsGen.tla", "KmsRegionsTrace.tla")
    n = 3 if q else 4
    # 1+2. design check and case generation
    if q:
        # one TLC run: every case of the quantifier over <= 3 regions is printed, and the design's outcomes for each
        # case (all client orders) are explored under the property invariants
        run.write("GEN.cfg", cfg_text("GSpec", consts(n, "any"), invs=INVS))
        g = run.tlc("KmsRegionsGen.tla", "GEN.cfg", timeout=600, out_name="gen.out")
        run.tlc_must_hold(g, "KmsRegions.tla design check + case generation")
    else:
        # design: all cases over <= 4 regions with the same region set on both sides (any preferred region), all client orders
        run.write("MC.cfg", cfg_text("Spec", consts(n, "pref"), invs=INVS))
        m = run.tlc("KmsRegions.tla", "MC.cfg", timeout=1500)
        run.tlc_must_hold(m, "KmsRegions.tla design check")
        # cases: the full quantifier over <= 4 regions incl. different region sets / preferred regions at unwrap time
        run.write("GEN.cfg", cfg_text("GCasesOnly", consts(n, "any"), invs=["TypeOK"]))
        g = run.tlc("KmsRegionsGen.tla", "GEN.cfg", timeout=1500, out_name="gen.out")
        run.tlc_must_hold(g, "KmsRegionsGen case generation")
    ncases = count_cases(g.path)
    run.exhaustive = True
    # 3. spec -> code: every case on the real plugins
    binary = run.gobin("kmsdrv")
    trace = os.path.join(run.work, "kms-trace.ndjson")
    repeat = 2 if q else 1
    res = run.drv(["-in", g.path, "-trace", trace, "-seed", str(run.seed), "-repeat", str(repeat)], timeout=3000, binary=binary)
    os.remove(g.path)
    if res["evaluations"] == 0:
        raise Infra("no case reached the driver")
    if res["evaluations"] != ncases * repeat:
        raise Infra("driver executed %d runs for %d generated cases x %d" % (res["evaluations"], ncases, repeat))
    run.absorb(res)
    ex = res.get("extra", {})
    run.notes.append("cases %d (x%d executions), per plugin pair %s; wrap ok %d; unwrap attempted %d, ok %d" % (
        ncases, repeat, json.dumps(ex.get("per_pair")), ex.get("wrap_ok", 0), ex.get("unwraps", 0), ex.get("unwrap_ok", 0)))
    run.notes.append("C10-related observation (not judged here): Decrypt output plaintext left non-zero after %d of %d successful unwraps" % (
        ex.get("unwrap_ok_decrypt_plaintext_not_wiped", 0), ex.get("unwrap_ok", 0)))
    # 4. code -> spec: TLC decides every recorded run
    rej, drift = validate(run, trace, n, "kms")
    os.remove(trace)
    for x in rej:
        run.findings.append(finding_of(x))
    if drift:
        print("MODEL-DRIFT property=C17 GenerateDataKey was not tried preferred-region-first in %d runs (e.g. run %d); conformance only, not part of the property" % (len(drift), min(drift)))
        run.notes.append("drift: GenerateDataKey not preferred-first in %d runs" % len(drift))
    return run.finish("model_checking",
                      "every case of KmsRegions.tla enumerated by TLC: non-empty region sets over %d regions x preferred region x all subsets of regions whose GenerateDataKey / Encrypt fail at wrap time x unwrapping region set and preferred region (same or different) x all subsets of regions whose Decrypt fails x plugin pairs {v1,v2}x{v1,v2}; each case executed on freshly built real plugins (EncryptKey, then DecryptKey of that envelope by the other instance) and the recorded run (success flags, envelope entries, per-region call order, identical bytes, data key wiped) validated by TLC against the C17 predicates of KmsRegions.tla, which TLC also proves for the design over all client orders. non-trivial = at least two regions and at least one regional operation failing" % n,
                      ASSUME,
                      explanation="spec->code: %d cases / %d executions; code->spec: %d runs / %d events accepted by TLC" % (ncases, res["evaluations"], run.traces_validated, run.events_validated))


def replay(run: Run, finding):
    case = finding.get("case", {})
    run.spec_files("KmsRegions.tla", "KmsRegionsTrace.tla")
    # 1. the recorded run against the specification
    if case.get("trace"):
        p = run.write("recorded.ndjson", "".join(json.dumps(e) + "\n" for e in case["trace"]))
        rej, _ = validate(run, p, 4, "replay")
        print("recorded run:", "rejected (%s)" % "+".join(rej[0]["clauses"]) if rej else "accepted")
    # 2. the same case on the current tree (40 executions: the order of the non-preferred regions varies per construction)
    cp = run.write("case.json", json.dumps(case.get("case", {})) + "\n")
    trace = os.path.join(run.work, "kms-trace.ndjson")
    run.drv(["-in", cp, "-trace", trace, "-seed", str(run.seed), "-repeat", "40"], binary=run.gobin("kmsdrv"))
    rej2, _ = validate(run, trace, 4, "replay-now")
    print("re-executed now:", "rejected (%s): %s" % ("+".join(rej2[0]["clauses"]), json.dumps(rej2[0]["event"])[:500]) if rej2 else "accepted")
    return 1 if rej2 else 0
