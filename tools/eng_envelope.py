"""Envelope engine: C01 C02 C03 C04 C05 C09 C10 C14 C20.
Spec: Envelope.tla (impl-shaped, PlusCal) + EnvelopeMC/EnvelopeGen (model checking + behaviour generation)
      EnvelopeObs.tla (property monitor over real traces).  Driver: harness/drivers/envdrv."""
import json, os, re, collections
from vlib import Run, Infra, tla_set, log, cfg_text

BASE = dict(defaultInitValue="defaultInitValue", E=3, R=1, P=1, MaxT=5, MaxKids=4, MaxRecs=2, MaxFaults=0, MaxOpFaults=0,
            MaxRevokes=1, RevokeKinds='{"SK", "IK"}', Ticks="{1}", MidOpTicks="FALSE", Frac="FALSE", EmitEvery=1,
            OpKinds='{"Enc", "Dec", "CloseSession", "Restart"}')

ASSUME = [
    "the metastore and KMS are the harness's fakes of the SDK's Metastore / KeyManagementService interfaces (authoritative table, insert-if-absent Store)",
    "time is a virtual clock substituted for time.Now by build overlay; policy durations are small integers of seconds",
    "AES-GCM and the secret factory contract (copy then wipe source) are trusted; a pure-Go tracking SecretFactory stands in for memguard",
    "time bounds are judged against the START time of an operation (lenient reading, DESIGN.md section 8)",
    "bounded: <=2 processes (3 in the C14 race family), <=2 partitions, clock <= MaxT, <= MaxKids generated keys per behaviour",
]

# clause prefixes that decide each property
CLAUSES = {
    "C01": ("C01.", "C01/C07.", "C06.ForeignRecordDecrypted"),
    "C02": ("C02.",),
    "C03": ("C03.",),
    "C04": ("C04.",),
    "C05": ("C05.", "C01.DecryptsBack"),   # ... records written under the revoked key remain decryptable
    "C09": ("C09.",),
    "C10": ("C10.",),
    "C14": ("C14.", "C02.ChainDurableAtReturn", "C02.RecoversWhenFaultsStop"),   # ... and every racer gets a record (no fault, no error)
    "C20": ("C20.",),
}


def family(run, label, over, procs=("p1",), parts=("a",), ik=("session", "shared", "none"), sk=(True, False), sess=(False,),
           variants=("simple", "lru", "slru", "lfu", "tinylfu"), simulate=None, timeout=900, strict=True, drvargs=()):
    """One generation + replay + monitor pass. Returns (cases, driver result, list of (clause, run, line))."""
    c = dict(BASE)
    c.update(over)
    c.update(Procs=tla_set(procs), Parts=tla_set(parts), IkModes=tla_set(ik),
             SkModes="{" + ",".join("TRUE" if x else "FALSE" for x in sk) + "}",
             SessModes="{" + ",".join("TRUE" if x else "FALSE" for x in sess) + "}", CfgSet="<- UniformCfgs")
    run.spec_files("Envelope.tla", "EnvelopeMC.tla", "EnvelopeGen.tla", "EnvelopeObs.tla")
    run.write("GEN_%s.cfg" % label, cfg_text("GSpec", c, invs=["ChainClosed", "NoIKUnderExpiredSK", "NoViolation", "UniqueKeys"],
                                             view="ViewVars", props=[] if simulate else ["InsertOnly", "LatestMovesForward"],
                                             action_constraint="LocalStepsFirst" if len(procs) > 1 else None))
    g = run.tlc("EnvelopeGen.tla", "GEN_%s.cfg" % label, timeout=timeout, out_name="gen_%s.out" % label, simulate=simulate)
    if simulate is None:
        run.tlc_must_hold(g, "Envelope.tla design check (%s)" % label)
    elif g.violated or g.error:
        raise Infra("Envelope.tla simulation (%s) failed: %s\n%s" % (label, g.violated or g.error, g.counterexample()[:3000]))
    trace = os.path.join(run.work, "trace.ndjson")
    res = run.drv(["env-replay", "-in", g.path, "-trace", trace, "-seed", str(run.seed), "-variants", ",".join(variants),
                   "-strict=%s" % ("true" if strict else "false")] + list(drvargs), timeout=timeout)
    os.remove(g.path)
    if res["evaluations"] == 0:
        raise Infra("generation %s produced no case" % label)
    run.absorb(res)
    d = res.get("extra", {}).get("drift_traces", 0)
    if d:
        print("MODEL-DRIFT property=%s family=%s %d of %d replayed behaviours differ from Envelope.tla's prediction (conformance of the impl-shaped model only, never a verdict), e.g. %s" % (
            run.prop, label, d, res["evaluations"], (res["extra"].get("drift_samples") or ["?"])[0]))
    run.notes.append("%s: %d cases replayed, %d with drift, %d events" % (label, res["evaluations"], d, res.get("events", 0)))
    viols = monitor(run, trace)
    return res, viols


def monitor(run, trace):
    """Runs the monitor spec over trace.ndjson in the scratch dir; returns [(clause, run, line)]."""
    run.write("MON.cfg", cfg_text("MSpec", {}, invs=["StoreUnique"], post="TraceAccepted"))
    n_events = sum(1 for _ in open(trace))
    r = run.tlc("EnvelopeObs.tla", "MON.cfg", workers=1, timeout=1800, heap="8g")
    if r.rejected_at is not None or r.violated or not r.ok:
        lines = open(trace).read().splitlines()
        at = r.rejected_at or 0
        raise Infra("monitor could not consume the recorded trace (line %s: %s): %s\n%s" % (
            at, lines[at - 1][:400] if 0 < at <= len(lines) else "?", r.violated or r.error, r.out[-2500:]))
    runs = len({m for m in re.findall(r'"run":(\d+)', open(trace).read())}) if n_events < 3_000_000 else 0
    run.traces_validated += runs
    run.events_validated += n_events
    out = []
    for m in re.finditer(r'<<"MONITOR-VIOLATION", "([^"]+)", (\d+), (\d+)>>', r.out):
        out.append((m.group(1), int(m.group(2)), int(m.group(3))))
    return out


def report(run, viols, trace_path, prefixes):
    """Turns monitor violations of this property's clauses into findings (with the recorded run as the replay case)."""
    mine = [v for v in viols if v[0].startswith(tuple(prefixes))]
    if not mine:
        return
    byrun = collections.OrderedDict()
    for c, rn, ln in mine:
        byrun.setdefault((c, rn), ln)
    want = {rn for (_, rn) in list(byrun)[:40]}
    evs = collections.defaultdict(list)
    with open(trace_path) as f:
        for line in f:
            m = re.search(r'"run":(\d+)', line)
            if m and int(m.group(1)) in want:
                evs[int(m.group(1))].append(json.loads(line))
    seen = set()
    for (c, rn), ln in byrun.items():
        if c in seen and len(seen) > 0 and sum(1 for f in run.findings if f["kind"].startswith(c)) >= 3:
            continue
        seen.add(c)
        tr = evs.get(rn, [])
        run.findings.append({"kind": c, "detail": "clause %s violated by real run %d (trace line %d): %s" % (c, rn, ln, summarize(tr)),
                             "case": {"trace": tr}})


def summarize(tr):
    out = []
    for e in tr:
        k = e.get("e")
        if k == "reset":
            out.append("cfg=%s E=%s R=%s P=%s %s/%s" % (json.dumps(e.get("cfg")), e.get("E"), e.get("R"), e.get("P"), e.get("variant"), e.get("capacity")))
        elif k == "start":
            out.append("@%s %s %s(%s)" % (e["now"], e["p"], e["kind"], e["part"]))
        elif k == "ret":
            out.append("-> %s%s" % ("ok" if e["ok"] else "ERR", (" ik=%s" % e["ikCreated"]) if e["kind"] == "Enc" and e["ok"] else ""))
        elif k == "tick":
            out.append("tick")
        elif k in ("revoke", "restart", "close"):
            out.append(k + ("(%s,%s)" % (e.get("k"), e.get("created")) if k == "revoke" else ""))
        elif k in ("ms", "kms") and e.get("fault", "none") != "none":
            out.append("%s!%s" % (e["call"], e["fault"]))
    return " ".join(out)[:900]


# ------------------------------------------------------------------------------------------- per-property checks

def _finish(run, what):
    return run.finish("model_checking",
                      "TLC explores Envelope.tla (PlusCal, one step per external call) exhaustively under VIEW for the stated bounds with the property clauses as invariants; every operation-return transition (optionally a random 1/n sample) is re-enacted on real SessionFactories over fake metastore/KMS with a virtual clock, and the recorded real trace is judged by the monitor EnvelopeObs.tla under TLC. non-trivial = path with a rotation, revocation, fault or restart. " + what,
                      ASSUME,
                      explanation="verdicts come only from monitor clauses %s evaluated by TLC on traces of the real code" % (CLAUSES[run.prop],))


def generic(run, fams, extra=None):
    trace = os.path.join(run.work, "trace.ndjson")
    for label, kw in fams:
        res, viols = family(run, label, **kw)
        report(run, viols, trace, CLAUSES[run.prop])
        other = collections.Counter(v[0] for v in viols if not v[0].startswith(tuple(CLAUSES[run.prop])))
        if other:
            run.notes.append("%s: clauses of other properties seen (reported by their own checks): %s" % (label, dict(other)))
    if extra:
        extra(run)       # a part under the cooperative scheduler (after the families: it switches the build to the sched overlay)
    return _finish(run, "families: " + ", ".join(l for l, _ in fams) + ("; " + extra.__doc__.strip() if extra else ""))


def check_C01(run):
    q = run.quick
    fams = [("hist", dict(over=dict(MaxT=5 if q else 7, MaxKids=4 if q else 6, MaxRecs=2, MaxRevokes=1, EmitEvery=12 if q else 40),
                          ik=("session", "shared") if q else ("session", "shared", "none"), sk=(True,) if q else (True, False))),
            # thorough: 33 M distinct states / 10 min at MaxT=4 on 16 cores (MaxT=5 does not finish in 40 min)
            ("two-parts", dict(over=dict(MaxT=3 if q else 4, MaxKids=4 if q else 5, MaxRecs=2, MaxRevokes=0 if q else 1, EmitEvery=15 if q else 120),
                               parts=("a", "b"), ik=("shared",) if q else ("shared", "session"), sk=(True,), timeout=900 if q else 3000))]
    if not q:
        fams.append(("sesscache", dict(over=dict(MaxT=6, MaxKids=5, MaxRecs=2, EmitEvery=40), ik=("session",), sk=(True,), sess=(True,))))
    return generic(run, fams)


def check_C03(run):
    q = run.quick
    trace = os.path.join(run.work, "trace.ndjson")
    # 1. model-generated histories (rotations, revocations, duplicate races): discipline clauses on every AEAD/KMS/Store event
    fams = [("hist", dict(over=dict(MaxT=5 if q else 6, MaxKids=5 if q else 6, MaxRecs=1, MaxRevokes=1, EmitEvery=15 if q else 40),
                          ik=("session", "shared") if q else ("session", "shared", "none"), sk=(True,) if q else (True, False))),
            ("race", dict(over=dict(MaxT=1, MaxKids=4, MaxRecs=1, MaxRevokes=0, EmitEvery=10 if q else 5), procs=("p1", "p2"), ik=("session",), sk=(True,))),
            # two partitions whose ids differ by a trailing blank only: each data key under its own partition's intermediate key
            ("two-parts", dict(over=dict(MaxT=3, MaxKids=4 if q else 5, MaxRecs=2, MaxRevokes=0, EmitEvery=15 if q else 40), parts=("a", "b"), ik=("shared", "session"), sk=(True,)))]
    for label, kw in fams:
        res, viols = family(run, label, **kw)
        report(run, viols, trace, CLAUSES["C03"])
    # 2. long real histories: thousands of encrypts per key, several partitions, rotations; taint search of every artefact
    cfg = {"runs": 3 if q else 12, "partitions": 8, "ops": 1500 if q else 5000, "E": 40, "R": 10, "P": 1, "tickEvery": 25, "tick": 3}
    lr = run.drv(["env-long", "-seed", str(run.seed), "-trace", trace, "-cfg", json.dumps(cfg)], timeout=1800)
    run.absorb(lr)
    viols = monitor(run, trace)
    report(run, viols, trace, CLAUSES["C03"])
    run.notes.append("long histories: %d runs x %d operations, %d events" % (cfg["runs"], cfg["ops"], lr.get("events", 0)))
    # 3. truly parallel encrypts (real scheduler): nonce / data-key uniqueness under concurrency
    sr = run.drv(["env-stress", "-seed", str(run.seed), "-trace", trace, "-long", str(4000 if q else 20000)], timeout=1800)
    run.absorb(sr, count=False)
    viols = monitor(run, trace)
    report(run, viols, trace, CLAUSES["C03"])
    run.notes.append("parallel stress: %s" % json.dumps(sr.get("extra")))
    # 4. the random source delivers its bytes in small pieces: keys from the real secret factories and nonces from the real AEAD
    from vlib import validate_traces
    run.spec_files("RandomnessTrace.tla")
    for chunk in ((8,) if q else (1, 5, 8, 16)):
        rr = run.drv(["-rng", str(chunk), "-trace", trace], timeout=600, binary=run.gobin("memdrv"))
        run.absorb(rr, count=False)
        for x in validate_traces(run, "RandomnessTrace.tla", {}, [], trace, "rng-%d" % chunk, max_reject=4):
            rs, e = x["reset"], x["event"]
            run.findings.append({"kind": "C03.RandomKeysAndNonces %s impl=%s reader-chunk=%s" % (rs.get("what"), rs.get("impl"), rs.get("chunk")),
                                 "detail": "with crypto/rand.Reader returning %s bytes per Read a generated %s is not entirely random: %s" % (rs.get("chunk") or "all", rs.get("what"), json.dumps(e)[:300]),
                                 "case": {"rng": True, "trace": x["trace"]}})
    return _finish(run, "families: hist, race, two-parts + %d seeded long histories of %d operations over 8 partitions (AEAD key/nonce uniqueness, wrap discipline, taint search of records, metastore rows, KMS requests and debug log lines)" % (cfg["runs"], cfg["ops"]))


def check_C09(run):
    q = run.quick
    small = dict(variants=("lru", "slru", "lfu", "tinylfu"), drvargs=("-capacities", "1,2", "-ifail", "150"), strict=False)
    fams = [("hist+evict+ifail", dict(over=dict(MaxT=5 if q else 6, MaxKids=5 if q else 6, MaxRecs=1 if q else 2, MaxRevokes=1, EmitEvery=10 if q else 40),
                                      ik=("session", "shared") if q else ("session", "shared", "none"), sk=(True,) if q else (True, False), **small)),
            ("nocache", dict(over=dict(MaxT=4, MaxKids=4 if q else 6, MaxRecs=1, MaxRevokes=1, EmitEvery=6 if q else 20), ik=("none",), sk=(False,),
                             drvargs=("-ifail", "150"), strict=False)),
            ("faults+ifail", dict(over=dict(MaxT=5, Ticks="{4}", MaxKids=5, MaxRecs=1, MaxRevokes=0, MaxFaults=2, MaxOpFaults=2, EmitEvery=12 if q else 40),
                                  ik=("session",), sk=(True,), drvargs=("-ifail", "200"), strict=False)),
            ("sesscache", dict(over=dict(MaxT=4, MaxKids=4, MaxRecs=1, MaxRevokes=1, EmitEvery=10 if q else 30), ik=("session",), sk=(True,), sess=(True,),
                               drvargs=("-ifail", "100"), strict=False))]
    if not q:
        fams.append(("two-parts+evict", dict(over=dict(MaxT=4, MaxKids=5, MaxRecs=2, MaxRevokes=1, EmitEvery=50),
                                             parts=("a", "b"), ik=("shared", "session"), sk=(True,), **small)))
    if not q:
        fams.append(("race-dup", dict(over=dict(MaxT=1, MaxKids=4, MaxRecs=2, MaxRevokes=0, EmitEvery=10), procs=("p1", "p2"), ik=("session",), sk=(True,), **small)))
    import eng_conc
    return generic(run, fams, extra=eng_conc.release_part)


def check_C10(run):
    q = run.quick
    fams = [("hist+ifail", dict(over=dict(MaxT=4 if q else 6, MaxKids=5 if q else 6, MaxRecs=1 if q else 2, MaxRevokes=1, EmitEvery=10 if q else 40),
                                ik=("session", "none") if q else ("session", "shared", "none"), sk=(True, False), drvargs=("-ifail", "250", "-cancel", "150"), strict=False)),
            ("faults+ifail", dict(over=dict(MaxT=5, Ticks="{4}", MaxKids=5, MaxRecs=1, MaxRevokes=0, MaxFaults=2, MaxOpFaults=2, EmitEvery=10 if q else 30),
                                  ik=("session", "none"), sk=(True,), drvargs=("-ifail", "250", "-cancel", "150"), strict=False)),
            ("race-dup", dict(over=dict(MaxT=1, MaxKids=4, MaxRecs=1, MaxRevokes=0, EmitEvery=10 if q else 6), procs=("p1", "p2"), ik=("session",), sk=(True,),
                              drvargs=("-ifail", "150", "-cancel", "150"), strict=False))]
    aws_kms_wipe(run)
    return generic(run, fams)


def aws_kms_wipe(run):
    """C10, cloud KMS part: the data-key plaintext obtained from the regional KMS clients (both AWS plugins) is zero after
    EncryptKey / DecryptKey - judged by TLC (KmsWipeTrace.tla) on every case KmsRegions.tla generates."""
    import eng_kms
    from vlib import validate_traces
    n = 2 if run.quick else 3
    run.spec_files("KmsRegions.tla", "KmsRegionsGen.tla", "KmsWipeTrace.tla")
    run.write("KGEN.cfg", cfg_text("GCasesOnly", eng_kms.consts(n, "any"), invs=["TypeOK"]))
    g = run.tlc("KmsRegionsGen.tla", "KGEN.cfg", timeout=900, out_name="kgen.out")
    run.tlc_must_hold(g, "KmsRegionsGen case generation")
    trace = os.path.join(run.work, "trace.ndjson")
    rej = []
    for variant in ([], ["-stale"]):      # plain, and with a stale key-encryption key in the preferred unwrap region (fallback to the next)
        res = run.drv(["-in", g.path, "-trace", trace, "-seed", str(run.seed), "-repeat", "1"] + variant, timeout=1800, binary=run.gobin("kmsdrv"))
        run.absorb(res)
        rej += validate_traces(run, "KmsWipeTrace.tla", {}, [], trace, "kms-wipe" + "".join(variant), max_reject=3)
    os.remove(g.path)
    for x in rej:
        ev, rs = x["event"], x["reset"]
        what = "GenerateDataKey plaintext not wiped after EncryptKey" if ev.get("e") == "wrap" else "KMS Decrypt plaintext not wiped after DecryptKey"
        run.findings.append({"kind": "C10.CloudKMSDataKeyWiped %s plugin=%s" % (ev.get("e"), rs.get("wplug") if ev.get("e") == "wrap" else rs.get("uplug")),
                             "detail": "%s: %s" % (what, json.dumps(ev)[:400]), "case": {"trace": x["trace"]}})
    run.notes.append("aws kms plugins: %d wrap/unwrap runs checked for wiped data-key plaintext" % res["evaluations"])


def check_C04(run):
    q = run.quick
    fams = [("expiry", dict(over=dict(MaxT=6 if q else 9, MaxKids=6, MaxRecs=1, MaxRevokes=0, EmitEvery=10 if q else 40),
                            ik=("session", "shared") if q else ("session", "shared", "none"), sk=(True,) if q else (True, False))),
            ("precision2", dict(over=dict(P=2, MaxT=8 if q else 10, Ticks="{1,2}" if q else "{1}", MaxKids=5, MaxRecs=1, MaxRevokes=0, EmitEvery=10 if q else 40),
                                ik=("session",), sk=(True,)))]
    fams.append(("E-multiple-of-P", dict(over=dict(E=2, R=1, P=2, MaxT=8 if q else 10, Ticks="{1}", MaxKids=6, MaxRecs=1, MaxRevokes=0, EmitEvery=8 if q else 30),
                                         ik=("session", "none"), sk=(True,))))
    # "now" is never a whole second (virtual clock = model time + 150 ms): expiry arithmetic done in whole seconds shows up
    fams.append(("expiry-subsecond", dict(over=dict(Frac="TRUE", MaxT=6 if q else 8, MaxKids=6, MaxRecs=1, MaxRevokes=0, EmitEvery=10 if q else 20),
                                          ik=("session", "none"), sk=(True,) if q else (True, False))))
    # an intermediate key younger than its system key (second partition), the system key expires first, the old record is read again
    fams.append(("older-key-2parts", dict(over=dict(MaxT=6, MaxKids=5, MaxRecs=2, MaxRevokes=0, Ticks="{2,1}", OpKinds='{"Enc", "Dec"}', EmitEvery=6 if q else 2),
                                          parts=("a", "b"), ik=("session",), sk=(True,))))
    # metastore / KMS faults while keys are being rotated (the writes that are accepted must still never put an IK under an expired SK)
    fams.append(("expiry+faults", dict(over=dict(MaxT=5, Ticks="{4}", MaxKids=5, MaxRecs=1, MaxRevokes=0, MaxFaults=2, MaxOpFaults=2, EmitEvery=8 if q else 20),
                                       ik=("session",), sk=(True,) if q else (True, False))))
    fams.append(("older-key-2parts+fault", dict(over=dict(MaxT=6, MaxKids=5, MaxRecs=1, MaxRevokes=0, Ticks="{2,1}", OpKinds='{"Enc"}', MaxFaults=1, MaxOpFaults=1, EmitEvery=10 if q else 3),
                                                parts=("a", "b"), ik=("session",), sk=(True,))))
    if not q:
        fams.append(("expiry+revoke", dict(over=dict(MaxT=7, MaxKids=6, MaxRecs=1, MaxRevokes=1, EmitEvery=60), ik=("session", "shared"), sk=(True, False))))
    return generic(run, fams)


def check_C05(run):
    q = run.quick
    fams = [("revoke", dict(over=dict(MaxT=5 if q else 6, MaxKids=5 if q else 6, MaxRecs=1, MaxRevokes=1 if q else 2, EmitEvery=12 if q else 60),
                            ik=("session", "shared") if q else ("session", "shared", "none"), sk=(True, False))),
            ("revoke-sesscache", dict(over=dict(MaxT=5, MaxKids=5, MaxRecs=1, MaxRevokes=1, EmitEvery=12 if q else 30), ik=("session",), sk=(True,), sess=(True,)))]
    fams.append(("revoke+fault", dict(over=dict(MaxT=4 if q else 5, MaxKids=4, MaxRecs=1, MaxRevokes=1, MaxFaults=1, MaxOpFaults=1, EmitEvery=20 if q else 40),
                                      ik=("session",) if q else ("session", "shared"), sk=(True,))))
    if not q:
        # (with CloseSession / Restart as well this family does not finish in 40 min; Enc + Dec: 2.8 M distinct states)
        fams.append(("revoke-2proc", dict(over=dict(MaxT=4, MaxKids=5, MaxRecs=1, MaxRevokes=1, EmitEvery=80, OpKinds='{"Enc", "Dec"}'), procs=("p1", "p2"), ik=("session",), sk=(True,))))
    return generic(run, fams)


def check_C20(run):
    q = run.quick
    fams = [("interval", dict(over=dict(MaxT=5 if q else 6, MaxKids=4, MaxRecs=2, MaxRevokes=0 if q else 1, EmitEvery=5 if q else 30),
                              ik=("session", "shared", "none"), sk=(True, False) )),
            ("two-parts", dict(over=dict(MaxT=4, MaxKids=4 if q else 5, MaxRecs=2, MaxRevokes=0, EmitEvery=15 if q else 60), parts=("a", "b"), ik=("shared", "session"), sk=(True,)))]
    # encrypt-only histories at every clock position, densely sampled: a key that expires while its cache entry is still fresh is
    # rotated inline, and the encrypts that follow within the interval make no call
    fams.append(("inline-rotation", dict(over=dict(MaxT=5 if q else 6, Ticks="{1}", MaxKids=4, MaxRecs=1, MaxRevokes=0, OpKinds='{"Enc"}', EmitEvery=2 if q else 3),
                                         ik=("session", "shared"), sk=(True,))))
    import eng_conc
    eng_conc.stale_sk_part(run)      # concurrent sessions on a stale system key: one KMS unwrap (RefMonitor.tla)
    return generic(run, fams)


def check_C02(run):
    q = run.quick
    fams = [("faults", dict(over=dict(MaxT=5, Ticks="{4}", MaxKids=5 if q else 6, MaxRecs=1, MaxRevokes=0 if q else 1, MaxFaults=2, MaxOpFaults=2, EmitEvery=8 if q else 40),
                            ik=("session",) if q else ("session", "none"), sk=(True,) if q else (True, False))),
            ("faults-warm", dict(over=dict(MaxT=3, Ticks="{1}", MaxKids=4, MaxRecs=1, MaxRevokes=1, MaxFaults=2, MaxOpFaults=2, EmitEvery=8 if q else 30),
                                 ik=("shared",), sk=(True,)))]
    fams.append(("midop-clock", dict(over=dict(P=1, MaxT=3 if q else 4, Ticks="{1}", MidOpTicks="TRUE", MaxKids=2 if q else 4, MaxRecs=1, MaxRevokes=0, MaxFaults=0,
                                               EmitEvery=1 if q else 4), ik=("session",), sk=(True,))))
    if not q:
        fams.append(("faults-2proc", dict(over=dict(MaxT=1, Ticks="{1}", MaxKids=4, MaxRecs=1, MaxRevokes=0, MaxFaults=2, MaxOpFaults=1, EmitEvery=100),
                                          procs=("p1", "p2"), ik=("session",), sk=(True,))))
    import eng_conc
    return generic(run, fams, extra=eng_conc.cold_race_part)


def check_C14(run):
    q = run.quick
    fams = [("race-cold", dict(over=dict(MaxT=1, Ticks="{1}", MaxKids=4, MaxRecs=1 if q else 2, MaxRevokes=0, EmitEvery=6 if q else 4), procs=("p1", "p2"), ik=("session",), sk=(True,))),
            ("race-expired", dict(over=dict(MaxT=5, Ticks="{4}", MaxKids=6, MaxRecs=1, MaxRevokes=0, EmitEvery=30 if q else 100), procs=("p1", "p2"), ik=("session",), sk=(True,),
                                  simulate=("num=%d" % (400 if q else 20000)), ))]
    fams.append(("race-revoked", dict(over=dict(MaxT=1 if q else 2, Ticks="{1}", MaxKids=5 if q else 6, MaxRecs=1, MaxRevokes=1, EmitEvery=4 if q else 20, OpKinds='{"Enc"}' if q else '{"Enc", "Dec"}'), procs=("p1", "p2"),
                                      ik=("session",) if q else ("session", "none"), sk=(True,))))
    # three processes (the interleavings merge into ~100 k states under the partial-order reduction)
    fams.append(("race-3proc", dict(over=dict(MaxT=1, Ticks="{1}", MaxKids=6, MaxRecs=1, MaxRevokes=1, EmitEvery=40 if q else 4, OpKinds='{"Enc"}'), procs=("p1", "p2", "p3"),
                                    ik=("session",), sk=(True,))))
    # warm process still trusting a system key that was revoked in the store, cold process rotating it, both creating the IK of a second partition
    fams.append(("race-revoked-sk-2parts", dict(over=dict(MaxT=2, Ticks="{1}", MaxKids=5, MaxRecs=1, MaxRevokes=1, RevokeKinds='{"SK"}', EmitEvery=20 if q else 3, OpKinds='{"Enc"}'), procs=("p1", "p2"), parts=("a", "b"),
                                                ik=("session",), sk=(True,))))
    if not q:
        fams.append(("race-2parts", dict(over=dict(MaxT=1, Ticks="{1}", MaxKids=5, MaxRecs=2, MaxRevokes=0, EmitEvery=10, OpKinds='{"Enc", "Dec"}'), procs=("p1", "p2"), parts=("a", "b"), ik=("shared",), sk=(True,))))
    import eng_conc
    return generic(run, fams, extra=eng_conc.cold_race_part)


def replay(run, finding):
    case = finding.get("case", {})
    if case.get("scenario"):      # a schedule of the concurrent part
        import eng_conc
        return eng_conc.replay(run, finding)
    tr = case.get("trace")
    if not tr:
        print("nothing to replay")
        return 2
    if case.get("rng"):
        from vlib import validate_traces
        run.spec_files("RandomnessTrace.tla")
        p = os.path.join(run.work, "trace.ndjson")
        chunk = (tr[0].get("chunk") or 8) if tr else 8
        run.drv(["-rng", str(chunk), "-trace", p], timeout=600, binary=run.gobin("memdrv"))
        rej = validate_traces(run, "RandomnessTrace.tla", {}, [], p, "replay", max_reject=1)
        print("re-executed now: " + ("rejected by RandomnessTrace.tla at %s" % json.dumps(rej[0]["event"])[:300] if rej else "accepted"))
        return 1 if rej else 0
    if case.get("coldrace"):
        from vlib import validate_traces
        run.spec_files("ColdRaceTrace.tla")
        p = os.path.join(run.work, "trace.ndjson")
        with open(p, "w") as f:
            for e in tr:
                f.write(json.dumps(e) + "\n")
        rej = validate_traces(run, "ColdRaceTrace.tla", {}, [], p, "replay", max_reject=1)
        print("recorded schedule: " + ("rejected by ColdRaceTrace.tla at %s" % json.dumps(rej[0]["event"])[:300] if rej else "accepted"))
        return 1 if rej else 0
    run.spec_files("EnvelopeObs.tla")
    p = os.path.join(run.work, "trace.ndjson")
    with open(p, "w") as f:
        for e in tr:
            f.write(json.dumps(e) + "\n")
    v = monitor(run, p)
    for x in v:
        print("MONITOR-VIOLATION", x)
    print(summarize(tr))
    return 1 if [x for x in v if x[0].startswith(tuple(CLAUSES.get(run.prop, ("C",))))] else 0
