"""C08 / C16 - in-process concurrency: schedules of the instrumented real code under the cooperative scheduler (vrt),
judged by the TLA+ monitor RefMonitor.tla; design models KeyCacheConc.tla / SessionCache.tla checked by TLC."""
import json, os
from vlib import Run, Infra, tla_set, cfg_text, validate_traces

ASSUME = [
    "schedules are explored at the instrumented synchronisation points (Lock/RLock/Unlock, atomics on reference counts, Cond, the cache's event channel, WaitGroup, go statements, external calls); a data race on unsynchronised memory between two such points is invisible",
    "the overlay is regenerated from /repo's current files on every run; synchronisation spelled in an unforeseen way (a channel not named events, a Cond not named cond/c) runs on the real primitive",
    "secrets are the tracking pure-Go SecretFactory (access after release returns the same error as the real implementations)",
    "operations never race with the close of their own session or factory in these workloads, so every failure counts",
]


def build(run):
    run.vdrv(sched=True)
    return run.gobin("concdrv")


def explore(run, scenarios, random, pct, dfs, preempt, label):
    binary = build(run)
    trace = os.path.join(run.work, "trace.ndjson")
    cfg = {"scenarios": scenarios, "random": random, "pct": pct, "dfs": dfs, "preempt": preempt}
    res = run.drv(["-seed", str(run.seed), "-trace", trace, "-cfg", json.dumps(cfg)], timeout=3000, binary=binary)
    if res["evaluations"] == 0:
        raise Infra("no schedule executed")
    run.absorb(res)
    run.notes.append("%s: %d schedules (%d distinct with a preemption), %d events" % (label, res["evaluations"], res["distinct_nontrivial"], res.get("events", 0)))
    run.spec_files("RefMonitor.tla")
    rej = validate_traces(run, "RefMonitor.tla", {}, ["Disjoint"], trace, label, max_reject=5, spec="MSpec")
    for x in rej:
        ev, rs = x["event"], x["reset"]
        what = {"use-after-close": "use-after-destroy", "opret": "operation-failed", "free": "released-twice", "closed": "not-released-on-close",
                "final": "deadlock-or-panic", "session": "cached-session-not-shared", "double-close": "released-twice",
                "kms": "C20.system-key-unwrapped-more-than-once-per-interval"}.get(ev.get("e"), "rejected-" + str(ev.get("e")))
        run.findings.append({"kind": "%s scenario=%s strategy=%s" % (what, rs["scenario"]["name"], rs.get("strategy")),
                             "detail": "%s: %s (schedule of %d choices)" % (x["why"], json.dumps(ev)[:400], len(rs.get("choices", []))),
                             "case": {"scenario": rs["scenario"], "choices": rs.get("choices", []), "event": ev}})
    return res


def sc_key(name, **kw):
    d = dict(name=name, policy="lru", capacity=1, shared=True, sessCache=False, sessPolicy="lru", sessCap=1, sessExpiry=0, R=1000, workers=2, parts=2, ops=1,
             ticks=0, revoke=False, samePart=False, churn=False, staleSK=False, noIKCache=False)
    d.update(kw)
    return d


def check_C08(run):
    q = run.quick
    design(run, "KeyCacheConc.tla", "KeyCacheConcMC.cfg")
    pols = ["lru", "lfu", "slru", "tinylfu"]
    scen = []
    for p in (pols[:2] if q else pols):
        scen.append(sc_key("shared-%s-cap1" % p, policy=p, capacity=1))
    scen.append(sc_key("shared-lru-cap1-refresh", R=0))
    scen.append(sc_key("shared-slru-cap2-3parts", policy="slru", capacity=2, parts=3, workers=2, ops=2))
    scen.append(sc_key("persession-lru-cap1", shared=False, samePart=True))
    scen.append(sc_key("shared-lru-cap1-sesscache", sessCache=True, sessCap=1, parts=2))
    scen.append(sc_key("sesscache-cap1-holders+churn", sessCache=True, sessPolicy="lru", sessCap=1, parts=2, workers=3, ops=1, policy="simple", shared=False, churn=True))
    scen.append(sc_key("shared-simple-revoke-reload", policy="simple", shared=True, parts=1, workers=2, ops=3, revoke=True, R=0, ticks=2, samePart=True))
    # the shared cache belongs to the factory whatever CacheIntermediateKeys says: sessions come and go while others use its keys
    scen.append(sc_key("shared-simple-noikcache-sessions-close", policy="simple", shared=True, noIKCache=True, parts=2, workers=3, ops=2, samePart=True))
    if not q:
        scen.append(sc_key("shared-lru-cap1-3workers", workers=3, parts=3))
        scen.append(sc_key("shared-tinylfu-cap100-async", policy="tinylfu", capacity=100, parts=3, workers=3, ops=2))
        scen.append(sc_key("shared-lru-cap1-revoke", revoke=True, R=0, ticks=2))
    explore(run, scen, random=40 if q else 400, pct=150 if q else 1500, dfs=400 if q else 6000, preempt=2, label="keycache")
    return run.finish("model_checking",
                      "design: TLC explores KeyCacheConc.tla (lookup / reference / eviction steps of 2-3 goroutines over a bounded cache) with NoUseAfterDestroy; real code: %d workloads (policies, capacity 1-2, shared and per-session IK caches, always-stale refresh, session-cache churn) x seeded random + PCT + systematic search with <= 2 preemptions under the cooperative scheduler; every schedule's trace validated by TLC against RefMonitor.tla. non-trivial = schedule with at least one preemption" % len(scen),
                      ASSUME, explanation="%d schedules executed, %d traces / %d events accepted by TLC" % (run.evaluations, run.traces_validated, run.events_validated))


def check_C16(run):
    q = run.quick
    design(run, "SessionCache.tla", "SessionCacheMC.cfg")
    scen = []
    for p in (["slru", "lru"] if q else ["slru", "lru", "lfu", "tinylfu"]):
        scen.append(sc_key("sess-%s-cap1-3parts" % p, sessCache=True, sessPolicy=p, sessCap=1, parts=3, workers=2, ops=2, policy="simple", shared=False, samePart=True))
    scen.append(sc_key("sess-lru-cap1-holders+churn", sessCache=True, sessPolicy="lru", sessCap=1, parts=2, workers=3, ops=1, policy="simple", shared=False, churn=True))
    scen.append(sc_key("sess-slru-cap1-holders+churn3", sessCache=True, sessPolicy="slru", sessCap=1, parts=3, workers=3, ops=2, policy="simple", shared=False, churn=True))
    scen.append(sc_key("sess-slru-cap2-share", sessCache=True, sessPolicy="slru", sessCap=2, parts=2, workers=3, ops=1, policy="simple", shared=False, samePart=True))
    # tinylfu only has its admission window from capacity 100 on: more partitions than that, re-requested while in the window
    scen.append(sc_key("sess-lru-cap1-expiry", sessCache=True, sessPolicy="lru", sessCap=2, sessExpiry=1, ticks=3, parts=2, workers=2, ops=2, policy="simple", shared=False, samePart=True))
    if not q:
        scen.append(sc_key("sess-slru-cap2-4parts-3w", sessCache=True, sessPolicy="slru", sessCap=2, parts=4, workers=3, ops=2, policy="simple", shared=False, samePart=True))
        scen.append(sc_key("sess-lru-cap1-sharedik", sessCache=True, sessPolicy="lru", sessCap=1, parts=2, workers=2, ops=2, policy="lru", capacity=1, shared=True, samePart=True))
    explore(run, scen, random=40 if q else 400, pct=150 if q else 1500, dfs=300 if q else 5000, preempt=2, label="sessioncache")
    # (every schedule of this workload starts with 104 sequential encrypts: a fixed, modest budget in both tiers)
    big = [sc_key("sess-tinylfu-cap100-104parts", sessCache=True, sessPolicy="tinylfu", sessCap=100, parts=104, workers=2, ops=3, policy="simple", shared=False, samePart=True)]
    explore(run, big, random=40, pct=150, dfs=300 if q else 600, preempt=2, label="sessioncache-tinylfu100")
    scen = scen + big
    return run.finish("model_checking",
                      "design: TLC explores SessionCache.tla (get / use / close / evict / remove steps, usage counter and condition variable) with HeldSessionNeverTornDown and exactly-once teardown, liveness under fairness; real code: %d workloads (policies, capacity 1-2 below the number of partitions, expiry by virtual clock, shared holders) x seeded random + PCT + systematic <= 2 preemptions; every schedule validated by TLC against RefMonitor.tla (operations on held sessions succeed, cached partition shared, everything released exactly once after factory close, no deadlock). non-trivial = schedule with at least one preemption" % len(scen),
                      ASSUME, explanation="%d schedules executed, %d traces / %d events accepted by TLC" % (run.evaluations, run.traces_validated, run.events_validated))


def stale_sk_part(run):
    """C20, concurrent part: several sessions hit a stale system key at once; it is unwrapped by the KMS once."""
    q = run.quick
    scen = [sc_key("stale-sk-2sessions", policy="simple", shared=False, R=1, staleSK=True, workers=2, parts=2, ops=1),
            sc_key("stale-sk-3sessions-shared-ik", policy="lru", capacity=10, shared=True, R=1, staleSK=True, workers=3, parts=3, ops=1),
            # cached sessions: concurrent first requests for one partition end up on ONE session (and so on one warm IK cache)
            sc_key("c20-sesscache-concurrent-first-get", sessCache=True, sessPolicy="slru", sessCap=1, parts=2, workers=3, ops=2, policy="simple", shared=False, samePart=True)]
    return explore(run, scen, random=30 if q else 300, pct=100 if q else 1000, dfs=300 if q else 4000, preempt=2, label="stale-sk")


def release_part(run):
    """C09, concurrent part: secrets stay untouched after their release and are released exactly once while cached keys / cached sessions are evicted under their users (RefMonitor.tla)."""
    q = run.quick
    scen = [sc_key("c09-sess-lru-cap1-holders+churn", sessCache=True, sessPolicy="lru", sessCap=1, parts=2, workers=3, ops=1, policy="simple", shared=False, churn=True),
            sc_key("c09-lru-cap1-shared-2parts", policy="lru", capacity=1, shared=True, workers=2, parts=2, ops=2),
            # cached sessions that expire (virtual clock) and are asked for again: the expired session is released all the same
            sc_key("c09-sess-lru-cap2-expiry", sessCache=True, sessPolicy="lru", sessCap=2, sessExpiry=1, ticks=3, parts=2, workers=2, ops=2, policy="simple", shared=False, samePart=True)]
    return explore(run, scen, random=30 if q else 300, pct=100 if q else 1000, dfs=250 if q else 4000, preempt=2, label="release-under-eviction")


def cold_race_part(run):
    """C14 / C02 on the SDK's own in-memory metastore: cold factories race under the cooperative scheduler (ColdRaceTrace.tla)."""
    run.vdrv(sched=True)
    binary = run.gobin("concdrv")
    run.spec_files("ColdRaceTrace.tla")
    trace = os.path.join(run.work, "trace.ndjson")
    for workers, n in ((2, 240 if run.quick else 3000), (3, 150 if run.quick else 3000)):
        res = run.drv(["-coldrace", str(n), "-workers", str(workers), "-seed", str(run.seed), "-trace", trace], timeout=1500, binary=binary)
        run.absorb(res)
        rej = validate_traces(run, "ColdRaceTrace.tla", {}, [], trace, "cold-race-%d" % workers, max_reject=3)
        for x in rej:
            ev = x["event"]
            what = {"enc": "a racing process got no record", "fresh": "a record handed out in the race does not decrypt in a fresh process (or the racers named different keys)",
                    "final": "deadlock or panic"}.get(ev.get("e"), str(ev.get("e")))
            run.findings.append({"kind": "cold-race/%s" % ev.get("e"), "detail": "%s: %s: %s; run %s" % (what, x["why"], json.dumps(ev)[:300],
                                 json.dumps([e for e in x["trace"] if e.get("e") in ("enc", "fresh")])[:700]), "case": {"coldrace": True, "trace": x["trace"]}})
        run.notes.append("cold race: %d schedules of %d cold factories on one MemoryMetastore" % (res["evaluations"], workers))
        os.remove(trace)


def design(run, module, cfgname):
    """Runs the design-level model check if the specification exists (it is part of the same engine)."""
    from vlib import SPEC
    if not os.path.exists(os.path.join(SPEC, module)):
        run.notes.append("design model %s not present" % module)
        return
    bug = cfgname.replace("MC.cfg", "Bug.cfg")
    run.spec_files(module, cfgname, bug)
    r = run.tlc(module, cfgname, timeout=1500)
    run.tlc_must_hold(r, "%s design check" % module)
    # non-vacuity: the same model with the discipline removed must violate the invariant
    b = run.tlc(module, bug, timeout=1500)
    if not b.violated:
        raise Infra("%s: the deliberately broken variant (%s) did not violate the invariant - the design model is vacuous" % (module, bug))
    run.notes.append("%s: holds for the code's discipline; the variant without it violates %s (non-vacuity)" % (module, b.violated))


def replay(run, finding):
    case = finding.get("case", {})
    binary = build(run)
    p = run.write("replay.json", json.dumps({"scenario": case.get("scenario"), "choices": case.get("choices")}))
    trace = os.path.join(run.work, "trace.ndjson")
    run.drv(["-seed", str(run.seed), "-trace", trace, "-replay", p], binary=binary)
    run.spec_files("RefMonitor.tla")
    rej = validate_traces(run, "RefMonitor.tla", {}, ["Disjoint"], trace, "replay", spec="MSpec")
    print("rejected: " + json.dumps(rej[0]["event"])[:400] if rej else "accepted")
    return 1 if rej else 0
