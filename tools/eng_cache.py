"""C15 - generic cache. Spec: Cache.tla (+CacheMC, CacheGen, CacheTrace). Driver: cachedrv."""
import json, os
from vlib import Run, Infra, tla_set, log, cfg_text, validate_traces

ASSUME = [
    "lru/lfu/slru victims are compared with the definitions transcribed in spec/Cache.tla (LruDefinition/LfuDefinition are checked by TLC against a ghost use-log)",
    "tinylfu is held to the policy-independent contract only (victim = any resident entry): the property does not fix its victim",
    "asynchronous eviction is driven sequentially here; its interleavings belong to the scheduler-based checks (C08/C16)",
    "capacity >= 1 (the cache panics on capacity 0, which is outside the property's quantifier)",
]


def check(run: Run):
    q = run.quick
    run.spec_files("Cache.tla", "CacheMC.tla", "CacheGen.tla", "CacheTrace.tla")
    keys = tla_set(["a", "b", "c"])
    # 1. design: the model satisfies the property (definitions over the ghost log)
    run.write("MC.cfg", cfg_text("Spec", {"Keys": keys, "Vals": "{1,2}", "MaxOps": 5 if q else 6, "MaxT": 3,
                                          "MaxCap": 3, "Policies": tla_set(["lru", "lfu", "slru", "any"]), "Expiries": "{0,2}",
                                          "Configs": "<- MCConfigs"},
                               invs=["TypeOK", "SizeBound", "Structure", "SlruShape", "ClosedEmpty", "LruDefinition", "LfuDefinition"],
                               props=["StaysClosed"]))
    r = run.tlc("CacheMC.tla", "MC.cfg", timeout=1500)
    run.tlc_must_hold(r, "Cache.tla design check")
    # 2. spec -> code: every transition of the state graph as a test of the real cache
    run.write("GEN.cfg", cfg_text("GSpec", {"Keys": keys, "Vals": "{1,2}", "MaxOps": 5 if q else 7, "MaxT": 3,
                                            "MaxCap": 4 if q else 6, "Policies": tla_set(["lru", "lfu", "slru"]), "Expiries": "{0,2}",
                                            "Configs": "<- GenConfigs"},
                                view="GenView", invs=["TypeOK", "SizeBound", "Structure", "SlruShape", "ClosedEmpty"]))
    g = run.tlc("CacheGen.tla", "GEN.cfg", timeout=2400, out_name="gen.out")
    run.tlc_must_hold(g, "CacheGen generation")
    run.exhaustive = True
    res = run.drv(["cache-replay", "-in", g.path], timeout=2400)
    os.remove(g.path)
    if res["evaluations"] != g.generated - len_init(g):
        run.notes.append("replayed %d of %d generated transitions" % (res["evaluations"], g.generated))
    if res["evaluations"] == 0:
        raise Infra("no transitions reached the driver")
    run.absorb(res)
    run.notes.append("replay per policy: %s" % json.dumps(res.get("extra", {}).get("per_policy")))
    # 3. code -> spec: long recorded runs, incl. tinylfu on both sides of its thresholds
    L = 400 if q else 2000
    R = 2 if q else 6
    cfgs = []
    for pol in ["lru", "lfu", "slru", "tinylfu"]:
        for cap in ([1, 2, 3, 5, 6, 8, 10, 20, 99, 100, 101] if q else [1, 2, 3, 4, 5, 6, 7, 8, 10, 12, 20, 50, 99, 100, 101, 200]):
            for exp in ([0, 3] if cap in (2, 100) or not q else [0]):
                for sync in (True, False):
                    # asynchronous eviction makes the trace specification branch (how far callback delivery lags is not logged):
                    # shorter runs there keep every TLC call in minutes
                    n = L if cap < 50 else 2 * L
                    cfgs.append({"cap": cap, "policy": pol, "expiry": exp, "sync": sync,
                                 "keys": cap + max(2, cap // 2), "len": n if sync or q else n // 4, "runs": R})
    tr = run.drv(["cache-trace", "-seed", str(run.seed), "-trace", "trace.ndjson", "-cfg", json.dumps(cfgs)], timeout=1200)
    run.absorb(tr)
    drop_aborted(os.path.join(run.work, "trace.ndjson"))
    tkeys = tla_set(tr["extra"]["keys"])
    consts = {"Keys": tkeys, "Vals": "{1,2,3}", "MaxOps": 0, "MaxT": 0, "Configs": "{}", "TlfuAs": '"any"'}
    import shutil
    shutil.copy(os.path.join(run.work, "trace.ndjson"), os.path.join(run.work, "trace_all.ndjson"))
    rej = validate_traces(run, "CacheTrace.tla", consts, ["SizeBound", "Structure", "SlruShape", "ClosedEmpty"],
                          os.path.join(run.work, "trace.ndjson"), "contract", chunk_runs=None if q else 30)
    for x in rej:
        rs = x["reset"]
        run.findings.append({"kind": "trace-rejected policy=%s cap=%d sync=%s op=%s" % (rs["policy"], rs["cap"], rs["sync"], x["event"]["op"]),
                             "detail": "%s: run %s line %d event %s" % (x["why"], x["run"], x["line_in_run"], json.dumps(x["event"])),
                             "case": {"reset": rs, "seed": run.seed, "trace": x["trace"]}})
    # 3b. conformance to the detailed TinyLFU model (window + SLRU): drift only, never a verdict
    os.replace(os.path.join(run.work, "trace_all.ndjson"), os.path.join(run.work, "trace.ndjson"))
    lines = [l for l in open(os.path.join(run.work, "trace.ndjson")) if True]
    keep = set()
    for l in lines:
        e = json.loads(l)
        if e["op"] == "Reset" and e["policy"] == "tinylfu":
            keep.add(e["run"])
    with open(os.path.join(run.work, "trace.ndjson"), "w") as f:
        f.writelines(l for l in lines if json.loads(l)["run"] in keep)
    consts["TlfuAs"] = '"tlfu"'
    tv, ev = run.traces_validated, run.events_validated
    rej2 = validate_traces(run, "CacheTrace.tla", consts, ["SizeBound", "Structure", "TlfuShape"], os.path.join(run.work, "trace.ndjson"), "tlfu-detail", max_reject=1, chunk_runs=None if q else 30)
    run.traces_validated, run.events_validated = tv, ev
    if rej2:
        print("MODEL-DRIFT property=C15 detailed TinyLFU model (window+SLRU) rejects a recorded tinylfu run: %s" % json.dumps(rej2[0]["event"]))
        run.notes.append("drift: detailed tinylfu model rejected %d run(s)" % len(rej2))
    else:
        run.notes.append("detailed TinyLFU model (admission window + SLRU, sketch choice nondeterministic) accepted all %d tinylfu runs" % len(keep))
    # 4. code -> spec on the repository's own tests: every cache they build, validated against the same trace specification
    repo_tests_part(run, ["github.com/godaddy/asherah/go/appencryption/pkg/cache", "github.com/godaddy/asherah/go/appencryption"])
    # 5. concurrent callers: linearisability (after everything else: it switches the build to the sched overlay)
    conc_part(run)
    return run.finish(
        "model_checking",
        "TLC explores Cache.tla for caps 1..%d x {lru,lfu,slru} x expiry on/off up to %d calls over 3 keys x 2 values; every transition is replayed on the real cache (sync+async) and compared (result, callbacks, size); plus seeded long runs of the real cache for all four policies at capacities on both sides of the tinylfu window / sync thresholds, validated by TLC; plus every cache built by the repository's own tests (pkg/cache and the SDK package) recorded through the tracing overlay and validated by TLC. non-trivial = transition that evicts/expires/hits/deletes, or run with >= 1 callback" % (4 if q else 6, 5 if q else 7),
        ASSUME,
        explanation="spec->code: %d transitions replayed x2 modes; code->spec: %d recorded runs / %d events accepted by TLC" % (res["evaluations"], run.traces_validated, run.events_validated))


def len_init(g):
    import re
    m = re.search(r"Finished computing initial states: (\d+) distinct state", g.out)
    return int(m.group(1)) if m else 0


def replay(run: Run, finding):
    case = finding.get("case")
    if isinstance(case, dict) and case.get("conc"):
        run.spec_files("Cache.tla", "CacheConcTrace.tla")
        pth = os.path.join(run.work, "trace.ndjson")
        with open(pth, "w") as f:
            for e in case["trace"]:
                f.write(json.dumps(e) + "\n")
        consts = {"Keys": tla_set(["k1", "k2", "k3"]), "Vals": "{1,2,3}", "MaxOps": 0, "MaxT": 0, "Configs": "{}"}
        rej = validate_traces(run, "CacheConcTrace.tla", consts, ["HighWater", "SizeBound", "Structure"], pth, "replay", max_reject=1)
        print("recorded schedule: " + ("not linearisable (rejected at %s)" % json.dumps(rej[0]["event"])[:300] if rej else "accepted"))
        return 1 if rej else 0
    if isinstance(case, dict) and "trace" in case:
        run.spec_files("Cache.tla", "CacheTrace.tla")
        with open(os.path.join(run.work, "trace.ndjson"), "w") as f:
            for e in case["trace"]:
                f.write(json.dumps(e) + "\n")
        keys = sorted({e["k"] for e in case["trace"] if e.get("k")})
        rej = validate_traces(run, "CacheTrace.tla", {"Keys": tla_set(keys), "Vals": "{1,2,3}", "MaxOps": 0, "MaxT": 0, "Configs": "{}", "TlfuAs": '"any"'},
                              ["SizeBound", "Structure", "SlruShape", "ClosedEmpty"], os.path.join(run.work, "trace.ndjson"), "replay")
        print(json.dumps(rej[:1], indent=1)[:3000] if rej else "recorded trace accepted")
        return 1 if rej else 0
    p = run.write("case.json", json.dumps(case) + "\n")
    res = run.drv(["cache-replay", "-in", p])
    print(json.dumps(res["findings"], indent=1)[:4000])
    return 1 if res["findings"] else 0


def repo_tests_part(run, packages):
    """Trace validation of the repository's OWN tests: the listed test packages run with the public operations of pkg/cache wrapped
    by the overlay (cmd/vinstr -tracecache; nothing under /repo is changed); every cache any test builds is one recorded run, and
    TLC checks each against CacheTrace.tla - every invariant at every step, whatever the test itself asserts."""
    import subprocess, glob, collections
    from vlib import HARNESS, GOENV, REPO
    run.vdrv()     # builds vinstr into the scratch dir
    ovd = os.path.join(run.work, "overlay-tracecache")
    p = subprocess.run([os.path.join(run.work, "vinstr"), "-repo", REPO, "-out", ovd, "-tracecache"], capture_output=True, text=True)
    if p.returncode != 0:
        raise Infra("vinstr -tracecache failed on the current /repo tree:\n" + p.stdout + p.stderr)
    base = os.path.join(run.work, "repo-tests-trace")
    env = dict(GOENV, VERIF_CACHE_TRACE=base)
    try:
        p = subprocess.run(["go", "test", "-count=1", "-vet=off", "-overlay", p.stdout.strip()] + packages, cwd=HARNESS, env=env,
                           capture_output=True, text=True, timeout=1500)
    except subprocess.TimeoutExpired:
        raise Infra("the repository's tests did not finish under the tracing overlay")
    failed = [l for l in p.stdout.splitlines() if l.startswith(("FAIL", "--- FAIL", "panic:"))]
    if p.returncode != 0 and not any(l.startswith("--- FAIL") for l in failed):
        raise Infra("the repository's tests could not be built/run under the tracing overlay:\n" + (p.stdout + p.stderr)[-3000:])
    if failed:
        run.notes.append("repository tests failing under the tracing overlay (their own verdict, not this check's): %s" % failed[:5])
    # one run per cache built; events of one cache are contiguous after grouping (tests may hold several caches at a time)
    runs = collections.OrderedDict()
    for f in sorted(glob.glob(base + ".*")):
        for line in open(f):
            e = json.loads(line)
            runs.setdefault((f, e["run"]), []).append(e)
        os.remove(f)
    if not runs:
        raise Infra("the repository's tests built no cache under the tracing overlay")
    keys, nvals, n, aborted = set(), 3, 0, 0
    trace = os.path.join(run.work, "trace.ndjson")
    with open(trace, "w") as out:
        for evs in runs.values():
            if any(e["op"] == "Abort" for e in evs):
                aborted += 1
                continue
            n += 1
            for e in evs:
                e["run"] = n
                if e["k"]:
                    keys.add(e["k"])
                nvals = max([nvals, e["v"] if e["op"] == "Set" else 0, e["rv"] if e["op"] == "Get" else 0] + [c[1] for c in e["cbs"]])
                out.write(json.dumps(e) + "\n")
    consts = {"Keys": tla_set(sorted(keys)), "Vals": "{" + ",".join(str(i) for i in range(1, nvals + 1)) + "}", "MaxOps": 0, "MaxT": 0, "Configs": "{}", "TlfuAs": '"any"'}
    tv = run.traces_validated
    rej = validate_traces(run, "CacheTrace.tla", consts, ["SizeBound", "Structure", "SlruShape", "ClosedEmpty"], trace, "repo-tests", max_reject=4)
    for x in rej:
        rs = x["reset"]
        run.findings.append({"kind": "repo-test-trace-rejected policy=%s cap=%d sync=%s op=%s" % (rs["policy"], rs["cap"], rs["sync"], x["event"]["op"]),
                             "detail": "a cache built by the repository's own tests behaved in a way Cache.tla does not allow: %s: line %d of the run, event %s" % (
                                 x["why"], x["line_in_run"], json.dumps(x["event"])),
                             "case": {"reset": rs, "seed": run.seed, "trace": x["trace"]}})
    run.notes.append("repository tests under the tracing overlay (%s): %d caches recorded, %d validated by TLC, %d cut out (expiring cache on the wall clock)" % (
        " ".join(x.rsplit("/", 2)[-1] if x.endswith("...") else x.rsplit("/", 1)[-1] for x in packages), len(runs), run.traces_validated - tv, aborted))


def conc_part(run):
    """C15 under concurrency: goroutines operating on one real cache under the cooperative scheduler; every schedule must be
    linearisable with respect to Cache.tla (CacheConcTrace.tla: call / ret events, silent linearisation steps)."""
    run.vdrv(sched=True)
    binary = run.gobin("concdrv")
    run.spec_files("Cache.tla", "CacheConcTrace.tla")
    trace = os.path.join(run.work, "trace.ndjson")
    res = run.drv(["-cacheconc", str(450 if run.quick else 6000), "-seed", str(run.seed), "-trace", trace], timeout=1500, binary=binary)
    run.absorb(res)
    consts = {"Keys": tla_set(["k1", "k2", "k3"]), "Vals": "{1,2,3}", "MaxOps": 0, "MaxT": 0, "Configs": "{}"}
    rej = validate_traces(run, "CacheConcTrace.tla", consts, ["HighWater", "SizeBound", "Structure"], trace, "cache-conc", max_reject=4, chunk_runs=400)
    for x in rej:
        rs, e = x["reset"], x["event"]
        run.findings.append({"kind": "not-linearisable policy=%s cap=%s workers=%s at=%s" % (rs.get("policy"), rs.get("cap"), rs.get("workers"), e.get("e")),
                             "detail": "no choice of linearisation points makes the concurrent run a behaviour of Cache.tla: %s: %s; run: %s" % (
                                 x["why"], json.dumps(e)[:300], json.dumps([y for y in x["trace"] if y.get("e") in ("call", "ret", "tick", "final")])[:900]),
                             "case": {"conc": True, "trace": x["trace"]}})
    run.notes.append("concurrent cache: %d schedules (%d with a preemption) linearised by TLC" % (res["evaluations"], res.get("distinct_nontrivial", 0)))


def drop_aborted(path):
    lines = open(path).read().splitlines()
    bad = {json.loads(l)["run"] for l in lines if json.loads(l)["op"] == "Abort"}
    if bad:
        with open(path, "w") as f:
            f.write("".join(l + "\n" for l in lines if json.loads(l)["run"] not in bad))
