"""C06 - partition isolation. Spec: Partition.tla (+PartitionGen, PartitionTrace). Driver: partdrv."""
import json, os
from vlib import Run, Infra, tla_set, cfg_text, validate_traces

ASSUME = [
    "service = 's', product = 'p', regions 'r' and 'q' (single characters; the id universe embeds the separator, the _service_product suffix and region suffixes as tokens)",
    "region suffixes contain no underscore (AWS region names)",
    "sessions share one in-memory metastore and static KMS so that a foreign key, if accepted, can actually be loaded and used",
]


def check(run: Run):
    q = run.quick
    run.spec_files("Partition.tla", "PartitionGen.tla", "PartitionTrace.tla")
    letters = ["a", "A", "_", "s", " "] if q else ["a", "A", "b", "_", "s", "p", " "]   # the blank: ids are opaque, nothing may trim them
    consts = {"Letters": tla_set(letters), "MaxLen": 2 if q else 3, "Service": "<- Svc", "Product": "<- Prd", "Regions": "<- Rgs",
              "SampleEvery": 1 if q else 40}
    run.write("GEN.cfg", cfg_text("GSpec", consts, invs=["Isolation", "OwnAccepted", "CrossRegionAccepted", "KindsDisjoint"]))
    g = run.tlc("PartitionGen.tla", "GEN.cfg", timeout=2400, out_name="gen.out")
    run.tlc_must_hold(g, "Partition.tla design check (Isolation over the whole id universe)")
    run.exhaustive = q
    trace = os.path.join(run.work, "trace.ndjson")
    res = run.drv(["part-replay", "-in", g.path, "-trace", trace], timeout=2400)
    os.remove(g.path)
    if res["evaluations"] == 0:
        raise Infra("no pair reached the driver")
    run.absorb(res)
    d = res.get("extra", {}).get("same_partition_drift", 0)
    if d:
        print("MODEL-DRIFT property=C06 %d same-partition acceptance decisions differ from Partition.tla (not part of the property)" % d)
    rej = validate_traces(run, "PartitionTrace.tla", {}, [], trace, "partition", max_reject=8)
    for x in rej:
        ev = x["event"]
        what = "foreign-accepted" if (ev.get("e") == "pair" and not ev.get("same") and ev.get("accepted")) else \
               ("empty-id-accepted" if ev.get("e") == "empty" else ("panic" if ev.get("panic") else "own-record-refused-or-wrong-bytes"))
        run.findings.append({"kind": "%s p=%s q=%s mp=%s mq=%s" % (what, ev.get("p"), ev.get("q"), ev.get("mp"), ev.get("mq")),
                             "detail": "%s: %s" % (x["why"], json.dumps(ev)[:500]), "case": {"event": ev}})
        # keep going past this event: cut only the offending line
    run.states += res["evaluations"]
    run.transitions += res["evaluations"]
    return run.finish("model_checking",
                      "TLC evaluates Isolation / OwnAccepted / CrossRegionAccepted over every ordered pair of partition ids built from <= %d tokens over letters %s + the _s_p and region tokens, x 3 naming modes each side; every pair (quick) or every close pair + a 1/%d sample (thorough) is executed on real sessions (producer encrypts, other session decrypts) and the outcomes are validated by TLC (PartitionTrace). non-trivial = distinct ids where one (key) id is a prefix of the other. states/transitions count the pairs evaluated (the spec has no dynamics)" % (consts["MaxLen"], letters, consts["SampleEvery"]),
                      ASSUME, explanation="%d pairs executed on real sessions, %d events accepted by TLC" % (res["evaluations"], run.events_validated))


def replay(run: Run, finding):
    ev = finding.get("case", {}).get("event", {})
    case = {"p": list(ev.get("p", "")), "q": list(ev.get("q", "")), "mp": list(ev.get("mp", "")), "mq": list(ev.get("mq", "")), "valid": False, "close": True}
    cp = run.write("case.json", json.dumps(case) + "\n")
    run.spec_files("PartitionTrace.tla")
    trace = os.path.join(run.work, "trace.ndjson")
    run.drv(["part-replay", "-in", cp, "-trace", trace])
    rej = validate_traces(run, "PartitionTrace.tla", {}, [], trace, "replay")
    print("rejected: " + json.dumps(rej[0]["event"]) if rej else "accepted")
    return 1 if rej else 0
