#!/usr/bin/env python3
"""Condenses a TLC counterexample: per state the action label plus selected variables."""
import re, sys
txt = open(sys.argv[1]).read() if len(sys.argv) > 1 and sys.argv[1] != "-" else sys.stdin.read()
want = sys.argv[2:] or ["now", "cmd", "xc", "ret", "store"]
states = re.split(r"\nState (\d+): ", txt)
m = re.search(r"Error: (.*)", txt)
print(m.group(0) if m else "")
for i in range(1, len(states), 2):
    n, body = states[i], states[i + 1]
    head = body.split("\n", 1)[0]
    lab = re.search(r"<(\w+)", head)
    vals = {}
    for v in want:
        mm = re.search(r"/\\ %s = (.*?)(?=\n/\\ |\n\n|\Z)" % v, body, re.S)
        if mm:
            vals[v] = re.sub(r"\s+", " ", mm.group(1))
    print("%s %-8s %s" % (n, lab.group(1) if lab else "?", "  ".join("%s=%s" % kv for kv in vals.items())))
