#!/bin/bash
# seed_batch.sh <prop> <m> [checks...] : parses the demo header for its destination and evaluates the seeded change
prop=$1; m=$2; shift 2
mut=/tmp/mut/$prop-out/$m
dest=$(head -5 $mut/demo_test.go | grep -o -i 'copy into:* *[^ ]*' | head -1 | awk '{print $NF}' | sed 's#/$##')
[ -z "$dest" ] && dest=$(head -5 $mut/demo_test.go | grep -o 'go/[a-zA-Z0-9/_-]*' | head -1 | sed 's#/$##')
case $dest in go/appencryption*) tdir=go/appencryption;; go/securememory*) tdir=go/securememory;; server/go*) tdir=server/go;; *) tdir=$dest;; esac
echo "== $prop/$m dest=$dest"
/verif/tools/seed_eval.sh $prop $mut $dest $dest 'Test.*(M1|M2|Demo|m1|m2)' "$@"
