"""C11 / C12 - secure memory. Specs: SecMem.tla (+Gen, +Trace), SecMemConc.tla (+Trace). Driver: memdrv."""
import json, os, re
from vlib import Run, Infra, tla_set, cfg_text, validate_traces

ASSUME = [
    "memory primitives are failed by a shadow of securememory/internal/memcall injected through a constructor that the build overlay ADDS to the package (VerifNewSecretFactory); everything else is the real code and the real mmap/mlock/mprotect",
    "page state is the kernel's view of the secret's address in /proc/self/smaps (perms, lo, dd flags); content is peeked by the shadow",
    "memguard allocates, locks, wipes and destroys inside the library: those steps cannot be failed from outside; after a failed memguard creation the library's own page layout is not judged",
    "the random source of CreateRandom cannot be failed through a public seam and is not",
    "a primitive failure on release (mprotect back to PROT_NONE) is reported to the caller; the page then stays readable - accepted, the caller was told",
]
INVS = ["IdleNoAccess", "LockedWhileLive", "ClosedGone", "ReadAfterClose", "FailedCreateLeavesNothing", "FailedCreateNoSecret",
        "FailedOpenLeavesNoAccess", "NeverDirtyRelease", "InUseBalanced"]
TC = {"Impls": tla_set(["pm", "mg"]), "MaxCalls": 1000000, "MaxFaults": 1000000, "MaxPrim": 5, "PanicReads": "TRUE"}


def seq_part(run, max_calls, max_faults, label, view="GenView", panic_reads=False):
    run.spec_files("SecMem.tla", "SecMemGen.tla", "SecMemTrace.tla")
    run.write("GEN_%s.cfg" % label, cfg_text("GSpec", {"Impls": tla_set(["pm", "mg"]), "MaxCalls": max_calls, "MaxFaults": max_faults, "MaxPrim": 5,
                                                      "PanicReads": "TRUE" if panic_reads else "FALSE"}, invs=INVS, view=view))
    g = run.tlc("SecMemGen.tla", "GEN_%s.cfg" % label, timeout=1500, out_name="gen_%s.out" % label)
    run.tlc_must_hold(g, "SecMem.tla design check (%s)" % label)
    binary = run.gobin("memdrv")
    trace = os.path.join(run.work, "trace.ndjson")
    res = drive_isolated(run, binary, g.path, trace)
    os.remove(g.path)
    if res["evaluations"] == 0:
        raise Infra("no case reached the driver")
    run.absorb(res)
    first = len(run.tlc_runs)
    rej = validate_traces(run, "SecMemTrace.tla", TC, [], trace, label, max_reject=8)
    why = {}
    for t in run.tlc_runs[first:]:
        for m in re.finditer(r'<<"SECMEM-MISMATCH", (\d+), (\{.*?\})>>', open(t.path, errors="replace").read(), re.S):
            why[int(m.group(1))] = re.sub(r"\s+", " ", m.group(2))
    for x in rej:
        ev, rs = x["event"], x["reset"]
        run.findings.append({"kind": "%s impl=%s op=%s F=%s" % (why.get(x["run"], "not-a-behaviour"), rs.get("impl"), ev.get("op"), ev.get("F")),
                             "detail": "%s: after %s the real secret shows %s" % (x["why"], [e.get("op") for e in x["trace"] if e.get("e") == "call"][:x["line_in_run"]],
                                                                                json.dumps({k: ev.get(k) for k in ("ok", "saw", "bytes", "mapped", "locked", "prot", "dontdump", "secret", "dirty", "inuse", "closed", "prims", "panic")})[:600]),
                             "case": {"trace": x["trace"]}})
    return res


def renumber(line, offset):
    """Adds offset to the run number of an ndjson event line."""
    return re.sub(r'"run":(\d+)', lambda m: '"run":%d' % (int(m.group(1)) + offset), line, count=1)


def drive_isolated(run, binary, cases_path, trace):
    """Runs the case file through the driver; a case that kills the driver process (memguard aborts the process when it
    finds a corrupted canary, a wild access is a SIGSEGV) is retried alone: reproducible -> finding, otherwise skipped with a note."""
    import subprocess
    cases = [l for l in open(cases_path, errors="replace") if l.startswith('"{')]
    total = {"evaluations": 0, "distinct_nontrivial": 0, "events": 0, "samples": [], "findings": []}
    open(trace, "w").close()
    pos, guard = 0, 0
    while pos < len(cases) and guard < 12:
        guard += 1
        part = os.path.join(run.work, "cases-part.txt")
        CHUNK = 400   # a fresh process every few hundred cases: leaked pages and garbage (GC is off) do not accumulate
        with open(part, "w") as f:
            f.writelines(cases[pos:pos + CHUNK])
        ptrace = os.path.join(run.work, "trace-part.ndjson")
        outp = os.path.join(run.work, "drv-part.json")
        p = subprocess.run([binary, "-in", part, "-trace", ptrace, "-out", outp, "-sizes", "1,32,4096,9000"], cwd=run.work, capture_output=True, text=True, timeout=1500)
        if p.returncode == 0:
            r = json.load(open(outp))
            for k in ("evaluations", "distinct_nontrivial", "events"):
                total[k] += r.get(k, 0)
            total["samples"] = total["samples"] or r.get("samples", [])
            with open(trace, "a") as f:
                for line in open(ptrace):
                    f.write(renumber(line, pos))      # run numbers restart in every chunk: make them unique
            pos += CHUNK
            guard = 0
            continue
        # the driver died: keep the complete runs, find the case it died in
        done = 0
        lines = open(ptrace, errors="replace").read().splitlines() if os.path.exists(ptrace) else []
        complete = []
        for l in lines:
            try:
                e = json.loads(l)
            except Exception:
                break
            complete.append((e.get("run"), l))
        last_run = complete[-1][0] if complete else 0
        keep = [l for (rn, l) in complete if rn < last_run]           # the last run may be partial
        done = max(0, last_run - 1)
        with open(trace, "a") as f:
            f.write("".join(renumber(x, pos) + "\n" for x in keep))
        total["evaluations"] += done
        culprit = cases[pos + done] if pos + done < len(cases) else None
        pos += done + 1
        if culprit is None:
            break
        single = os.path.join(run.work, "case-single.txt")
        open(single, "w").write(culprit)
        crashes = 0
        for _ in range(3):
            q = subprocess.run([binary, "-in", single, "-trace", ptrace, "-out", outp, "-sizes", "1,32,4096,9000"], cwd=run.work, capture_output=True, text=True, timeout=300)
            crashes += q.returncode != 0
        if crashes >= 2:
            run.findings.append({"kind": "process-crash " + json.loads(json.loads(culprit)).get("impl", "?"),
                                 "detail": "the driver process dies on this case (%d of 3 isolated attempts): %s\n%s" % (crashes, json.loads(culprit)[:300], (p.stderr or "")[:600]),
                                 "case": {"case": json.loads(json.loads(culprit))}})
        else:
            run.notes.append("one driver crash did not reproduce in isolation (%d/3) and was skipped: %s | %s" % (crashes, json.loads(culprit)[:160], (p.stderr or "").split("\n")[0][:160]))
    return total


def conc_part(run, q):
    from vlib import SPEC
    run.spec_files("SecMemConc.tla", "SecMemConcMC.cfg", "SecMemConcBug.cfg", "SecMemConcTrace.tla")
    r = run.tlc("SecMemConc.tla", "SecMemConcMC.cfg", timeout=900)
    run.tlc_must_hold(r, "SecMemConc.tla design check")
    b = run.tlc("SecMemConc.tla", "SecMemConcBug.cfg", timeout=900)
    if not b.violated:
        raise Infra("SecMemConc.tla: the variant in which Close does not wait did not violate ReaderSafe (vacuous model)")
    run.vdrv(sched=True)
    binary = run.gobin("memdrv")
    trace = os.path.join(run.work, "trace.ndjson")
    for (R, C, reads) in ([(2, 1, 2), (2, 2, 1)] if q else [(2, 1, 2), (2, 2, 2), (3, 2, 1), (3, 1, 2)]):
        cfg = {"impls": ["pm", "mg"], "readers": R, "closers": C, "reads": reads, "random": 60 if q else 300, "pct": 200 if q else 800,
               "dfs": 700 if q else 5000, "preempt": 2, "sizes": [32] if q else [1, 4096, 9000]}
        try:
            res = run.drv(["-conc", json.dumps(cfg), "-seed", str(run.seed), "-trace", trace], timeout=3000, binary=binary, ok_codes=(0,))
        except Infra as e:
            if "SIGSEGV" in str(e) or "unexpected fault address" in str(e) or "fatal error" in str(e):
                # C11: no interleaving of readers and closers crashes the process
                run.findings.append({"kind": "process-crash readers=%d closers=%d" % (R, C), "detail": str(e)[-1500:], "case": {"cfg": cfg}})
                continue
            raise
        run.absorb(res)
        rej = validate_traces(run, "SecMemConcTrace.tla", {}, [], trace, "conc-%dx%d" % (R, C), max_reject=4)
        for x in rej:
            ev, rs = x["event"], x["reset"]
            what = {"read": "reader-saw-wrong-state-or-spurious-error", "close": "close-failed", "end": "not-gone-after-close", "final": "deadlock-or-panic"}.get(ev.get("e"), str(ev.get("e")))
            run.findings.append({"kind": "%s impl=%s readers=%d closers=%d" % (what, rs.get("impl"), R, C),
                                 "detail": "%s: %s (schedule of %d choices, strategy %s)" % (x["why"], json.dumps(ev)[:300], len(rs.get("choices", [])), rs.get("strategy")),
                                 "case": {"trace": x["trace"]}})


def conc_fault_part(run, q):
    """C12 under concurrency: the re-protection of a reader's release fails while other readers / a Close are in flight: the error
    is reported to that reader, nobody deadlocks, Close still completes and unmaps (SecMemConcTrace.tla)."""
    run.spec_files("SecMemConcTrace.tla")
    run.vdrv(sched=True)
    binary = run.gobin("memdrv")
    trace = os.path.join(run.work, "trace.ndjson")
    for k in (1, 2):
        cfg = {"impls": ["pm", "mg"], "readers": 2, "closers": 1, "reads": 2, "random": 40 if q else 300, "pct": 120 if q else 800,
               "dfs": 300 if q else 3000, "preempt": 2, "sizes": [32], "faultRelease": k}
        try:
            res = run.drv(["-conc", json.dumps(cfg), "-seed", str(run.seed), "-trace", trace], timeout=1500, binary=binary, ok_codes=(0,))
        except Infra as e:
            if "SIGSEGV" in str(e) or "unexpected fault address" in str(e) or "fatal error" in str(e):
                run.findings.append({"kind": "process-crash after a failed release (fault %d)" % k, "detail": str(e)[-1500:], "case": {"cfg": cfg}})
                continue
            raise
        run.absorb(res)
        for x in validate_traces(run, "SecMemConcTrace.tla", {}, [], trace, "conc-fault-%d" % k, max_reject=4):
            ev, rs = x["event"], x["reset"]
            what = {"read": "reader-saw-wrong-state-or-spurious-error", "close": "close-failed", "end": "not-gone-after-close", "final": "deadlock-or-panic"}.get(ev.get("e"), str(ev.get("e")))
            run.findings.append({"kind": "%s after a failed release impl=%s (fault on re-protection %d)" % (what, rs.get("impl"), k),
                                 "detail": "%s: %s (schedule of %d choices, strategy %s)" % (x["why"], json.dumps(ev)[:300], len(rs.get("choices", [])), rs.get("strategy")),
                                 "case": {"trace": x["trace"]}})


def check_C12(run: Run):
    q = run.quick
    seq_part(run, 4 if q else 6, 2, "faults", view=None if q else "GenView")
    seq_part(run, 3 if q else 4, 1, "faults+panicking-callbacks", view=None, panic_reads=True)
    conc_fault_part(run, q)
    if not q:
        seq_part(run, 5, 2, "faults-sequences", view=None)
    return run.finish("model_checking",
                      "TLC explores SecMem.tla (one action per API call; inside it the primitives in code order, the k-th failing iff k is in the call's fault set) for both implementations with all fault sets of size <= 2 per call and <= 2 per behaviour, with the C12 clauses as invariants; every transition is executed on a fresh real secret (sizes 1 B .. 3 pages) through the shadow memcall failing exactly those calls, and TLC validates result, kernel page state, wiped-before-unlock, reader count effects, IsClosed and the in-use counter against the model. non-trivial = at least one injected failure",
                      ASSUME, explanation="%d transitions executed on real secrets; %d runs / %d events accepted by TLC" % (run.evaluations, run.traces_validated, run.events_validated))


def check_C11(run: Run):
    q = run.quick
    # fault-free API sequences (deeper; the call counter is part of the state so every sequence is a case)
    seq_part(run, 5 if q else 6, 0, "sequences", view=None)
    seq_part(run, 4 if q else 5, 0, "sequences+panicking-callbacks", view=None, panic_reads=True)
    conc_part(run, q)
    return run.finish("model_checking",
                      "sequential: every API sequence of SecMem.tla without faults up to the bound (New/CreateRandom, WithBytes, WithBytesFunc, Reader, Close, repeated Close) on real secrets of 1 B .. 3 pages, kernel page state (mapped, PROT_NONE idle / read-only in callback, mlock'd, MADV_DONTDUMP, unmapped after Close) validated by TLC; concurrent: SecMemConc.tla (3 readers x 2 closers, incl. liveness) checked by TLC, and R readers (nested every second read) x C closers on real secrets explored under the cooperative scheduler (random, PCT, <= 2 preemptions), each schedule validated by TLC against SecMemConcTrace.tla. non-trivial = sequence with a read and a close / schedule with a preemption",
                      ASSUME, explanation="%d cases+schedules; %d runs / %d events accepted by TLC" % (run.evaluations, run.traces_validated, run.events_validated))


def replay(run: Run, finding):
    tr = finding.get("case", {}).get("trace", [])
    conc = any(e.get("e") in ("read", "closing") for e in tr)
    run.spec_files("SecMem.tla", "SecMemTrace.tla", "SecMemConcTrace.tla")
    p = os.path.join(run.work, "trace.ndjson")
    with open(p, "w") as f:
        for e in tr:
            f.write(json.dumps(e) + "\n")
    rej = validate_traces(run, "SecMemConcTrace.tla" if conc else "SecMemTrace.tla", {} if conc else TC, [], p, "replay")
    print("recorded run: " + ("rejected" if rej else "accepted"))
    if conc:
        return 1 if rej else 0
    calls = [{"op": e["op"], "F": e["F"]} for e in tr if e.get("e") == "call"]
    case = {"impl": tr[0].get("impl"), "path": calls[:-1], "step": calls[-1]}
    cp = run.write("case.json", json.dumps(case) + "\n")
    run.drv(["-in", cp, "-trace", p, "-sizes", str(tr[0].get("size", 32))], binary=run.gobin("memdrv"))
    rej2 = validate_traces(run, "SecMemTrace.tla", TC, [], p, "replay-now")
    print("re-executed now: " + ("rejected" if rej2 else "accepted"))
    return 1 if rej2 else 0
