"""C13 - every metastore implementation is an insert-only, read-your-writes key table.
Spec: Metastore.tla (+MetastoreGen, MetastoreTrace). Driver: harness/cmd/msdrv (drivers/msdrv)."""
import json, os
from vlib import Run, Infra, tla_set, cfg_text, validate_traces, log

IDS = ["_IK_p_s_d", "_IK_p_s_d_us-west-2"]           # one id is a proper prefix of the other (region-suffixed form)
STAMPS_A = [5, 40, 300]                                # decimal-string order is the reverse of numeric order
STAMPS_C = [-60, 0, 7]                                 # boundary: a creation time before / at the epoch is a legal int64 key like any other
STAMPS_B = [999999999, 1000000000, 1700000000]         # realistic epoch seconds; "999999999" sorts last as a string
INVS = ["ReplicaBehind", "ReadsPrimary", "LatestIsGreatest", "ReadYourWrites"]
PROPS = ["InsertOnly", "StoreContract", "ReadsArePure"]
CHUNK = 8000                                           # cases per driver + trace-validation round
ASSUME = [
    "SQL backend = database/sql driver fake of the documented schema (docs/Metastore.md: PRIMARY KEY (id, created), created TIMESTAMP, key_record TEXT) interpreting INSERT / SELECT..WHERE equalities..ORDER BY..LIMIT with exactly one vendor's placeholder style per database (mysql ?, postgres $n, oracle :n); a real server is not available offline",
    "DynamoDB backend = semantic fake of one table (Id S hash, Created N range): PutItem replaces unless the ConditionExpression (attribute_not_exists / attribute_exists) forbids it, GetItem / Query are served from a replica lagging one write behind unless ConsistentRead=true, key conditions / projections resolved through ExpressionAttributeNames/Values, numeric sort order, Limit, wrong table name -> ResourceNotFoundException; v1 and v2 client fakes translate SDK types to it and return the SDKs' modelled exception types",
    "a Store that reports false may or may not carry an error (SQL and DynamoDB return the constraint failure); a Store that reports true with an error is refused",
    "the record's own Created field is set to the created argument; EnvelopeKeyRecord.ID (json:\"-\", not persisted) is not compared",
    "MemoryMetastore keeps the caller's pointer: every Store gets a private record that the driver never touches again (aliasing by the caller is outside the property)",
    "calls are sequential; concurrent Stores of the same key belong to C14",
]


def consts(ids, stamps, variants="{}", maxops=0, sources=("primary",)):
    pos = sorted(int(s) for s in stamps if int(s) >= 0)
    neg = sorted(-int(s) for s in stamps if int(s) < 0)
    return {"Ids": tla_set(ids), "PosStamps": tla_set(pos), "NegStamps": tla_set(neg), "Variants": variants if variants.startswith("{") else "<- " + variants,
            "ReadSources": tla_set(list(sources)), "MaxOps": maxops}


def design(run, q):
    """1. the model satisfies the property clauses; and the strong-consistency clause is not vacuous."""
    n = 4 if q else 5
    run.write("MC.cfg", cfg_text("Spec", consts(IDS, STAMPS_A, "Variants2" if q else "Variants3", n), invs=["TypeOK"] + INVS, props=PROPS))
    r = run.tlc("Metastore.tla", "MC.cfg", timeout=1500)
    run.tlc_must_hold(r, "Metastore.tla design check")
    run.write("MCNEG.cfg", cfg_text("Spec", consts(IDS, STAMPS_A, "Variants2", 3, ("primary", "replica")), invs=["ReadYourWrites"]))
    st, tr = run.states, run.transitions
    r = run.tlc("Metastore.tla", "MCNEG.cfg", timeout=600)
    run.states, run.transitions = st, tr                      # a sanity run, not coverage
    if r.violated != "ReadYourWrites":
        raise Infra("Metastore.tla: reads served from the lagging replica no longer violate ReadYourWrites (%s) - the strong-consistency clause has become vacuous" % (r.violated or r.error or "no violation"))
    run.notes.append("non-vacuity: with ReadSources = {primary, replica} TLC refutes ReadYourWrites after %d states" % r.generated)


def generate(run, q):
    """2. cases: (a) every transition of the state graph with a witness path, (b) seeded random sequences x every last call."""
    fams = []
    if q:
        fams.append(("t-v2-len4", dict(ids=IDS, stamps=STAMPS_A, variants="Variants2", maxops=4), "trans", "GenViewT", None))
        fams.append(("t-v4-len2", dict(ids=IDS, stamps=STAMPS_B, variants="Variants4", maxops=2), "trans", "GenView", None))
        fams.append(("s-v4-len6", dict(ids=IDS, stamps=STAMPS_A, variants="Variants4", maxops=6), "seq", None, 50))
        fams.append(("t-v2-len3c", dict(ids=IDS, stamps=STAMPS_C, variants="Variants2", maxops=3), "trans", "GenViewT", None))
    else:
        fams.append(("t-v3-len5", dict(ids=IDS, stamps=STAMPS_A, variants="Variants3", maxops=5), "trans", "GenViewT", None))
        fams.append(("t-v4-len3", dict(ids=IDS, stamps=STAMPS_B, variants="Variants4", maxops=3), "trans", "GenView", None))
        fams.append(("t-v2-len4b", dict(ids=IDS, stamps=STAMPS_B, variants="Variants2", maxops=4), "trans", "GenView", None))
        fams.append(("s-v4-len6", dict(ids=IDS, stamps=STAMPS_A, variants="Variants4", maxops=6), "seq", None, 250))
        fams.append(("s-v4-len9", dict(ids=IDS, stamps=STAMPS_B, variants="Variants4", maxops=9), "seq", None, 100))
        fams.append(("t-v2-len4c", dict(ids=IDS, stamps=STAMPS_C, variants="Variants2", maxops=4), "trans", "GenViewT", None))
    chunks, cur, n_in_cur, total, per = [], None, 0, 0, {}
    for label, c, mode, view, sim in fams:
        k = consts(**c)
        k["Mode"] = '"%s"' % mode
        run.write("GEN_%s.cfg" % label, cfg_text("GSpec", k, invs=INVS, view=view))
        g = run.tlc("MetastoreGen.tla", "GEN_%s.cfg" % label, workers=1, timeout=2400, out_name="gen_%s.out" % label,
                    simulate=("num=%d" % sim) if sim else None, extra=(["-depth", str(c["maxops"] + 1)] if sim else []))
        run.tlc_must_hold(g, "MetastoreGen %s" % label)
        n = 0
        with open(g.path, errors="replace") as f:
            for line in f:
                if not line.startswith('"{'):
                    continue
                if cur is None or n_in_cur >= CHUNK:
                    if cur:
                        cur.close()
                    p = os.path.join(run.work, "cases_%d.txt" % len(chunks))
                    chunks.append(p)
                    cur, n_in_cur = open(p, "w"), 0
                cur.write(line)
                n_in_cur += 1
                n += 1
        os.remove(g.path)
        per[label] = n
        total += n
        if n == 0:
            raise Infra("generation family %s produced no case" % label)
    if cur:
        cur.close()
    run.notes.append("cases per family: %s" % json.dumps(per))
    return chunks, total, all(m == "trans" for _, _, m, _, _ in fams), per


def short(k):
    return k if len(k) <= 32 else "%s..%s(%dB)" % (k[:12], k[-8:], len(k) // 2)


def obs_of(ev):
    if ev.get("e") == "store":
        return "ok=%s%s" % (str(ev.get("ok")).lower(), " +error" if ev.get("err") else "")
    if ev.get("err"):
        return "error: %s" % ev.get("errs", "")
    if not ev.get("found"):
        return "none"
    return json.dumps({k: (short(ev[k]) if k == "key" else ev[k]) for k in ("found", "created", "key", "rev", "hasp", "pid", "pc")})


def classify(ev):
    """A name for the rejected event (the verdict itself is TLC's; `exp` is what TLC printed with the generated case)."""
    e, exp = ev.get("e"), ev.get("exp", "")
    if ev.get("panic"):
        return "panic"
    if e == "store":
        if ev.get("ok") and ev.get("err"):
            return "store reported true together with an error"
        if ev.get("ok"):
            return "duplicate store reported true"
        return "store of an absent key reported false" + (" with error" if ev.get("err") else "")
    if e in ("load", "latest"):
        if ev.get("err"):
            return "read failed with an error"
        if not ev.get("found"):
            return "record not returned (stale or lost)"
        if exp == "none":
            return "record returned where none is stored"
        try:
            x = json.loads(exp)
            diff = [k for k in ("created", "key", "rev", "hasp", "pid", "pc") if (short(ev[k]) if k == "key" else ev[k]) != x[k]]
            names = {"created": "created", "key": "key bytes", "rev": "revoked flag", "hasp": "parent meta presence", "pid": "parent id", "pc": "parent created"}
            if e == "latest" and "created" in diff:
                return "wrong record returned (not the greatest created)" if ev["created"] < x["created"] else "wrong record returned (created greater than any stored)"
            if "created" in diff:
                return "wrong record returned (different created)"
            return "record fields not intact: " + ", ".join(names[k] for k in diff)
        except Exception:
            return "returned record differs"
    if e == "final":
        bad = [x for x in ev.get("loads", []) + ev.get("latests", []) if x.get("err")]
        return "final read-back failed with an error" if bad else "final read-back differs from the table (existing record modified, lost or phantom)"
    return "unexpected event"


def to_case(trace):
    """Rebuilds the replayable call sequence from a recorded run."""
    ops = []
    for e in trace:
        if e.get("e") in ("store", "load", "latest"):
            ops.append({"op": e["e"], "id": e["id"], "c": e["c"],
                        "v": {k: e[k] for k in ("key", "rev", "hasp", "pid", "pc")} if e["e"] == "store" else {"key": "", "rev": False, "hasp": False, "pid": "", "pc": 0},
                        "ok": True, "res": {"found": False, "created": 0, "key": "", "rev": False, "hasp": False, "pid": "", "pc": 0}})
    return {"path": ops[:-1], "step": ops[-1], "stale": False} if ops else None


def findings_of(run, rej, disagree, counts=None):
    for x in rej:
        rs, ev = x["reset"], x["event"]
        be = rs.get("backend", "?") + ("/" + rs["config"] if rs.get("config") else "")
        calls = ["%s(%s%s)" % (e["e"], e["id"], "" if e["e"] == "latest" else ",%d" % e["c"]) for e in x["trace"] if e.get("e") in ("store", "load", "latest")]
        ncall = x["line_in_run"] - 1                       # line 1 of a run is its reset event
        cls = classify(ev)
        kind = "%s %s: %s" % (rs.get("backend", "?"), ev.get("e"), cls)
        more = ""
        if counts and counts.get((be, ev.get("e"), cls)):
            more = "; %d recorded runs on %s disagree in this way" % (counts[(be, ev.get("e"), cls)], be)
        run.findings.append({
            "kind": kind,
            "detail": "%s: backend %s, %s of run %s: %s; observed %s, Metastore.tla demands %s; calls of the run: %s%s; driver-side verbatim disagreements in this round: %s" % (
                x["why"], be, ("call %d" % ncall) if ev.get("e") != "final" else "final read-back", x["run"],
                json.dumps({k: (short(v) if k == "key" else v) for k, v in ev.items() if k in (("e", "id", "c", "key", "rev", "hasp", "pid", "pc") if ev.get("e") == "store" else ("e", "id", "c"))}) if ev.get("e") != "final"
                else json.dumps([{k: (short(v) if k == "key" else v) for k, v in r.items() if k != "errs" or v} for r in ev.get("loads", []) + ev.get("latests", []) if not r.get("agree", True)] or ev)[:1200],
                obs_of(ev) if ev.get("e") != "final" else "(the read-backs listed)", ev.get("exp", "the primary table's content"),
                " ".join(calls[:ncall][-8:]) if ev.get("e") != "final" else " ".join(calls[-8:]), more, json.dumps(disagree)),
            "case": {"backend": be, "trace": x["trace"], "case": to_case(x["trace"])}})


def validate_round(run, trace, cst, dis, label):
    """Every recorded run goes to TLC. When the driver's verbatim comparison already shows disagreements, the runs are
    split first so that TLC is not restarted once per bad run: the agreeing runs are validated together, and one
    representative per (backend configuration, event, class) of the disagreeing runs is validated on its own."""
    if not dis:
        rej = validate_traces(run, "MetastoreTrace.tla", cst, INVS, trace, label, max_reject=3)
        findings_of(run, rej, dis)
        return
    runs, order = {}, []
    with open(trace) as f:
        for line in f:
            e = json.loads(line)
            if e["run"] not in runs:
                runs[e["run"]] = []
                order.append(e["run"])
            runs[e["run"]].append((line, e))
    good, groups, counts = [], {}, {}
    for rid in order:
        evs = runs[rid]
        bad = next((e for _, e in evs[1:] if not e.get("agree", True)), None)
        if bad is None:
            good.append(rid)
            continue
        rs = evs[0][1]
        be, cls = rs.get("backend", "?") + ("/" + rs["config"] if rs.get("config") else ""), classify(bad)
        counts[(be, bad.get("e"), cls)] = counts.get((be, bad.get("e"), cls), 0) + 1
        groups.setdefault((be, bad.get("e"), cls.split(":")[0]), rid)
    reps = [groups[k] for k in sorted(groups)][:8]
    with open(trace, "w") as f:
        for rid in good:
            f.writelines(l for l, _ in runs[rid])
    rej = validate_traces(run, "MetastoreTrace.tla", cst, INVS, trace, label + "-agreeing", max_reject=2) if good else []
    findings_of(run, rej, dis)
    with open(trace, "w") as f:
        for rid in reps:
            f.writelines(l for l, _ in runs[rid])
    rej = validate_traces(run, "MetastoreTrace.tla", cst, INVS, trace, label + "-disagreeing", max_reject=len(reps))
    if len(rej) < len(reps):
        ok = sorted(set(reps) - {x["run"] for x in rej})
        raise Infra("generator and trace specification disagree: MetastoreTrace accepted run(s) %s whose results differ from MetastoreGen's expectation (%s)" % (ok[:5], json.dumps(dis)))
    findings_of(run, rej, dis, counts)
    run.notes.append("%s: %d of %d recorded runs disagree with the generated expectation (%d classes); %d representatives rejected by TLC" % (
        label, len(order) - len(good), len(order), len(groups), len(rej)))


def store_race(run):
    """Racing Store calls on the in-memory metastore (the only backend whose atomicity is the SDK's own code): schedules of the
    real code under the cooperative scheduler, judged by MetastoreRaceTrace.tla."""
    run.vdrv(sched=True)
    binary = run.gobin("concdrv")
    run.spec_files("MetastoreRaceTrace.tla")
    trace = os.path.join(run.work, "trace.ndjson")
    res = run.drv(["-memstore", str(300 if run.quick else 3000), "-seed", str(run.seed), "-trace", trace], timeout=900, binary=binary)
    run.absorb(res)
    rej = validate_traces(run, "MetastoreRaceTrace.tla", {}, [], trace, "store-race", max_reject=3)
    for x in rej:
        run.findings.append({"kind": "memory store race: %s" % ("two racing Store calls both succeeded / the stored record was replaced" if x["event"].get("e") == "loaded" else x["event"].get("e")),
                             "detail": "%s: %s; run %s" % (x["why"], json.dumps(x["event"]), json.dumps([e for e in x["trace"] if e.get("e") in ("store", "loaded")])[:600]),
                             "case": {"trace": x["trace"]}})
    run.notes.append("store race: %d schedules of 3 racing Store calls on MemoryMetastore" % res["evaluations"])


def check(run: Run):
    q = run.quick
    run.spec_files("Metastore.tla", "MetastoreGen.tla", "MetastoreTrace.tla")
    design(run, q)
    chunks, total, exhaustive, per = generate(run, q)
    run.exhaustive = True        # the transition families are complete enumerations; the random sequences are an additional sample
    binary = run.gobin("msdrv")
    trace = os.path.join(run.work, "trace.ndjson")
    stats, disagree_all, skipped = {}, {}, 0
    for i, cp in enumerate(chunks):
        if len(run.findings) >= 6:
            skipped += 1
            os.remove(cp)
            continue
        res = run.drv(["-in", cp, "-trace", trace, "-seed", str(run.seed)], timeout=3000, binary=binary)
        os.remove(cp)
        if res["evaluations"] == 0:
            raise Infra("no case reached the driver")
        run.absorb(res)
        ex = res.get("extra", {})
        for k, v in ex.get("fake_stats", {}).items():
            stats[k] = stats.get(k, 0) + v
        for k in ("stale_distinguishing_cases", "duplicate_store_cases"):
            stats[k] = stats.get(k, 0) + ex.get(k, 0)
        dis = ex.get("disagree", {})
        for k, v in dis.items():
            disagree_all[k] = disagree_all.get(k, 0) + v
        validate_round(run, trace, consts(ex["ids"], ex["stamps"]), dis, "metastore-%d" % i)
        if os.path.exists(trace):
            os.remove(trace)
    if skipped:
        run.notes.append("%d case chunk(s) not executed after %d findings" % (skipped, len(run.findings)))
    run.notes.append("fake statistics: %s" % json.dumps(stats))
    if stats.get("stale_distinguishing_cases", 0) == 0 or stats.get("duplicate_store_cases", 0) == 0:
        raise Infra("vacuous generation: no case distinguishes a lagging read / no duplicate Store (%s)" % json.dumps(stats))
    store_race(run)
    return run.finish(
        "model_checking",
        "TLC explores Metastore.tla (2 overlapping ids x 3 creation stamps x record variants {keys with 0x00/0xFF and all 256 byte values, revoked T/F, with/without parent meta}); "
        "every transition (table state, call) of the state graph up to the tier's length with one witness path, plus seeded random call sequences each extended by every possible last call (%s), "
        "is executed on MemoryMetastore, SQLMetastore (mysql/postgres/oracle placeholders), DynamoDB v1 and v2 metastores (default/custom table x region suffix off/on) = 12 configurations; "
        "each call's result (ok flag, error, every field of the returned record) and a final read-back of every key used is validated by TLC against MetastoreTrace.tla. "
        "non-trivial = case containing a refused duplicate Store or a read the lagging replica would answer differently" % json.dumps(per),
        ASSUME,
        explanation="spec->code: %d cases x 12 backend configurations; code->spec: %d recorded runs / %d events accepted by TLC; DynamoDB fakes served %d consistent and %d lagging reads" % (
            total, run.traces_validated, run.events_validated, stats.get("ddb_consistent_reads", 0), stats.get("ddb_lagging_reads", 0)))


def _ids_stamps(trace):
    ids = sorted({e["id"] for e in trace if e.get("id")} | {x["id"] for e in trace for x in e.get("loads", []) + e.get("latests", [])})
    st = sorted({e["c"] for e in trace if e.get("e") in ("store", "load")} | {x["c"] for e in trace for x in e.get("loads", [])})
    return ids or IDS, st or STAMPS_A


def replay(run: Run, finding):
    case = finding.get("case", {})
    run.spec_files("Metastore.tla", "MetastoreTrace.tla")
    p = os.path.join(run.work, "trace.ndjson")
    tr = case.get("trace", [])
    ids, st = _ids_stamps(tr)
    # 1. the recorded run against the specification
    with open(p, "w") as f:
        for e in tr:
            f.write(json.dumps(e) + "\n")
    rej = validate_traces(run, "MetastoreTrace.tla", consts(ids, st), INVS, p, "replay")
    print("recorded run:", "rejected at " + json.dumps(rej[0]["event"])[:400] if rej else "accepted")
    # 2. the same calls on the current tree, same backend configuration
    c = case.get("case") or to_case(tr)
    if not c:
        return 1 if rej else 0
    cp = run.write("case.json", json.dumps(c) + "\n")
    run.drv(["-in", cp, "-trace", p, "-seed", str(run.seed), "-only", case.get("backend", "")], binary=run.gobin("msdrv"))
    rej2 = validate_traces(run, "MetastoreTrace.tla", consts(ids, st), INVS, p, "replay-now")
    print("re-executed now on %s:" % (case.get("backend") or "all backends"), "rejected: " + json.dumps(rej2[0]["event"])[:500] if rej2 else "accepted")
    return 1 if rej2 else 0
