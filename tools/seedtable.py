#!/usr/bin/env python3
"""Regenerates the table of DESIGN.md section 11.7 from seeded/*/meta.json (between the markers)."""
import json, glob, os, re
ROOT = os.path.dirname(os.path.dirname(os.path.abspath(__file__)))
BEGIN, END = "<!-- seeded-table:begin -->", "<!-- seeded-table:end -->"


def cell(s, n):
    s = re.sub(r"\s+", " ", str(s or "")).replace("|", "/")
    return s if len(s) <= n else s[:n - 1].rstrip() + "…"


rows = ["| seeded | change | needs | caught by |", "|---|---|---|---|"]
for d in sorted(glob.glob(os.path.join(ROOT, "seeded", "*"))):
    m = json.load(open(os.path.join(d, "meta.json")))
    rows.append("| %s | %s | %s | %s |" % (os.path.basename(d), cell(m.get("summary"), 260), cell(m.get("needs"), 220),
                                         cell(m.get("detected_by") if m.get("detected") else "NOT DETECTED: " + str(m.get("detected_by", "")), 400)))
p = os.path.join(ROOT, "DESIGN.md")
t = open(p).read()
a, b = t.index(BEGIN), t.index(END)
open(p, "w").write(t[:a + len(BEGIN)] + "\n" + "\n".join(rows) + "\n" + t[b:])
print(len(rows) - 2, "rows")
