#!/bin/bash
# seed_eval.sh <prop> <mutdir> <demo-dest-dir-relative-to-repo> <go-test-dir-relative> <run-regex> [check props...]
# 1. confirms the demonstration in the scratch worktree /tmp/mut/<prop> (passes without, fails with the patch; module tests pass with it)
# 2. applies the patch to /repo, runs ./check for the given properties (default: <prop>), reverts /repo.
set -u
export GOFLAGS=-mod=mod GOPROXY=off GOSUMDB=off GOTOOLCHAIN=local GOWORK=off
prop=$1; mut=$2; dest=$3; tdir=$4; rx=$5; shift 5
checks=${@:-$prop}
wt=${SEED_WT:-/tmp/mut/$prop}
cd $wt && git checkout -q -- . && git clean -fdq
cp $mut/demo_test.go $wt/$dest/zz_demo_test.go
( cd $wt/$tdir && timeout 600 go test -count=1 -run "$rx" ./... > /tmp/seed_base.log 2>&1 ); base=$?
git -C $wt apply $mut/patch.diff || { echo "PATCH DOES NOT APPLY"; exit 3; }
( cd $wt/$tdir && timeout 600 go test -count=1 -run "$rx" ./... > /tmp/seed_mut.log 2>&1 ); withm=$?
rm -f $wt/$dest/zz_demo_test.go
( cd $wt/$tdir && timeout 900 go test -count=1 -skip MemLockLimit ./... > /tmp/seed_suite.log 2>&1 ); suite=$?
git -C $wt checkout -q -- . ; git -C $wt clean -fdq
echo "demo: unchanged rc=$base (want 0)  mutated rc=$withm (want !=0)  suite-with-mutation rc=$suite (want 0)"
[ $base -eq 0 ] && [ $withm -ne 0 ] && [ $suite -eq 0 ] || { echo "NOT CONFIRMED"; tail -n 5 /tmp/seed_suite.log; exit 4; }
git -C /repo apply $mut/patch.diff || exit 3
cd /verif
export VERIF_EVIDENCE_DIR=/tmp/seed-evidence   # evidence of runs against a seeded change must not replace the committed evidence
for c in $checks; do
  out=$(timeout 1500 ./check $c 2>&1); rc=$?
  echo "check $c rc=$rc : $(echo "$out" | grep -c '^VIOLATION') violation lines; $(echo "$out" | grep '^VIOLATION' | head -1)"
  echo "$out" | grep -A2 '^VIOLATION' | grep 'kind:' | head -3
done
git -C /repo checkout -q -- . ; git -C /repo status --short
