#!/bin/bash
# seed_regress.sh [ids...] : applies every kept seeded change to /repo in turn, runs the quick check of its property and
# reports whether it is (still) detected. /repo is restored after each one. Nothing else may use /repo meanwhile.
cd /verif
ids=${@:-$(ls seeded)}
for s in $ids; do
  prop=${s%%-*}
  git -C /repo apply /verif/seeded/$s/patch.diff || { echo "$s PATCH-DOES-NOT-APPLY"; continue; }
  t=$(date +%s)
  out=$(timeout 1800 ./check $prop --tier quick 2>&1); rc=$?
  git -C /repo checkout -q -- .
  echo "$s check=$prop rc=$rc $(echo "$out" | grep -c '^VIOLATION') violation lines $(( $(date +%s)-t ))s $( [ $rc -eq 1 ] && echo DETECTED || echo MISSED )"
done
git -C /repo status --short
