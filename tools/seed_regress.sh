#!/bin/bash
# seed_regress.sh [ids...] : applies every kept seeded change to /repo in turn, runs the quick check of its property and
# reports whether it is (still) detected. /repo is restored after each one. Nothing else may use /repo meanwhile.
cd /verif
export VERIF_EVIDENCE_DIR=/tmp/seed-evidence   # evidence of runs against a seeded change must not replace the committed evidence
ids=${@:-$(ls seeded)}
for s in $ids; do
  prop=${s%%-*}
  # the check named first in meta.json's detected_by (a change seeded for one property is sometimes caught by a neighbour's check)
  first=$(python3 -c "import json,re,sys; m=re.search(r'C[0-9][0-9]', json.load(open('seeded/$s/meta.json')).get('detected_by','')); print(m.group(0) if m else '')")
  [ -n "$first" ] && prop=$first
  git -C /repo apply /verif/seeded/$s/patch.diff || { echo "$s PATCH-DOES-NOT-APPLY"; continue; }
  t=$(date +%s)
  out=$(timeout 1800 ./check $prop --tier quick 2>&1); rc=$?
  git -C /repo checkout -q -- .
  echo "$s check=$prop rc=$rc $(echo "$out" | grep -c '^VIOLATION') violation lines $(( $(date +%s)-t ))s $( [ $rc -eq 1 ] && echo DETECTED || echo MISSED )"
done
git -C /repo status --short
