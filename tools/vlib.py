"""Shared machinery for /verif/check: scratch dirs, building the harness against /repo's current tree,
running TLC, collecting findings, known-finding matching, evidence files."""
import json, os, re, shutil, subprocess, sys, time, hashlib

VERIF = os.path.dirname(os.path.dirname(os.path.abspath(__file__)))
REPO = os.environ.get("VERIF_REPO", "/repo")
SPEC = os.path.join(VERIF, "spec")
HARNESS = os.path.join(VERIF, "harness")
EVID = os.environ.get("VERIF_EVIDENCE_DIR") or os.path.join(VERIF, "evidence")   # seeded-change evaluation writes elsewhere
REPLAYS = os.path.join(EVID, "replays")
KNOWN = os.path.join(VERIF, "known_findings.json")
NCPU = os.cpu_count() or 4

GOENV = dict(os.environ, GOFLAGS="-mod=mod", GOPROXY="off", GOSUMDB="off", GOTOOLCHAIN="local", GOWORK="off",
             CGO_ENABLED=os.environ.get("CGO_ENABLED", "1"))


class Infra(Exception):
    """Something that is not a verdict (build failure, TLC crash, timeout): exit 2."""


def log(*a):
    print(*a, file=sys.stderr, flush=True)


class TLCResult:
    def __init__(self, out, rc, wall):
        self.out, self.rc, self.wall = out, rc, wall
        m = re.search(r"(\d+) states generated, (\d+) distinct states found", out)
        self.generated = int(m.group(1)) if m else 0
        self.distinct = int(m.group(2)) if m else 0
        m = re.search(r"The depth of the complete state graph search is (\d+)", out)
        self.depth = int(m.group(1)) if m else 0
        self.ok = "Model checking completed. No error has been found." in out or \
                  ("Finished in" in out and "Error:" not in out and rc == 0)
        m = re.search(r"Invariant (\S+) is violated", out)
        self.violated = m.group(1) if m else None
        if not self.violated:
            m = re.search(r"Action property (\S+) is violated|Temporal properties were violated", out)
            self.violated = (m.group(1) or "temporal") if m else None
        m = re.search(r'"TRACE-REJECTED-AT-LINE", (\d+)', out)
        self.rejected_at = int(m.group(1)) if m else None
        self.deadlock = "Deadlock reached" in out
        self.error = None
        if not self.ok and not self.violated and self.rejected_at is None and not self.deadlock:
            m = re.search(r"Error: (.*)", out)
            self.error = m.group(1) if m else "tlc exit %d" % rc

    def counterexample(self):
        """Returns the textual error trace, if any."""
        i = self.out.find("Error: The behavior up to this point is")
        if i < 0:
            i = self.out.find("Error:")
        return self.out[i:i + 20000] if i >= 0 else ""


class Run:
    def __init__(self, prop, tier, seed):
        self.prop, self.tier, self.seed = prop, tier, seed
        self.t0 = time.time()
        self.work = os.path.join(VERIF, ".work", "%s-%d" % (prop, os.getpid()))
        shutil.rmtree(self.work, ignore_errors=True)
        os.makedirs(self.work)
        os.makedirs(REPLAYS, exist_ok=True)
        self.states = 0
        self.transitions = 0
        self.tlc_cmds = []
        self.tlc_runs = []
        self.traces_validated = 0
        self.events_validated = 0
        self.evaluations = 0
        self.nontrivial = 0
        self.samples = []
        self.findings = []        # (kind, detail, case, observed)
        self.notes = []
        self.exhaustive = None
        self._vdrv = None
        self.quick = tier == "quick"

    # ---------------------------------------------------------------- build
    def vdrv(self, tags="verif", sched=False):
        """Builds the harness binary against /repo's current working tree (go's content-addressed cache keeps this cheap)."""
        if self._vdrv and (not sched or getattr(self, "_sched", False)):
            return self._vdrv
        self._sched = sched
        out = os.path.join(self.work, "vdrv" + ("-sched" if sched else ""))
        t = time.time()
        # 1. overlay generator (instruments copies of /repo's current files; /repo itself is never touched)
        vin = os.path.join(self.work, "vinstr")
        p = subprocess.run(["go", "build", "-o", vin, "./cmd/vinstr"], cwd=HARNESS, env=GOENV, capture_output=True, text=True)
        if p.returncode != 0:
            raise Infra("vinstr build failed:\n" + p.stdout + p.stderr)
        ovd = os.path.join(self.work, "overlay" + ("-sched" if sched else ""))
        p = subprocess.run([vin, "-repo", REPO, "-out", ovd] + (["-sched"] if sched else []), capture_output=True, text=True)
        if p.returncode != 0:
            raise Infra("vinstr failed on current /repo tree:\n" + p.stdout + p.stderr)
        self.overlay = p.stdout.strip()
        cmd = ["go", "build", "-overlay", self.overlay, "-tags", tags, "-o", out, "./cmd/vdrv"]
        p = subprocess.run(cmd, cwd=HARNESS, env=GOENV, capture_output=True, text=True)
        if p.returncode != 0:
            raise Infra("harness build failed against current /repo tree:\n" + p.stdout + p.stderr)
        self.notes.append("harness built from %s in %.1fs" % (REPO, time.time() - t))
        self._vdrv = out
        return out

    def gobin(self, name, tags="verif"):
        """Builds harness/cmd/<name> (a stand-alone driver binary) against /repo's current tree (with the clock overlay)."""
        self.vdrv()  # makes sure the overlay exists
        out = os.path.join(self.work, name + ("-sched" if getattr(self, "_sched", False) else ""))
        if os.path.exists(out):
            return out
        p = subprocess.run(["go", "build", "-overlay", self.overlay, "-tags", tags, "-o", out, "./cmd/" + name],
                           cwd=HARNESS, env=GOENV, capture_output=True, text=True)
        if p.returncode != 0:
            raise Infra("build of %s failed against current /repo tree:\n%s" % (name, p.stdout + p.stderr))
        return out

    def drv(self, args, stdin_path=None, timeout=3600, ok_codes=(0,), binary=None):
        """Runs a driver sub-command; returns its parsed JSON result (read from -out file)."""
        outp = os.path.join(self.work, "drv-%d.json" % len(os.listdir(self.work)))
        cmd = [binary or self.vdrv()] + args + ["-out", outp]
        t = time.time()
        try:
            p = subprocess.run(cmd, cwd=self.work, env=GOENV, capture_output=True, text=True, timeout=timeout,
                               stdin=open(stdin_path) if stdin_path else subprocess.DEVNULL)
        except subprocess.TimeoutExpired:
            raise Infra("driver timed out: %s" % " ".join(args))
        if p.returncode not in ok_codes or not os.path.exists(outp):
            o = p.stdout + p.stderr     # a Go runtime crash names its cause in the FIRST lines, a driver error in the last
            raise Infra("driver failed (rc=%d): %s\n%s" % (p.returncode, " ".join(args), o if len(o) < 5000 else o[:1200] + "\n[...]\n" + o[-3500:]))
        res = json.load(open(outp))
        res["_wall"] = time.time() - t
        res["_stderr"] = p.stderr[-2000:]
        return res

    def absorb(self, res, count=True):
        """Adds a driver result's counts, samples and findings to this run."""
        if count:
            self.evaluations += res.get("evaluations", 0)
            self.nontrivial += res.get("distinct_nontrivial", 0)
        for s in res.get("samples", [])[:3]:
            if len(self.samples) < 6:
                self.samples.append(s)
        for f in res.get("findings", []):
            self.findings.append(f)

    # ---------------------------------------------------------------- TLC
    def spec_files(self, *names):
        for n in names:
            shutil.copy(os.path.join(SPEC, n), self.work)

    def tlc(self, module, cfg, workers=None, timeout=1800, extra=(), simulate=None, out_name=None, heap=None):
        """Runs TLC in the scratch dir. module/cfg are file names inside it. Returns TLCResult."""
        n = len(self.tlc_runs)
        md = os.path.join(self.work, "md%d" % n)
        tmp = os.path.join(self.work, "tmp")
        os.makedirs(tmp, exist_ok=True)
        w = str(workers or NCPU)
        cmd = ["tlc", "-workers", w, "-metadir", md, "-config", cfg, "-seed", str(self.seed), "-fp", "7", "-noGenerateSpecTE"]
        if simulate:
            cmd += ["-simulate", simulate]
        cmd += list(extra) + [module]
        env = dict(os.environ)
        jopts = "-Djava.io.tmpdir=%s -Xss64m" % tmp
        if heap:
            jopts += " -Xmx%s" % heap
        env["JAVA_TOOL_OPTIONS"] = jopts
        outp = os.path.join(self.work, out_name or ("tlc%d.out" % n))
        t = time.time()
        with open(outp, "w") as fo:
            try:
                p = subprocess.run(["timeout", str(timeout)] + cmd, cwd=self.work, env=env, stdout=fo, stderr=subprocess.STDOUT)
                rc = p.returncode
            except Exception as e:  # pragma: no cover
                raise Infra("cannot run tlc: %s" % e)
        wall = time.time() - t
        shutil.rmtree(md, ignore_errors=True)
        # TLC output can be huge in GEN mode: keep only non-case lines for parsing
        chatter = []
        with open(outp, errors="replace") as f:
            for line in f:
                if not line.startswith('"{') and not line.startswith('"['):
                    chatter.append(line)
        r = TLCResult("".join(chatter[-4000:] if len(chatter) > 8000 else chatter), rc, wall)
        r.path = outp
        r.cmd = " ".join(cmd)
        if rc == 124:
            raise Infra("tlc timed out after %ds: %s" % (timeout, r.cmd))
        self.tlc_runs.append(r)
        self.tlc_cmds.append("%s  [%s in %s: %d generated / %d distinct, %.1fs]" % (r.cmd, module, cfg, r.generated, r.distinct, wall))
        self.states += r.distinct
        self.transitions += r.generated
        return r

    def write(self, name, text):
        p = os.path.join(self.work, name)
        with open(p, "w") as f:
            f.write(text)
        return p

    # ---------------------------------------------------------------- verdict
    def finish(self, level, rule, assumptions, explanation="", extra_cov=None):
        known = load_known()
        viol, knownhits = [], []
        seen = set()
        for f in self.findings:
            kind = f.get("kind", "")
            k = match_known(known, self.prop, kind, f.get("detail", ""))
            if k is not None:
                sig = k["signature"]
                if sig not in seen:
                    seen.add(sig)
                    knownhits.append((k, f))
            else:
                viol.append(f)
        for k, f in knownhits:
            print("KNOWN-FINDING: property=%s %s" % (self.prop, k["what"]))
        replays = []
        for i, f in enumerate(viol[:5]):
            h = hashlib.sha1(json.dumps(f, sort_keys=True, default=str).encode()).hexdigest()[:10]
            rp = os.path.join(REPLAYS, "%s-%s.json" % (self.prop, h))
            with open(rp, "w") as fo:
                json.dump({"property": self.prop, "tier": self.tier, "seed": self.seed, "finding": f}, fo, indent=1, default=str)
            replays.append(rp)
            print("VIOLATION property=%s replay=%s" % (self.prop, rp))
            log("  kind: %s\n  %s" % (f.get("kind"), str(f.get("detail", ""))[:600]))
        cov = {
            "states": self.states, "transitions": self.transitions,
            "traces_validated_against_impl": self.traces_validated,
            "events_validated": self.events_validated,
            "evaluations": self.evaluations, "distinct_nontrivial": self.nontrivial,
            "rule": rule, "samples": self.samples[:6] or ["(no sample recorded)"],
            "checker_cmd": " ;; ".join(self.tlc_cmds)[:6000],
            "explanation": explanation,
            "notes": self.notes,
            "known_findings_hit": [k["signature"] for k, _ in knownhits],
        }
        if self.exhaustive is not None:
            cov["exhaustive"] = self.exhaustive
        if extra_cov:
            cov.update(extra_cov)
        ev = {"property_id": self.prop, "tier": self.tier, "seed": self.seed, "level": level, "coverage": cov,
              "assumptions": assumptions, "wall_s": round(time.time() - self.t0, 2), "violations": len(viol)}
        os.makedirs(EVID, exist_ok=True)
        with open(os.path.join(EVID, "%s.json" % self.prop), "w") as fo:
            json.dump(ev, fo, indent=1, default=str)
        self.cleanup()
        log("%s %s: %d states, %d transitions, %d evaluations, %d traces validated, %d violations, %d known, %.1fs" % (
            self.prop, self.tier, self.states, self.transitions, self.evaluations, self.traces_validated, len(viol),
            len(knownhits), time.time() - self.t0))
        return 1 if viol else 0

    def cleanup(self):
        if not os.environ.get("VERIF_KEEP"):
            shutil.rmtree(self.work, ignore_errors=True)

    # ---------------------------------------------------------------- helpers
    def tlc_must_hold(self, r, what):
        """A design-level TLC run that must pass; a violation there is an infrastructure/spec problem unless reproduced on code."""
        if r.violated or r.deadlock or r.error or not r.ok:
            raise Infra("%s: TLC did not pass (%s)\n%s" % (what, r.violated or r.error or ("deadlock" if r.deadlock else "?"), r.counterexample()[:6000]))


def load_known():
    if not os.path.exists(KNOWN):
        return []
    return [e for e in json.load(open(KNOWN)).get("findings", []) if e.get("status") == "known"]


def match_known(known, prop, kind, detail):
    for k in known:
        if k["property"] != prop:
            continue
        if re.search(k["match"], kind + " || " + detail, re.S):
            return k
    return None


def tla_set(xs):
    return "{" + ", ".join(json.dumps(x) if isinstance(x, str) else str(x) for x in xs) + "}"


def split_traces(path, is_reset):
    """Yields (first_line_no, [lines]) per trace of a concatenated ndjson file."""
    cur, start = [], 1
    with open(path) as f:
        for i, line in enumerate(f, 1):
            if is_reset(line) and cur:
                yield start, cur
                cur, start = [], i
            cur.append(line)
    if cur:
        yield start, cur


def cfg_text(spec, consts, invs=(), view=None, post=None, props=(), action_constraint=None):
    t = ["SPECIFICATION " + spec] + (["CONSTANTS"] if consts else [])
    for k, v in consts.items():
        t.append("  %s = %s" % (k, v) if not str(v).startswith("<-") else "  %s %s" % (k, v))
    if view:
        t.append("VIEW " + view)
    if action_constraint:
        t.append("ACTION_CONSTRAINT " + action_constraint)
    if invs:
        t.append("INVARIANTS " + " ".join(invs))
    if props:
        t.append("PROPERTIES " + " ".join(props))
    if post:
        t.append("POSTCONDITION " + post)
    t.append("CHECK_DEADLOCK FALSE")
    return "\n".join(t) + "\n"


MAX_CHUNK_LINES = 60000   # TLC's disk state queue stores the level of a state in 16 bits: a branching trace spec (states spill to disk)
                          # fails on behaviours of 65536 or more states, so one TLC call never gets more lines than this


def validate_traces(run, module, consts, invs, trace_path, label, max_reject=4, spec="TSpec", chunk_runs=None):
    """See _validate_traces; chunk_runs splits a long concatenated trace into pieces of at most that many runs (and at most
    MAX_CHUNK_LINES lines) per TLC call."""
    if not chunk_runs:
        return _validate_traces(run, module, consts, invs, trace_path, label, max_reject, spec)
    runs, last = [], None
    with open(trace_path) as f:
        for line in f:
            m = re.search(r'"run":\s*(\d+)', line)
            rid = m.group(1) if m else last
            if rid != last or not runs:
                runs.append([])
                last = rid
            runs[-1].append(line)
    pieces, cur, nr = [], [], 0
    for r in runs:
        if cur and (nr >= chunk_runs or len(cur) + len(r) > MAX_CHUNK_LINES):
            pieces.append(cur)
            cur, nr = [], 0
        cur += r
        nr += 1
    if cur:
        pieces.append(cur)
    out = []
    for i, lines in enumerate(pieces):
        pth = os.path.join(run.work, "trace-chunk.ndjson")
        with open(pth, "w") as f:
            f.writelines(lines)
        out += _validate_traces(run, module, consts, invs, pth, "%s-%d" % (label, i), max_reject, spec)
        if len(out) >= max_reject:
            break
    return out


def _validate_traces(run, module, consts, invs, trace_path, label, max_reject=4, spec="TSpec"):
    """Validates a concatenated ndjson trace file with TLC; returns list of rejected runs (dicts). Rejected runs are
    cut out and the rest re-validated so one bad trace does not hide the others."""
    rejected = []
    path = os.path.join(run.work, "trace.ndjson")
    if os.path.abspath(trace_path) != path:
        os.replace(trace_path, path)
    for attempt in range(max_reject + 1):
        lines = open(path).read().splitlines()
        if not lines:
            break
        run.write("TR.cfg", cfg_text(spec, consts, invs=invs, post="TraceAccepted"))
        r = run.tlc(module, "TR.cfg", workers=1, timeout=1500)
        nruns = len({json.loads(l).get("run") for l in lines})
        bad_line = None
        why = None
        if r.rejected_at is not None:
            bad_line, why = r.rejected_at, "no behaviour of the specification matches the recorded event"
        elif r.violated:
            # the invariant failed in the state reached after consuming some prefix; find l from the counterexample
            import re
            ls = re.findall(r"/\\ l = (\d+)", r.counterexample())
            bad_line = (int(ls[-1]) - 1) if ls else 1
            why = "invariant %s violated by the recorded run" % r.violated
        elif not r.ok:
            raise Infra("trace validation (%s) failed to run: %s\n%s" % (label, r.error, r.out[-3000:]))
        if bad_line is None:
            run.traces_validated += nruns
            run.events_validated += len(lines)
            break
        bad_line = max(1, min(bad_line, len(lines)))
        ev = json.loads(lines[bad_line - 1])
        rid = ev.get("run")
        tr = [json.loads(l) for l in lines if json.loads(l).get("run") == rid]
        first = next(i for i, l in enumerate(lines) if json.loads(l).get("run") == rid)
        rejected.append({"run": rid, "reset": tr[0], "line_in_run": bad_line - first, "event": ev, "why": why,
                         "prefix": tr[max(0, bad_line - first - 12):bad_line - first + 1], "trace": tr if len(tr) < 400 else tr[:bad_line - first + 1][-400:]})
        run.traces_validated += max(0, nruns - 1) if attempt == max_reject else 0
        with open(path, "w") as f:
            if nruns <= 1:
                f.write("\n".join(l for i, l in enumerate(lines) if i != bad_line - 1) + "\n")
            else:
                f.write("\n".join(l for l in lines if json.loads(l).get("run") != rid) + "\n")
    return rejected


