#!/usr/bin/env python3
"""Regenerates /verif/MANIFEST.json from the table below (single source of truth for what is claimed)."""
import json, os, subprocess
V = os.path.dirname(os.path.dirname(os.path.abspath(__file__)))

CLAIMED = {
    "C15": dict(engine="cache", technique="TLA+ model (Cache.tla) checked by TLC; every model transition replayed on the real cache + recorded runs validated by TLC",
                text="TLC exhaustively explores an exact sequential model of the cache (lru/lfu/slru exact, tinylfu as policy-independent contract) with the property as invariants; every transition of that state graph is executed against the real cache (sync and async eviction) and compared, and long seeded runs of the real cache (all policies, capacities around every threshold) are validated by TLC as behaviours of the model.",
                note="bounded: 3 keys x 2 values, capacities 1..4 (quick) / 1..6 (thorough), <=5/7 calls exhaustively; larger capacities by recorded runs only. Trusts the transcription of the LRU/LFU/SLRU definitions in Cache.tla.",
                ref="5/C15, 4.4"),
}
ENV_TECH = "TLA+ model of the key protocol (Envelope.tla, PlusCal) checked by TLC; TLC-generated behaviours replayed on real factories; recorded real traces judged by the TLA+ monitor EnvelopeObs.tla under TLC"
ENV_NOTE = "bounded (<=2 processes - 3 in the C14 race family -, <=2 partitions, small clock, <=6 generated keys); fake metastore/KMS stand for real backends; virtual clock via build overlay; time bounds judged against operation start; AES-GCM trusted"
def env(text, ref):
    return dict(engine="envelope", technique=ENV_TECH, text=text, note=ENV_NOTE, ref=ref)
CLAIMED.update({
    "C01": env("Every reachable state of the protocol model is explored by TLC with RoundTrip/ChainClosed as invariants; every operation-return transition (sampled) is re-enacted on real factories (all cache configurations, 5 key-cache policies, session cache) and the monitor checks on the real trace that every decrypt of an own-partition record returns the original bytes, inputs unmodified, after any rotation / revocation / restart / eviction the model can reach.", "5/C01"),
    "C02": env("TLC enumerates every position and kind of metastore/KMS fault (up to two per operation) on cold, warm and expired states in the model; each faulted behaviour is re-enacted with the fault injected at that call; the monitor checks on the real trace that a returned record's chain is in the authoritative table at that moment with the same key bytes, that a brand-new factory decrypts it, and that a fault-free operation succeeds.", "5/C02"),
    "C04": env("TLC explores clock histories across key expiry (incl. coarse creation-stamp precision) with NoExpiredIK / NoIKUnderExpiredSK / ParentExpiryBounded as model invariants; behaviours are re-enacted with the virtual clock and the monitor applies the same clauses to the real records and metastore writes.", "5/C04"),
    "C05": env("TLC explores every placement of an operator revocation (IK or SK) relative to cache fill for per-session, shared, session-cached and uncached configurations; behaviours are re-enacted with the revocation applied to the fake store under live real sessions; the monitor bounds which key the next real encrypt names (R for IK, 2R for SK).", "5/C05"),
    "C14": env("TLC enumerates the interleavings of two processes at the granularity of single metastore/KMS calls (exhaustive from cold, simulation from expired/revoked starts); each schedule is imposed on two real factories through a gate on the fake metastore/KMS; the monitor checks every returned record against the authoritative table (same key bytes, parent present), that no row is ever overwritten, and that a fresh factory decrypts it.", "5/C14"),
    "C20": env("The monitor tracks, per cache scope, when each key record was last fetched and requires zero external calls inside the revoke-check interval, a re-read after it, at most one KMS unwrap of a valid SK per factory per interval, and reads on every call when caching is off; TLC generates the tick placements around the interval boundary and the model carries ZeroCallsWhenFresh as an invariant.", "5/C20"),
})
CLAIMED["C19"] = dict(engine="server", technique="TLA+ model of the stream protocol (Server.tla); TLC-enumerated request sequences played on the real handler; recorded streams validated by TLC",
    text="TLC enumerates every request sequence up to the bound (history in the state) from Server.tla with one-reply-per-request and no-service-before-session as invariants; each sequence is played on the real AppEncryption.Session/streamer/defaultHandler over an in-memory stream and the recorded stream is validated by TLC: response class allowed in that state, decrypted bytes equal the original, exactly one reply per request, handler returns without panic.",
    note="in-memory stream instead of a network transport; bounded sequence length (5 quick / 6 thorough) plus random longer sequences on concurrent streams; SDK behaviour behind the handler is the in-memory metastore + static KMS", ref="5/C19, 4.6")
CLAIMED["C06"] = dict(engine="partition", technique="TLA+ model of key-id naming and the partition check (Partition.tla) evaluated by TLC over a token-built id universe; every pair executed on real sessions; outcomes validated by TLC",
    text="TLC evaluates the isolation predicate over every ordered pair of partition ids of a universe built from tokens that embed the separator, the _service_product suffix and region suffixes, for plain and region-suffixed naming on both sides; each pair is then executed for real (the producing session encrypts, the other session decrypts against the shared metastore) and TLC validates that no foreign record ever yields plaintext, own records decrypt, and empty ids are refused.",
    note="bounded id universe (<=2 tokens quick / <=3 tokens thorough); one service/product; region names without underscores", ref="5/C06, 4.6")
CLAIMED.update({
    "C03": env("The monitor applies the envelope-discipline clauses to every AEAD, KMS and metastore event of the real run: payload only under a secret freshly created by CreateRandom in the same call and never used before, no (key, nonce) pair twice, a data key wrapped only by an intermediate key, an intermediate key only by a system key; the harness searches every emitted artefact (record JSON, metastore rows, KMS requests, debug log lines) for plaintext key / payload bytes and the monitor turns a hit into a clause violation. Histories: TLC-generated (rotations, revocations, duplicate races) plus seeded long real histories (thousands of encrypts per key, 8 partitions, rotations).", "5/C03"),
    "C09": env("The tracking SecretFactory logs every allocation / access / release; the monitor requires the data key of a call released before the call returns, nothing retained with caching off, at most one live secret per key and never more than the caches' capacities, every secret released exactly once and none touched afterwards when sessions and factory are closed. Histories: TLC-generated incl. rotations, revocations, metastore/KMS faults, duplicate races, capacity-1/2 caches of every policy, session cache, plus harness-injected allocation and AEAD failures.", "5/C09"),
    "C10": env("The spying AEAD / KMS / secret factory retain every heap buffer that held plaintext key material (unwrap outputs, KMS decrypt output, the buffer handed to the secret factory when it fails) and the monitor requires them all-zero at operation return, on success and on every injected failure; the AWS plugins' GenerateDataKey / Decrypt plaintexts are checked the same way on every case KmsRegions.tla generates (KmsWipeTrace.tla).", "5/C10"),
})
CLAIMED["C17"] = dict(engine="kms", technique="TLA+ model of multi-region wrap/unwrap (KmsRegions.tla) checked by TLC; every generated case executed on the real v1/v2 plugins over fake regional clients; recorded runs validated by TLC",
    text="TLC enumerates every case of the quantifier (region sets, preferred region, failing subsets at wrap and unwrap time, plugin pairs v1/v2 in both directions) and proves the C17 predicates for the design over all client orders; each case is executed on freshly built real plugins and the recorded run (success flags, envelope entries, per-region call order, identical bytes, data key wiped) is validated by TLC against the same predicates.",
    note="regional KMS endpoints are fakes at the SDK client boundary; <=3 regions quick / <=4 thorough; order of non-preferred regions not controlled (Go map iteration)", ref="5/C17, 4.6")
CONC_TECH = "TLA+ design model checked by TLC (incl. a deliberately broken variant that must fail) + systematic/PCT/random schedule exploration of the instrumented real code under a cooperative scheduler, every schedule's trace validated by TLC against the TLA+ monitor RefMonitor.tla"
CONC_NOTE = "schedules explored at instrumented synchronisation points only (build-overlay rewrite of Lock/Unlock/atomics/Cond/channel/WaitGroup/go); 2-3 goroutines, 2-4 partitions, capacities 1-2 (and 100 for asynchronous eviction in thorough); <= 2 preemptions systematically, PCT and random beyond; tracking pure-Go secrets"
CLAIMED["C08"] = dict(engine="conc", technique=CONC_TECH, ref="5/C08, 4.2", note=CONC_NOTE,
    text="KeyCacheConc.tla models lookup / reference / eviction at the granularity of the instrumented synchronisation points and TLC proves NoUseAfterDestroy for the code's discipline (and finds the violation when the reference is taken outside the lock); the real key caches are then run under a cooperative scheduler that makes every lock, atomic and external call a scheduling choice: bounded-preemption systematic search, PCT and random schedules over shared / per-session caches of every policy at capacity 1-2 with refresh storms and session-cache churn; TLC validates each run: no access to a destroyed secret, every operation succeeds with the right bytes, everything released once, no deadlock.")
CLAIMED["C16"] = dict(engine="conc", technique=CONC_TECH, ref="5/C16, 4.3", note=CONC_NOTE,
    text="SessionCache.tla models Get under the wrapper mutex, the usage counter, eviction-spawned Remove goroutines waiting on the condition variable and factory close; TLC proves a held session is never torn down, one cached session per partition, teardown at most once and (liveness, under fairness) eventually - and finds the violation for a single-wake-up variant; the real session cache is explored under the cooperative scheduler (its event goroutine, Remove goroutines, condition variable and channel all scheduled) with more partitions than capacity, every policy, expiry by virtual clock and multiple holders; TLC validates each run against RefMonitor.tla.")
SM_NOTE = "primitives failed by a shadow of internal/memcall injected via an overlay-added constructor; page state = kernel view (/proc/self/smaps); memguard-internal steps and the random source cannot be failed; sizes 1 B .. 3 pages; <=2 faults per call / behaviour; schedules at instrumented sync points, <=3 readers x 2 closers"
CLAIMED["C11"] = dict(engine="secmem", technique="TLA+ models SecMem.tla / SecMemConc.tla checked by TLC; TLC-generated API sequences executed on real secrets with the kernel's page view validated by TLC; reader/closer schedules of the real code under the cooperative scheduler validated by TLC",
    text="TLC enumerates every fault-free API sequence of the secret model up to the bound and each is executed on real protectedmemory and memguard secrets of 1 byte to 3 pages; after every call TLC compares the kernel's view of the secret's pages (mapped, PROT_NONE when idle, read-only inside the callback, mlock'd, excluded from core dumps, unmapped and wiped after Close), the bytes readers saw, IsClosed and the in-use counter with the model. SecMemConc.tla (readers x closers with liveness, plus a broken variant that must fail) is model-checked, and R readers (nested) x C concurrent Close calls on real secrets are explored under the cooperative scheduler; TLC validates every schedule (original bytes through read-only pages, errors only after Close began, Close waits, nothing mapped afterwards, no deadlock or crash).",
    note=SM_NOTE, ref="5/C11, 4.5")
CLAIMED["C12"] = dict(engine="secmem", technique="TLA+ model SecMem.tla (primitive-level, with failing primitives) checked by TLC; every transition executed on real secrets through a fault-injecting shadow of memcall; kernel page state validated by TLC",
    text="SecMem.tla runs the primitives of each API call in code order and fails the k-th one iff k is in the call's fault set; TLC checks the C12 clauses (error on failed creation with nothing left mapped/locked/secret, failed open leaves no access and the reader count unchanged, Close retriable, never unlock/release un-wiped pages, in-use balanced) for all fault sets of size <= 2 and every transition is executed on a real secret with exactly those primitive calls failing; TLC validates result, kernel page state, wipe-before-unlock and accounting after every call.",
    note=SM_NOTE, ref="5/C12, 4.5")
CLAIMED["C13"] = dict(engine="metastore", technique="TLA+ model of the key table with a lagging replica (Metastore.tla) checked by TLC; TLC-generated call sequences replayed on all four metastores over semantic backend fakes; recorded runs validated by TLC",
    text="Metastore.tla specifies insert-only Store, exact Load, greatest-created LoadLatest and read-your-writes against a lagging replica (TLC must refute read-your-writes when reads may come from the replica); TLC-generated call sequences over overlapping ids, stamps whose string and numeric order differ, binary keys, revoked flag and parent meta are executed on the memory, SQL (3 placeholder dialects), DynamoDB v1 and v2 metastores (table name, region suffix) over a database/sql driver fake and semantic DynamoDB fakes that serve non-consistent reads from a stale snapshot; TLC validates every recorded run field by field.",
    note="backends are fakes of the documented contracts (primary-key uniqueness, conditional put, consistent read, descending query); sequences <= 4 calls quick / 6 thorough; sequential calls only", ref="5/C13, 4.6")
CLAIMED["C07"] = dict(engine="tamper", technique="symbolic (ideal-AEAD) TLA+ model Tamper.tla enumerated by TLC; every case made concrete and executed on real Decrypt/Load; outcomes validated by TLC",
    text="Tamper.tla assembles a record field by field from genuine records of two key generations and another partition, damaged and absent values, and corrupts the key rows of its chain; TLC enumerates every combination with the ideal-AEAD outcome and checks that the only success is the payload bound to that Data; each case is made concrete (bit flips, truncations, real records and rows) and run through Session.Decrypt and Session.Load in a fresh cache-less factory; TLC validates: never a panic, never other bytes, outcome as in the model; plus every single-bit flip and truncation length of Data and of the encrypted key.",
    note="AES-GCM authenticity is assumed (ideal AEAD); corrupted rows live in the fake metastore; one service/product; bit flips / truncations beyond the exhaustive single-record sweep are seeded samples", ref="5/C07, 4.6")
CLAIMED["C18"] = dict(engine="wire", level="other", technique="TLA+ specification of the documented layout (WireFormat.tla) enumerates the structural cases; differential against a documentation-derived reference codec in both directions over five channels; TLC validates every recorded exchange",
    text="WireFormat.tla states the documented layout (JSON shapes and presence rules, ct||tag(16)||nonce(12), key-id grammar, key hierarchy) and TLC enumerates payload lengths, ids with underscores, region suffix, revoked flags, timestamp classes x channel {json, sql row, DynamoDB v1/v2 item, gRPC mapping} x direction; what the real SDK emits is parsed and decrypted by a reference codec written from the documentation with the standard library only, and what the reference codec writes is decrypted by the real SDK; TLC validates each exchange against the layout rules and names the violated rule.",
    note="level 'other': TLA+ contributes the structure and the enumeration, the byte arithmetic (base64, AES-GCM) is done by the Go reference codec; 'cross-language' means documentation-derived (Java/C# SDKs unavailable offline); StaticKMS only; the gRPC channel uses a loopback listener", ref="5/C18, 4.6")
PENDING = {}

def main():
    props = [json.loads(l) for l in open(os.path.join(V, "properties.jsonl"))]
    checks, na = [], []
    for p in props:
        i = p["id"]
        if i in CLAIMED:
            c = CLAIMED[i]
            checks.append({
                "property_id": i,
                "quick_cmd": "./check %s --tier quick" % i,
                "thorough_cmd": "./check %s --tier thorough" % i,
                "evidence_file": "/verif/evidence/%s.json" % i,
                "replay_cmd_template": "./check %s --replay {path}" % i,
                "engine": c["engine"],
                "level_claimed": {"category": c.get("level", "model_checking"), "text": c["text"], "design_ref": "DESIGN.md section " + c["ref"]},
                "level_note": c["note"],
                "technique": c["technique"],
            })
        else:
            na.append({"property_id": i, "reason": PENDING.get(i, "check not built yet in this session; no claim is made until its TLA+ specification and binding exist (see DESIGN.md section 5)")})
    engines = {}
    for c in checks:
        engines.setdefault(c["engine"], []).append(c["property_id"])
    hooks_commits = subprocess.run(["git", "-C", "/repo", "log", "--format=%h %s", "--grep=^verif hook"], capture_output=True, text=True).stdout.split("\n")
    m = {
        "version": 1,
        "setup_cmd": "./setup.sh",
        "hooks": {
            "guard": "verif",
            "enable": "go build -tags verif (harness module /verif/harness with `replace` => /repo; instrumented builds add -overlay generated from /repo's current files)",
            "baseline_off_cmd": "/verif/baseline_off.sh",
            "source_commits": [h.split()[0] for h in hooks_commits if h.strip()],
            "add_only": True,
        },
        "engines": [{"name": k, "path": "/verif/tools/eng_%s.py" % k, "serves_properties": v,
                     "kind_free_text": "TLA+ spec in /verif/spec + TLC + Go driver in /verif/harness/drivers"} for k, v in sorted(engines.items())],
        "checks": checks,
        "not_applicable": na,
        "notes": "All checks: ./check <id> --tier quick|thorough [--seed N] (VERIF_SEED / VERIF_TIER honoured). Exit 0 held / 1 VIOLATION / 2 not a verdict. Known findings: /verif/known_findings.json.",
    }
    json.dump(m, open(os.path.join(V, "MANIFEST.json"), "w"), indent=1)
    print("claimed:", [c["property_id"] for c in checks])

main()
