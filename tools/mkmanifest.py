#!/usr/bin/env python3
"""Regenerates /verif/MANIFEST.json from the table below (single source of truth for what is claimed)."""
import json, os, subprocess
V = os.path.dirname(os.path.dirname(os.path.abspath(__file__)))

CLAIMED = {
    "C15": dict(engine="cache", technique="TLA+ model (Cache.tla) checked by TLC; every model transition replayed on the real cache + recorded runs validated by TLC",
                text="TLC exhaustively explores an exact sequential model of the cache (lru/lfu/slru exact, tinylfu as policy-independent contract) with the property as invariants; every transition of that state graph is executed against the real cache (sync and async eviction) and compared, and long seeded runs of the real cache (all policies, capacities around every threshold) are validated by TLC as behaviours of the model.",
                note="bounded: 3 keys x 2 values, capacities 1..4 (quick) / 1..6 (thorough), <=5/7 calls exhaustively; larger capacities by recorded runs only. Trusts the transcription of the LRU/LFU/SLRU definitions in Cache.tla.",
                ref="5/C15, 4.4"),
}
PENDING = {}

def main():
    props = [json.loads(l) for l in open(os.path.join(V, "properties.jsonl"))]
    checks, na = [], []
    for p in props:
        i = p["id"]
        if i in CLAIMED:
            c = CLAIMED[i]
            checks.append({
                "property_id": i,
                "quick_cmd": "./check %s --tier quick" % i,
                "thorough_cmd": "./check %s --tier thorough" % i,
                "evidence_file": "/verif/evidence/%s.json" % i,
                "replay_cmd_template": "./check %s --replay {path}" % i,
                "engine": c["engine"],
                "level_claimed": {"category": c.get("level", "model_checking"), "text": c["text"], "design_ref": "DESIGN.md section " + c["ref"]},
                "level_note": c["note"],
                "technique": c["technique"],
            })
        else:
            na.append({"property_id": i, "reason": PENDING.get(i, "check not built yet in this session; no claim is made until its TLA+ specification and binding exist (see DESIGN.md section 5)")})
    engines = {}
    for c in checks:
        engines.setdefault(c["engine"], []).append(c["property_id"])
    hooks_commits = subprocess.run(["git", "-C", "/repo", "log", "--format=%h %s", "--grep=^verif hook"], capture_output=True, text=True).stdout.split("\n")
    m = {
        "version": 1,
        "setup_cmd": "./setup.sh",
        "hooks": {
            "guard": "verif",
            "enable": "go build -tags verif (harness module /verif/harness with `replace` => /repo; instrumented builds add -overlay generated from /repo's current files)",
            "baseline_off_cmd": "/verif/baseline_off.sh",
            "source_commits": [h.split()[0] for h in hooks_commits if h.strip()],
            "add_only": True,
        },
        "engines": [{"name": k, "path": "/verif/tools/eng_%s.py" % k, "serves_properties": v,
                     "kind_free_text": "TLA+ spec in /verif/spec + TLC + Go driver in /verif/harness/drivers"} for k, v in sorted(engines.items())],
        "checks": checks,
        "not_applicable": na,
        "notes": "All checks: ./check <id> --tier quick|thorough [--seed N] (VERIF_SEED / VERIF_TIER honoured). Exit 0 held / 1 VIOLATION / 2 not a verdict. Known findings: /verif/known_findings.json.",
    }
    json.dump(m, open(os.path.join(V, "MANIFEST.json"), "w"), indent=1)
    print("claimed:", [c["property_id"] for c in checks])

main()
