"""C07 - decrypt yields the original or an error. Spec: Tamper.tla (+TamperGen, TamperTrace). Driver: tamperdrv."""
import json, os
from vlib import Run, Infra, tla_set, cfg_text, validate_traces

ASSUME = [
    "ideal AEAD: AES-256-GCM authenticity is assumed (a forged tag is not found by flipping bits); what is decided is that every path verifies the tag and that no malformed structure crashes",
    "tampered / truncated are made concrete as seeded single-bit flips and truncation lengths (quick) and as every k-th bit / length of Data and of the encrypted key (k = 3 quick, 1 thorough)",
    "key rows are corrupted in the harness's fake metastore; a fresh factory without caches decrypts, so the corrupted rows are really read",
    "the expected outcome of Tamper.tla (genuine chain decrypts, everything else is an error) is compared as well; only panic and wrong bytes are C07 proper, a genuine record failing is C01",
]


def check(run: Run):
    q = run.quick
    run.spec_files("Tamper.tla", "TamperGen.tla", "TamperTrace.tla")
    run.write("GEN.cfg", cfg_text("GSpec", {"SampleEvery": 1}, invs=["OnlyOriginalOrError", "ForeignNeverDecrypts"]))
    g = run.tlc("TamperGen.tla", "GEN.cfg", timeout=900, out_name="gen.out")
    run.tlc_must_hold(g, "Tamper.tla design check")
    run.exhaustive = True
    trace = os.path.join(run.work, "trace.ndjson")
    try:
        res = run.drv(["tamper-replay", "-in", g.path, "-trace", trace, "-seed", str(run.seed), "-long", "1"], timeout=1800)
    except Infra as e:
        cur = trace + ".current"
        if os.path.exists(cur) and any(s in str(e) for s in ("fatal error", "stack overflow", "SIGSEGV", "unexpected fault address", "goroutine stack exceeds")):
            # C07: decrypt never crashes the process - the driver died of an unrecoverable runtime error while executing this case
            ev = json.load(open(cur))
            run.findings.append({"kind": "process-crash data=%s key=%s meta=%s ik-row=%s sk-row=%s via=%s cached=%s suffixed=%s" % (
                ev.get("data"), ev.get("key"), ev.get("meta"), ev.get("ik"), ev.get("sk"), ev.get("via"), ev.get("cached"), ev.get("suffixed")),
                "detail": "the process died while decrypting this record: " + "\n".join(l for l in str(e).splitlines() if "fatal" in l or "overflow" in l or "SIG" in l)[:400],
                "case": {"event": ev}})
            return run.finish("model_checking", "INCOMPLETE RUN: the driver process was killed by the runtime while executing a case", ASSUME, explanation="incomplete")
        raise
    os.remove(g.path)
    if res["evaluations"] == 0:
        raise Infra("no case reached the driver")
    run.absorb(res)
    run.states += res["evaluations"]
    run.transitions += res["evaluations"]
    rej = validate_traces(run, "TamperTrace.tla", {}, [], trace, "tamper", max_reject=8)
    for x in rej:
        ev = x["event"]
        what = "panic" if ev.get("result") == "panic" else ("other-bytes" if ev.get("result") == "ok" and not ev.get("same") else ("genuine-record-refused" if ev.get("result") == "error" else "decrypted-although-model-says-error"))
        run.findings.append({"kind": "%s data=%s key=%s meta=%s ik-row=%s sk-row=%s via=%s" % (what, ev.get("data"), ev.get("key"), ev.get("meta"), ev.get("ik"), ev.get("sk"), ev.get("via")),
                             "detail": "%s: %s" % (x["why"], json.dumps(ev)[:700]), "case": {"event": ev}})
    return run.finish("model_checking",
                      "all %d field recombinations of Tamper.tla (Data x encrypted key x key meta from 4 genuine records / damaged / absent values, x corrupted IK row x corrupted SK row) with the ideal-AEAD outcome computed by TLC, each made concrete and executed through Session.Decrypt / Session.Load; plus every %s single-bit flip and truncation length of Data and of the encrypted key of a genuine record; TLC validates every outcome (no panic, ok => the bytes bound to that Data, outcome = model). states/transitions count executed cases (the spec has no dynamics). non-trivial = at least two fields genuine" % (g.generated and res["evaluations"], "3rd" if q else ""),
                      ASSUME, explanation="%d cases executed, %d events accepted by TLC" % (res["evaluations"], run.events_validated))


def replay(run: Run, finding):
    ev = finding.get("case", {}).get("event", {})
    case = {k: ev.get(k) for k in ("data", "key", "meta", "ik", "sk")}    # (the flavour and the random choices follow from the seed / position: a replay re-runs the recombination under the default flavour)
    case["expect"] = ""
    cp = run.write("case.json", json.dumps(case) + "\n")
    run.spec_files("Tamper.tla", "TamperTrace.tla")
    trace = os.path.join(run.work, "trace.ndjson")
    os.environ["VERIF_TAMPER_FLAVOUR"] = ("cached " if ev.get("cached") else "") + ("suffixed" if ev.get("suffixed") else "") or "plain"
    import vlib
    vlib.GOENV["VERIF_TAMPER_FLAVOUR"] = os.environ["VERIF_TAMPER_FLAVOUR"]
    try:
        run.drv(["tamper-replay", "-in", cp, "-trace", trace, "-seed", str(run.seed), "-long", "0"])
    except Infra as e:
        print("the driver process died while decrypting this record: " + " | ".join(l for l in str(e).splitlines() if "fatal" in l or "overflow" in l or "SIG" in l)[:300])
        return 1
    rej = validate_traces(run, "TamperTrace.tla", {}, [], trace, "replay")
    print("rejected: " + json.dumps(rej[0]["event"])[:500] if rej else "accepted")
    return 1 if rej else 0
